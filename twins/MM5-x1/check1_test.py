"""
Behaviour checks for refactoring 1 (component tree construction: ``_init_component``).

Everything goes through the public API (``start_component``, ``Component``,
``Context``, the resource functions) and must pass both on the unchanged source and
with refactor1.diff applied.
"""

from __future__ import annotations

import logging
from collections import OrderedDict
from typing import Any

import pytest
from pytest import LogCaptureFixture

from asphalt.core import (
    Component,
    ComponentStartError,
    Context,
    add_resource,
    get_resource_nowait,
    start_component,
)

pytestmark = pytest.mark.anyio


@pytest.fixture(params=["asyncio", "trio"])
def anyio_backend(request: Any) -> str:
    return request.param


CREATED: list[tuple[str, dict[str, Any]]] = []


@pytest.fixture(autouse=True)
def reset_created() -> None:
    CREATED.clear()


class Leaf(Component):
    def __init__(
        self, tag: str = "leaf", publish: bool = False, **kwargs: Any
    ) -> None:
        self.tag = tag
        self.publish = publish
        self.kwargs = kwargs
        CREATED.append((tag, kwargs))

    async def start(self) -> None:
        if self.publish:
            add_resource(self.tag)


class Container(Component):
    def __init__(self, tag: str = "container", **kwargs: Any) -> None:
        self.tag = tag
        self.kwargs = kwargs
        CREATED.append((tag, kwargs))
        self.add_component("first", Leaf, tag="first-hardcoded", extra={"a": 1})
        self.add_component("second/alt", f"{__name__}:Leaf", tag="second-hardcoded")


class Exploding(Component):
    def __init__(self, **kwargs: Any) -> None:
        CREATED.append(("exploding", kwargs))
        raise ValueError("boom")


class ExplodingBase(Component):
    def __init__(self) -> None:
        raise KeyboardInterrupt


NOT_A_COMPONENT = object


def ref(name: str) -> str:
    return f"{__name__}:{name}"


async def test_tree_construction_order_merge_and_default_names(
    caplog: LogCaptureFixture,
) -> None:
    caplog.set_level(logging.DEBUG, "asphalt.core")
    first_override = {"extra": {"b": 2}}
    # An ordered, non-dict mapping on purpose; the last alias doubles as the type
    components = OrderedDict(
        [
            ("third", {"type": ref("Container"), "tag": "third", "components": None}),
            ("first", first_override),
            ("second/alt", {"publish": True}),
            ("fourth/xy", {"type": ref("Leaf"), "tag": "fourth", "publish": True}),
            (ref("Leaf"), None),
        ]
    )
    config = {"tag": "root", "components": components, "rootopt": 1}
    snapshot = repr(config)

    async with Context():
        root = await start_component(ref("Container"), config)
        assert isinstance(root, Container)
        assert root.tag == "root"
        assert root.kwargs == {"rootopt": 1}
        # default resource names: "second/alt" -> "alt", "fourth/xy" -> "xy"
        assert get_resource_nowait(str, "alt") == "second-hardcoded"
        assert get_resource_nowait(str, "xy") == "fourth"

    # The caller's configuration is left untouched (children are copied)
    assert repr(config) == snapshot
    assert first_override == {"extra": {"b": 2}}

    # Depth first, in the order of the merged configuration: hardcoded children first
    # (first, second/alt), then the extra ones from the overrides in their order
    assert CREATED == [
        ("root", {"rootopt": 1}),
        ("first-hardcoded", {"extra": {"a": 1, "b": 2}}),
        ("second-hardcoded", {}),
        ("third", {}),
        ("first-hardcoded", {"extra": {"a": 1}}),
        ("second-hardcoded", {}),
        ("fourth", {}),
        ("leaf", {}),
    ]
    creation_messages = [
        msg for msg in caplog.messages if msg.startswith(("Creating", "Created"))
    ]
    leaf = f"{__name__}.Leaf"
    cont = f"{__name__}.Container"
    expected_paths = [
        ("the root component", cont),
        ("component 'first'", leaf),
        ("component 'second/alt'", leaf),
        ("component 'third'", cont),
        ("component 'third.first'", leaf),
        ("component 'third.second/alt'", leaf),
        ("component 'fourth/xy'", leaf),
        (f"component '{ref('Leaf')}'", leaf),
    ]
    # Creating/Created of a container brackets nothing: "Created" is logged before
    # the children are created
    expected: list[str] = []
    for name, cls in expected_paths:
        expected.append(f"Creating {name} ({cls})")
        expected.append(f"Created {name} ({cls})")

    assert creation_messages == expected
    # nothing is started before the whole tree has been created
    first_start = next(
        i for i, msg in enumerate(caplog.messages) if msg.startswith("Starting the")
    )
    assert all(
        not msg.startswith(("Creating", "Created"))
        for msg in caplog.messages[first_start:]
    )


async def test_type_with_slash_and_alias_as_type() -> None:
    class Parent(Component):
        def __init__(self) -> None:
            # type given as a string with a slash: only the first part is the type,
            # but then it would be looked up as an entry point -> LookupError
            self.add_component("whatever", "nonexistent_entry_point/suffix")

    async with Context():
        with pytest.raises(
            LookupError,
            match="no such entry point in asphalt.components: nonexistent_entry_point$",
        ):
            await start_component(Parent)

    class Parent2(Component):
        def __init__(self) -> None:
            # no explicit type: the alias (including its slash part) becomes the type
            # and is then cut at the slash
            self.add_component("nonexistent_too/resname")

    async with Context():
        with pytest.raises(
            LookupError,
            match="no such entry point in asphalt.components: nonexistent_too$",
        ):
            await start_component(Parent2)


async def test_type_override_through_config() -> None:
    async with Context():
        root = await start_component(
            Container,
            {
                "components": {
                    "first": {"type": ref("Container"), "tag": "swapped"},
                }
            },
        )

    assert isinstance(root, Container)
    assert [tag for tag, _ in CREATED] == [
        "container",
        "swapped",
        "first-hardcoded",
        "second-hardcoded",
        "second-hardcoded",
    ]
    # the hardcoded "extra" option is still merged in
    assert CREATED[1] == ("swapped", {"extra": {"a": 1}})


@pytest.mark.parametrize(
    "bad_value, type_name",
    [("foo", "str"), (5, "int"), ((), "tuple"), (["x"], "list")],
)
async def test_bad_child_config_nested(bad_value: object, type_name: str) -> None:
    config = {
        "components": {
            "ok": {"type": ref("Leaf"), "tag": "ok"},
            "third": {
                "type": ref("Container"),
                "tag": "third",
                "components": {"second/alt": bad_value, "never": {"type": ref("Leaf")}},
            },
            "after": {"type": ref("Leaf"), "tag": "after"},
        }
    }
    async with Context():
        with pytest.raises(TypeError) as exc:
            await start_component(Container, config)

    assert str(exc.value) == (
        "third.second/alt: component configuration must be either None or a dict "
        f"(or any other mutable mapping type), not {type_name}"
    )
    # Everything before the bad entry was created, nothing after it
    assert [tag for tag, _ in CREATED] == [
        "container",
        "first-hardcoded",
        "second-hardcoded",
        "ok",
        "third",
        "first-hardcoded",
    ]


async def test_bad_component_classes() -> None:
    async with Context():
        with pytest.raises(TypeError) as exc:
            await start_component(ref("NOT_A_COMPONENT"))

        assert str(exc.value) == (
            f"(root): the declared component type ({ref('NOT_A_COMPONENT')!r}) "
            f"resolved to {object!r} which is not a subclass of Component"
        )

        with pytest.raises(TypeError) as exc:
            await start_component(Container, {"components": {"first": {"type": 5}}})

        assert str(exc.value) == (
            "first: the declared component type (5) resolved to 5 which is not a "
            "subclass of Component"
        )

        with pytest.raises(TypeError) as exc:
            await start_component(
                Container,
                {"components": {"x": {"type": Container, "components": {"y": {"type": int}}}}},
            )

        assert str(exc.value) == (
            f"x.y: the declared component type ({int!r}) resolved to {int!r} which "
            "is not a subclass of Component"
        )

        with pytest.raises(LookupError, match="error looking up object"):
            await start_component(ref("DoesNotExist"))


async def test_error_creating_component(caplog: LogCaptureFixture) -> None:
    caplog.set_level(logging.DEBUG, "asphalt.core")
    config = {
        "components": {
            "sub": {
                "type": Container,
                "tag": "sub",
                "components": {"bad": {"type": Exploding, "opt": 3}, "later": None},
            }
        }
    }
    async with Context():
        with pytest.raises(ComponentStartError) as exc:
            await start_component(Container, config)

    assert exc.value.phase == "creating"
    assert exc.value.path == "sub.bad"
    assert exc.value.component_type is Exploding
    assert exc.value.args == ("creating", "sub.bad", Exploding)
    assert isinstance(exc.value.__cause__, ValueError)
    assert str(exc.value.__cause__) == "boom"
    assert CREATED[-1] == ("exploding", {"opt": 3})
    assert caplog.messages[-1] == (
        f"Creating component 'sub.bad' ({__name__}.Exploding)"
    )
    assert not any(msg.startswith("Calling") for msg in caplog.messages)

    # Unknown keyword arguments end up as a ComponentStartError too
    async with Context():
        with pytest.raises(ComponentStartError) as exc:
            await start_component(Component, {"unknown": 1})

    assert exc.value.phase == "creating"
    assert exc.value.path == ""
    assert isinstance(exc.value.__cause__, TypeError)


async def test_base_exception_from_constructor_is_not_wrapped() -> None:
    async with Context():
        with pytest.raises(KeyboardInterrupt):
            await start_component(
                Container, {"components": {"kb": {"type": ExplodingBase}}}
            )


async def test_missing_type_key_at_root_is_impossible_but_children_default() -> None:
    # A child with an explicit ``type: None`` keeps None (setdefault does not replace
    # it) and therefore fails the class check with the child's path in the message
    async with Context():
        with pytest.raises(TypeError) as exc:
            await start_component(Container, {"components": {"first": {"type": None}}})

    assert str(exc.value) == (
        "first: the declared component type (None) resolved to None which is not a "
        "subclass of Component"
    )


async def test_non_string_alias() -> None:
    # Aliases coming from the configuration are not validated; a non-string alias
    # gets as far as the default resource name computation
    async with Context():
        with pytest.raises(TypeError) as exc:
            await start_component(Component, {"components": {7: {"type": Leaf}}})

    assert "iterable" in str(exc.value) or "in" in str(exc.value)
    assert CREATED == []

    # ...but a bad configuration value for it is reported first
    async with Context():
        with pytest.raises(TypeError, match="^7: component configuration must be"):
            await start_component(Component, {"components": {7: "bad"}})


async def test_alias_with_two_slashes() -> None:
    # Only the first slash separates the default resource name, so it becomes "b/c"
    # which is then rejected as a resource name when the component publishes it
    async with Context():
        with pytest.raises(ComponentStartError) as exc:
            await start_component(
                Component,
                {"components": {"a/b/c": {"type": ref("Leaf"), "publish": True}}},
            )

    assert exc.value.phase == "starting"
    assert exc.value.path == "a/b/c"
    assert isinstance(exc.value.__cause__, ValueError)
    assert str(exc.value.__cause__).startswith('"name" must be a nonempty string')
