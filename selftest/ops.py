"""Catalogue of source-level variants of the current tree.

kind='break': the property is broken, the variant still compiles; the check must report a
              VIOLATION naming (one of) the listed rule(s).
kind='twin':  behaviour-preserving refactoring; the check must stay silent.

Each variant is a list of exact (old, new) text edits on one file; an edit that does not
apply (the tree was edited) makes the variant 'n/a', which is informational only.
"""

MUTANTS: list = []


def M(id, prop, file, rules, what, *edits, kind="break", count=1, control=True):
    MUTANTS.append({"id": id, "prop": prop, "file": file, "rules": rules if isinstance(rules, list) else [rules], "what": what, "edits": list(edits), "kind": kind, "count": count, "control": control})


def T(id, prop, file, what, *edits, count=1):
    M(id, prop, file, [], what, *edits, kind="twin", count=count)


# =============================================================================== C03
_ADD_RES_TAIL = '''        # Add the teardown callback, if any (this validates the callback, so it has to
        # happen before the resource is made available)
        if teardown_callback is not None:
            self.add_teardown_callback(teardown_callback)

        container = ResourceContainer(value, types_, name, description)
        for type_ in types_:
            self._resources[(type_, name)] = container
'''
M("c03-f5-inverse", "C03", "_context.py", "C03.R1", "register (and validate) the teardown callback after the insertion (pre-fix F5)",
  (_ADD_RES_TAIL, '''        container = ResourceContainer(value, types_, name, description)
        for type_ in types_:
            self._resources[(type_, name)] = container

        if teardown_callback is not None:
            self.add_teardown_callback(teardown_callback)
'''))
_CONFLICT_LOOP = '''        for resource_type in types_:
            if (resource_type, name) in self._resources:
                raise ResourceConflict(
                    f"this context already contains a resource of type "
                    f"{qualified_name(resource_type)} using the name {name!r}"
                )

'''
M("c03-check-inside-insert-loop", "C03", "_context.py", ["C03.R2", "C03.R1"], "conflict check interleaved with insertion: a conflict on the second type leaves the first inserted",
  (_CONFLICT_LOOP, ""),
  ('''        for type_ in types_:
            self._resources[(type_, name)] = container
''', '''        for type_ in types_:
            if (type_, name) in self._resources:
                raise ResourceConflict("conflict")
            self._resources[(type_, name)] = container
'''))
M("c03-check-first-type-only", "C03", "_context.py", "C03.R2", "conflict check looks only at the first type",
  (_CONFLICT_LOOP, '''        if (types_[0], name) in self._resources:
            raise ResourceConflict("conflict")

'''))
M("c03-check-wrong-name", "C03", "_context.py", "C03.R2", "factory conflict check ignores the requested name",
  ("if (type_, name) in self._resource_factories:", 'if (type_, "default") in self._resource_factories:'))
M("c03-no-conflict-check", "C03", "_context.py", "C03.R2", "no conflict check for factories at all",
  ('''            if (type_, name) in self._resource_factories:
                raise ResourceConflict(
                    f"this context already contains a resource factory for the "
                    f"type {qualified_name(type_)}"
                )
''', "            pass\n"))
M("c03-f3-inverse", "C03", "_context.py", "C03.R3", "generation overwrites occupied keys (pre-fix F3)",
  ("self._resources.setdefault((type_, factory.name), container)", "self._resources[(type_, factory.name)] = container"), count=2)
M("c03-value-check-after-insert", "C03", "_context.py", "C03.R1", "None-value validation after the insertion",
  ('''        if value is None:
            raise ValueError('"value" must not be None')

''', ""),
  ('''        for type_ in types_:
            self._resources[(type_, name)] = container
''', '''        for type_ in types_:
            self._resources[(type_, name)] = container

        if value is None:
            raise ValueError('"value" must not be None')
'''))
M("c03-pop-on-async-error", "C03", "_context.py", "C03.R4", "a lookup removes a registered resource",
  ('''        if optional:
            return None

        raise ResourceNotFound(type, name)

    @overload
    async def get_resource(''', '''        if optional:
            self._resources.pop((object, name), None)
            return None

        raise ResourceNotFound(type, name)

    @overload
    async def get_resource('''))
M("c03-wrapper-raises-after-delegate", "C03", "_component.py", "C03.R1", "component wrapper validates after delegating",
  ('''        logger.debug(
            "%s added a resource (%s)",''', '''        if description is not None and not isinstance(description, str):
            raise TypeError("description must be a string")

        logger.debug(
            "%s added a resource (%s)",'''))
T("c03-twin-early-validate-late-register", "C03", "_context.py", "explicit callable() validation first, registration after the insertion (the other F5 repair)",
  (_ADD_RES_TAIL, '''        container = ResourceContainer(value, types_, name, description)
        for type_ in types_:
            self._resources[(type_, name)] = container

        # Add the teardown callback, if any
        if teardown_callback is not None:
            self.add_teardown_callback(teardown_callback)
'''),
  ('''        if value is None:
            raise ValueError('"value" must not be None')
''', '''        if value is None:
            raise ValueError('"value" must not be None')

        if teardown_callback is not None and not callable(teardown_callback):
            raise TypeError("teardown_callback must be a callable")
'''))
T("c03-twin-any-check", "C03", "_context.py", "conflict check written with any()",
  (_CONFLICT_LOOP, '''        if any((resource_type, name) in self._resources for resource_type in types_):
            raise ResourceConflict("this context already contains such a resource")

'''))
T("c03-twin-guarded-store", "C03", "_context.py", "generation store guarded by a not-in test instead of setdefault",
  ("self._resources.setdefault((type_, factory.name), container)", '''if (type_, factory.name) not in self._resources:
                    self._resources[(type_, factory.name)] = container'''), count=2)
T("c03-twin-rename", "C03", "_context.py", "rename locals in add_resource",
  ("container = ResourceContainer(value, types_, name, description)\n        for type_ in types_:\n            self._resources[(type_, name)] = container",
   "holder = ResourceContainer(value, types_, name, description)\n        for res_type in types_:\n            self._resources[(res_type, name)] = holder"))

# =============================================================================== C04
_ASYNC_CONTAINER = '''                generated_resource = await generated_resource

            container = ResourceContainer(
                generated_resource,
                factory.types,
                factory.name,
                factory.description,
                is_generated=True,
            )'''
M("c04-f2-inverse", "C04", "_context.py", "C04.R1", "async lookup stores the product without the generated flag (pre-fix F2)",
  (_ASYNC_CONTAINER, _ASYNC_CONTAINER.replace("                is_generated=True,\n", "")))
_SYNC_CONTAINER = '''            # Store the generated resource in the context
            container = ResourceContainer(
                generated_resource,
                factory.types,
                factory.name,
                factory.description,
                is_generated=True,
            )'''
M("c04-sync-flag-dropped", "C04", "_context.py", "C04.R1", "sync lookup stores the product without the generated flag",
  (_SYNC_CONTAINER, _SYNC_CONTAINER.replace("                is_generated=True,\n", "")))
M("c04-children-inherit-generated", "C04", "_context.py", "C04.R2", "child contexts copy generated resources too",
  ('''            self._resources = {
                key: res
                for key, res in self._parent._resources.items()
                if not res.is_generated
            }''', "            self._resources = dict(self._parent._resources)"))
M("c04-filter-inverted", "C04", "_context.py", "C04.R2", "child contexts copy only generated resources",
  ("                if not res.is_generated\n", "                if res.is_generated\n"))
M("c04-no-coroutine-test", "C04", "_context.py", "C04.R3", "sync lookup stores the coroutine object of an async factory",
  ('''            if iscoroutine(generated_resource):
                generated_resource.close()
                raise AsyncResourceError()
''', ""))
M("c04-coroutine-test-after-store", "C04", "_context.py", "C04.R3", "AsyncResourceError raised after the coroutine was stored",
  ('''            if iscoroutine(generated_resource):
                generated_resource.close()
                raise AsyncResourceError()
''', ""),
  ('''            # Dispatch the resource_added event to notify any listeners
            self.resource_added.dispatch(
                ResourceEvent(factory.types, name, factory.description, False)
            )

            return cast(T_Resource, generated_resource)

        if optional:
            return None

        raise ResourceNotFound(type, name)

    @overload
    async def get_resource(''', '''            if iscoroutine(generated_resource):
                generated_resource.close()
                raise AsyncResourceError()

            # Dispatch the resource_added event to notify any listeners
            self.resource_added.dispatch(
                ResourceEvent(factory.types, name, factory.description, False)
            )

            return cast(T_Resource, generated_resource)

        if optional:
            return None

        raise ResourceNotFound(type, name)

    @overload
    async def get_resource('''))
M("c04-store-in-parent", "C04", "_context.py", ["C04.R5", "C04.R1"], "async lookup caches the product in the parent context",
  ('''                generated_resource = await generated_resource
''', '''                generated_resource = await generated_resource
''', ),
  (_ASYNC_CONTAINER + '''
            for type_ in factory.types:
                # Don't replace a resource already present under one of the types
                self._resources.setdefault((type_, factory.name), container)''', _ASYNC_CONTAINER + '''
            for type_ in factory.types:
                # Don't replace a resource already present under one of the types
                (self._parent or self)._resources.setdefault((type_, factory.name), container)'''))
M("c04-async-first-type-only", "C04", "_context.py", "C04.R1", "async lookup stores the product only under the requested key",
  (_ASYNC_CONTAINER + '''
            for type_ in factory.types:
                # Don't replace a resource already present under one of the types
                self._resources.setdefault((type_, factory.name), container)''', _ASYNC_CONTAINER + '''
            self._resources.setdefault(key, container)'''))
M("c04-f6-widen", "C04", "_context.py", "C04.R4", "sync lookup sleeps between miss and store? (a second checkpoint in the async window)",
  ('''            container = ResourceContainer(
                generated_resource,
                factory.types,
                factory.name,
                factory.description,
                is_generated=True,
            )
            for type_ in factory.types:
                # Don't replace a resource already present under one of the types
                self._resources.setdefault((type_, factory.name), container)

            # Dispatch the resource_added event to notify any listeners
            self.resource_added.dispatch(
                ResourceEvent(factory.types, name, factory.description, False)
            )

            return cast(T_Resource, generated_resource)

        if optional:
            return None

        raise ResourceNotFound(type, name)

    def get_resources(''', '''            container = ResourceContainer(
                generated_resource,
                factory.types,
                factory.name,
                factory.description,
                is_generated=True,
            )
            await self._yield_to_loop()
            for type_ in factory.types:
                # Don't replace a resource already present under one of the types
                self._resources.setdefault((type_, factory.name), container)

            # Dispatch the resource_added event to notify any listeners
            self.resource_added.dispatch(
                ResourceEvent(factory.types, name, factory.description, False)
            )

            return cast(T_Resource, generated_resource)

        if optional:
            return None

        raise ResourceNotFound(type, name)

    async def _yield_to_loop(self) -> None:
        from anyio import sleep

        await sleep(0)

    def get_resources('''), control=False)
T("c04-twin-event-name-from-factory", "C04", "_context.py", "event carries factory.name instead of the requested name (equal by invariant)",
  ("ResourceEvent(factory.types, name, factory.description, False)", "ResourceEvent(factory.types, factory.name, factory.description, False)"), count=2)
T("c04-twin-rename-locals", "C04", "_context.py", "rename the generated value variable in both lookups",
  ("generated_resource", "product"), count=None)

# =============================================================================== C11
M("c11-f1-inverse", "C11", "_event.py", "C11.R1", "bound-signal table keyed by the instance alone (pre-fix F1)",
  ('T_Event = TypeVar("T_Event", bound="Event")\n', 'T_Event = TypeVar("T_Event", bound="Event")\nbound_signals = WeakKeyDictionary[Hashable, "Signal[Any]"]()\n'),
  ("            return self._bound_signals[instance]\n", "            return bound_signals[instance]\n"),
  ("            self._bound_signals[instance] = bound_signal\n", "            bound_signals[instance] = bound_signal\n"))
M("c11-key-by-class", "C11", "_event.py", "C11.R1", "cache keyed by the owner class: instances share channels",
  ("            return self._bound_signals[instance]\n", "            return self._bound_signals[owner]\n"),
  ("            self._bound_signals[instance] = bound_signal\n", "            self._bound_signals[owner] = bound_signal\n"))
M("c11-not-cached", "C11", "_event.py", "C11.R2", "a new bound signal on every access",
  ("            self._bound_signals[instance] = bound_signal\n", ""))
M("c11-store-other-key", "C11", "_event.py", "C11.R2", "stored under a different key than fetched",
  ("            self._bound_signals[instance] = bound_signal\n", "            self._bound_signals[type(instance)] = bound_signal\n"))
M("c11-topic-lost", "C11", "_event.py", "C11.R3", "bound signal does not carry the declaration's topic",
  ("            bound_signal._topic = self._topic\n", '            bound_signal._topic = "signal"\n'))
M("c11-event-class-lost", "C11", "_event.py", "C11.R3", "bound signal built with the base Event class",
  ("            bound_signal = Signal(self.event_class)\n", "            bound_signal = Signal(Event)\n"))
M("c11-no-class-check", "C11", "_event.py", "C11.R5", "dispatch accepts events of any class",
  ('''        if not isinstance(event, self.event_class):
            raise TypeError(
                f"Event type mismatch: event ({qualified_name(event)}) is not a "
                f"subclass of {qualified_name(self.event_class)}"
            )
''', ""))
M("c11-class-check-after-send", "C11", "_event.py", "C11.R5", "event class checked after delivery",
  ('''        if not isinstance(event, self.event_class):
            raise TypeError(
                f"Event type mismatch: event ({qualified_name(event)}) is not a "
                f"subclass of {qualified_name(self.event_class)}"
            )

        event.source = self._instance()''', "        event.source = self._instance()"),
  ('''                    SignalQueueFull,
                    stacklevel=2,
                )
''', '''                    SignalQueueFull,
                    stacklevel=2,
                )

        if not isinstance(event, self.event_class):
            raise TypeError("Event type mismatch")
'''))
M("c11-strong-owner-ref", "C11", "_event.py", "C11.R6", "bound signal keeps a strong reference to its owner",
  ("            bound_signal._instance = weakref.ref(instance)\n", "            bound_signal._instance = weakref.ref(instance)\n            bound_signal._owner = instance\n"))
M("c11-strong-table", "C11", "_event.py", "C11.R6", "bound-signal table is a plain dict (strong keys)",
  ("init=False, default_factory=WeakKeyDictionary, repr=False, compare=False", "init=False, default_factory=dict, repr=False, compare=False"))
M("c11-unbound-check-dropped", "C11", "_event.py", "C11.R4", "dispatch on the class-level declaration is not rejected",
  ('''        self._check_is_bound_signal()
        if not isinstance(event, self.event_class):''', "        if not isinstance(event, self.event_class):"))
M("c11-shared-subscriber-list", "C11", "_event.py", "C11.R7", "all bound signals share one subscriber list",
  ("            bound_signal._send_streams = []\n", "            bound_signal._send_streams = _ALL_STREAMS\n"),
  ('T_Event = TypeVar("T_Event", bound="Event")\n', 'T_Event = TypeVar("T_Event", bound="Event")\n_ALL_STREAMS: list = []\n'))
T("c11-twin-nested-by-topic", "C11", "_event.py", "module-level weak table nested by topic",
  ('T_Event = TypeVar("T_Event", bound="Event")\n', 'T_Event = TypeVar("T_Event", bound="Event")\nbound_signals = WeakKeyDictionary[Hashable, "dict[str, Signal[Any]]"]()\n'),
  ("            return self._bound_signals[instance]\n", "            return bound_signals[instance][self._topic]\n"),
  ("            self._bound_signals[instance] = bound_signal\n", "            bound_signals.setdefault(instance, {})[self._topic] = bound_signal\n"))
T("c11-twin-rename", "C11", "_event.py", "rename the local bound signal variable",
  ("bound_signal", "channel"), count=None)

# =============================================================================== C17
M("c17-alias-original", "C17", "_utils.py", ["C17.R1", "C17.R2"], "result aliases the original argument",
  ("    copied = dict(original) if original else {}\n", "    copied = original if original else {}\n"))
M("c17-update-nested-in-place", "C17", "_utils.py", "C17.R1", "nested dictionaries of the original are updated in place",
  ("                copied[key] = merge_config(orig_value, value)\n", "                orig_value.update(value)\n                copied[key] = orig_value\n"))
M("c17-left-bias", "C17", "_utils.py", ["C17.R2", "C17.R3"], "existing keys win (left bias)",
  ("            else:\n                copied[key] = value\n", "            else:\n                copied.setdefault(key, value)\n"))
M("c17-or-guard", "C17", "_utils.py", "C17.R3", "recursion when either side is a dict",
  ("if isinstance(orig_value, dict) and isinstance(value, dict):", "if isinstance(orig_value, dict) or isinstance(value, dict):"))
M("c17-one-sided-guard", "C17", "_utils.py", "C17.R3", "recursion when only the original value is a dict",
  ("if isinstance(orig_value, dict) and isinstance(value, dict):", "if isinstance(orig_value, dict):"))
M("c17-swapped-recursion", "C17", "_utils.py", "C17.R3", "nested merge with swapped arguments (nested left bias)",
  ("merge_config(orig_value, value)", "merge_config(value, orig_value)"))
M("c17-dotted-keys", "C17", "_utils.py", "C17.R5", "dotted keys are split again",
  ("            orig_value = copied.get(key)\n", '            key = key.split(".")[0]\n            orig_value = copied.get(key)\n'))
M("c17-none-overrides-crash", "C17", "_utils.py", "C17.R4", "overrides=None is dereferenced",
  ("    if overrides:\n", "    if overrides is not False:\n"))
M("c17-none-original-crash", "C17", "_utils.py", "C17.R4", "original=None is dereferenced",
  ("    copied = dict(original) if original else {}\n", "    copied = dict(original)\n"))
M("c17-skip-none-values", "C17", "_utils.py", "C17.R2", "override keys whose value is None are dropped",
  ("            else:\n                copied[key] = value\n", "            elif value is not None:\n                copied[key] = value\n"))
T("c17-twin-or-empty", "C17", "_utils.py", "dict(original or {}) / (overrides or {}).items()",
  ("    copied = dict(original) if original else {}\n    if overrides:\n        for key, value in overrides.items():", "    copied = dict(original or {})\n    if overrides:\n        for key, value in overrides.items():"))
T("c17-twin-rename", "C17", "_utils.py", "rename locals",
  ("copied", "merged"), count=None)
T("c17-twin-continue-style", "C17", "_utils.py", "early-continue instead of else",
  ('''            if isinstance(orig_value, dict) and isinstance(value, dict):
                copied[key] = merge_config(orig_value, value)
            else:
                copied[key] = value
''', '''            if isinstance(orig_value, dict) and isinstance(value, dict):
                copied[key] = merge_config(orig_value, value)
                continue

            copied[key] = value
'''))


# =============================================================================== C01
_RUNNER_SIG = '''    async def _run_teardown_callbacks(
        self,
        exc_type: type[BaseException] | None,
        exc_val: BaseException | None,
        exc_tb: TracebackType | None,
    ) -> None:
        # The exception that ended the context block (not whatever exception the
        # surrounding code may happen to be handling)
        original_exception = exc_val
'''
M("c01-f8-inverse", "C01", "_context.py", "C01.R4", "exception argument taken from sys.exc_info() (pre-fix F8)",
  (_RUNNER_SIG, '''    async def _run_teardown_callbacks(self) -> None:
        original_exception = sys.exc_info()[1]
'''),
  ("                exit_stack.push_async_exit(self._run_teardown_callbacks)\n", "                exit_stack.push_async_callback(self._run_teardown_callbacks)\n"))
M("c01-catch-exception-only", "C01", "_context.py", "C01.R2", "teardown loop catches only Exception",
  ("            except BaseException as e:\n                exceptions.append(e)\n", "            except Exception as e:\n                exceptions.append(e)\n"))
M("c01-snapshot-iteration", "C01", "_context.py", "C01.R1", "iterate a reversed snapshot: callbacks added during teardown are dropped",
  ("        while self._teardown_callbacks:\n            callback, pass_exception = self._teardown_callbacks.pop()\n",
   "        for callback, pass_exception in reversed(list(self._teardown_callbacks)):\n"))
M("c01-fifo-pop", "C01", "_context.py", "C01.R1", "pop from the front: FIFO order",
  ("self._teardown_callbacks.pop()\n", "self._teardown_callbacks.pop(0)\n"))
M("c01-pass-last-exception", "C01", "_context.py", "C01.R4", "a later callback receives an earlier callback's exception",
  ("            except BaseException as e:\n                exceptions.append(e)\n", "            except BaseException as e:\n                exceptions.append(e)\n                original_exception = e\n"))
M("c01-insert-front", "C01", "_context.py", "C01.R7", "registration inserts at the front of the stack",
  ("        self._teardown_callbacks.append((callback, pass_exception))\n", "        self._teardown_callbacks.insert(0, (callback, pass_exception))\n"))
M("c01-flag-dropped", "C01", "_context.py", "C01.R7", "registration forgets the pass_exception flag",
  ("        self._teardown_callbacks.append((callback, pass_exception))\n", "        self._teardown_callbacks.append((callback, False))\n"))
M("c01-no-await", "C01", "_context.py", "C01.R3", "awaitable results are not awaited in the loop",
  ("                if isawaitable(retval):\n                    await retval\n            except BaseException as e:", "                if isawaitable(retval):\n                    pending.append(retval)\n            except BaseException as e:"),
  ("        exceptions: list[BaseException] = []\n        while self._teardown_callbacks:", "        exceptions: list[BaseException] = []\n        pending: list[Any] = []\n        while self._teardown_callbacks:"))
M("c01-exceptiongroup", "C01", "_context.py", "C01.R5", "ExceptionGroup cannot hold BaseException members",
  ("            excgrp = BaseExceptionGroup(\n", "            excgrp = ExceptionGroup(\n"))
M("c01-raise-first-only", "C01", "_context.py", "C01.R5", "only the first callback exception is re-raised",
  ('''            excgrp = BaseExceptionGroup(
                "Exceptions were raised during context teardown", exceptions
            )
            del exceptions
            raise excgrp from original_exception''', "            raise exceptions[0] from original_exception"))
M("c01-runner-not-last", "C01", "_context.py", "C01.R6", "context-var reset registered after the teardown runner",
  ('''                _reset_token = _current_context.set(self)
                exit_stack.callback(_current_context.reset, _reset_token)

''', '''                _reset_token = _current_context.set(self)

'''),
  ("                exit_stack.push_async_exit(self._run_teardown_callbacks)\n", "                exit_stack.push_async_exit(self._run_teardown_callbacks)\n                exit_stack.callback(_current_context.reset, _reset_token)\n"))
M("c01-aexit-drops-exc", "C01", "_context.py", "C01.R6", "__aexit__ does not forward the exception to the exit stack",
  ("            retval = await self._exit_stack.__aexit__(exc_type, exc_val, exc_tb)\n", "            retval = await self._exit_stack.__aexit__(None, None, None)\n"))
M("c01-closed-not-in-finally", "C01", "_context.py", ["C01.R9"], "closed state not set when teardown raises",
  ('''        try:
            retval = await self._exit_stack.__aexit__(exc_type, exc_val, exc_tb)
        finally:
            self._state = ContextState.closed
''', '''        retval = await self._exit_stack.__aexit__(exc_type, exc_val, exc_tb)
        self._state = ContextState.closed
'''))
M("c01-context-teardown-flag", "C01", "_context.py", "C01.R8", "@context_teardown registers without pass_exception",
  ("            ctx.add_teardown_callback(teardown_callback, True)\n", "            ctx.add_teardown_callback(lambda: teardown_callback(None))\n"))
M("c01-tg-outside-coalesce", "C01", "_context.py", "C01.R6", "root task group entered outside coalesce_exceptions",
  ('''                    await exit_stack.enter_async_context(coalesce_exceptions())
                    self._task_group = await exit_stack.enter_async_context(
                        create_task_group()
                    )
''', '''                    self._task_group = await exit_stack.enter_async_context(
                        create_task_group()
                    )
                    await exit_stack.enter_async_context(coalesce_exceptions())
'''))
T("c01-twin-while-true-break", "C01", "_context.py", "while True / if not stack: break",
  ("        while self._teardown_callbacks:\n            callback, pass_exception = self._teardown_callbacks.pop()\n",
   "        while True:\n            if not self._teardown_callbacks:\n                break\n\n            callback, pass_exception = self._teardown_callbacks.pop()\n"))
T("c01-twin-pop-minus-one", "C01", "_context.py", "explicit pop(-1)",
  ("self._teardown_callbacks.pop()\n", "self._teardown_callbacks.pop(-1)\n"))
T("c01-twin-rename", "C01", "_context.py", "rename locals of the runner",
  ("original_exception", "block_exception"), count=None)

# =============================================================================== C02
M("c02-alias-factories", "C02", "_context.py", "C02.R1", "child shares the parent's factory table",
  ("            self._resource_factories = self._parent._resource_factories.copy()\n", "            self._resource_factories = self._parent._resource_factories\n"))
M("c02-write-parent", "C02", "_context.py", "C02.R2", "add_resource also publishes into the parent",
  ('''        for type_ in types_:
            self._resources[(type_, name)] = container
''', '''        for type_ in types_:
            self._resources[(type_, name)] = container
            if self._parent is not None:
                self._parent._resources.setdefault((type_, name), container)
'''))
M("c02-lookup-walks-up", "C02", "_context.py", "C02.R3", "get_resources also looks into the parent at lookup time",
  ('''        return {
            container.name: container.value
            for container in self._resources.values()
            if type in container.types
        }
''', '''        found = {
            container.name: container.value
            for container in self._resources.values()
            if type in container.types
        }
        if self._parent is not None:
            for container in self._parent._resources.values():
                if type in container.types:
                    found.setdefault(container.name, container.value)

        return found
'''))
M("c02-shortcut-drops-name", "C02", "_context.py", "C02.R4", "module-level get_resource_nowait ignores the name",
  ("    return current_context().get_resource_nowait(type, name, optional=optional)\n", "    return current_context().get_resource_nowait(type, optional=optional)\n"))
M("c02-wrapper-drops-description", "C02", "_component.py", "C02.R4", "ComponentContext.add_resource_factory drops the description",
  ("            factory_callback, name, types=types, description=description\n        )\n        logger.debug(\n            \"%s added a resource factory (%s)\",", "            factory_callback, name, types=types\n        )\n        logger.debug(\n            \"%s added a resource factory (%s)\","))
M("c02-parent-current-first", "C02", "_context.py", "C02.R5", "the current context wins over the explicit parent",
  ("        self._parent = parent or _current_context.get(None)\n", "        self._parent = _current_context.get(None) or parent\n"))
M("c02-no-component-skip", "C02", "_context.py", "C02.R5", "component contexts are not skipped as parents",
  ('''            while isinstance(self._parent, ComponentContext):
                self._parent = self._parent._context

''', ""))
M("c02-inherit-generated", "C02", "_context.py", "C02.R6", "children inherit generated resources",
  ('''            self._resources = {
                key: res
                for key, res in self._parent._resources.items()
                if not res.is_generated
            }''', "            self._resources = self._parent._resources.copy()"))
T("c02-twin-init-helper", "C02", "_context.py", "table inheritance extracted into a helper called from __init__",
  ('''            self._resources = {
                key: res
                for key, res in self._parent._resources.items()
                if not res.is_generated
            }
            self._resource_factories = self._parent._resource_factories.copy()
            self._task_group = self._parent._task_group
        else:
            self._resources = {}
            self._resource_factories = {}
''', '''            self._inherit_tables(self._parent)
            self._task_group = self._parent._task_group
        else:
            self._resources = {}
            self._resource_factories = {}

    def _inherit_tables(self, parent: Context) -> None:
        self._resources = {
            key: res for key, res in parent._resources.items() if not res.is_generated
        }
        self._resource_factories = dict(parent._resource_factories)
'''))
T("c02-twin-dict-copy", "C02", "_context.py", "dict(...) instead of .copy()",
  ("self._parent._resource_factories.copy()", "dict(self._parent._resource_factories)"))

# =============================================================================== C12
M("c12-set-parent-on-exit", "C12", "_context.py", "C12.R2", "on exit the parent is installed instead of resetting the token",
  ("                exit_stack.callback(_current_context.reset, _reset_token)\n", "                exit_stack.callback(_current_context.set, self._parent)\n"))
M("c12-no-restore", "C12", "_context.py", "C12.R2", "the previous context is never restored",
  ("                exit_stack.callback(_current_context.reset, _reset_token)\n", ""))
M("c12-second-set-site", "C12", "_context.py", "C12.R1", "current_context() caches into the variable",
  ('''    ctx = _current_context.get()
    if ctx is None:
        raise NoCurrentContext
''', '''    ctx = _current_context.get()
    if ctx is None:
        raise NoCurrentContext

    _current_context.set(ctx)
'''))
M("c12-restore-before-teardown", "C12", "_context.py", "C12.R3", "variable restored before teardown callbacks run",
  ('''                _reset_token = _current_context.set(self)
                exit_stack.callback(_current_context.reset, _reset_token)

''', '''                _reset_token = _current_context.set(self)

'''),
  ("                exit_stack.push_async_exit(self._run_teardown_callbacks)\n", "                exit_stack.push_async_exit(self._run_teardown_callbacks)\n                exit_stack.callback(_current_context.reset, _reset_token)\n"))
M("c12-task-ctx-implicit-parent", "C12", "_concurrent.py", "C12.R5", "task contexts inherit from whoever is current at spawn",
  ("            async with Context(ctx):\n", "            async with Context():\n"))
M("c12-starter-no-ctx", "C12", "_component.py", "C12.R6", "component phases do not run inside the component context",
  ("    async with context:\n        # Call prepare() on the component itself", "    if True:\n        # Call prepare() on the component itself"))

# =============================================================================== C13
for _op, _old, _new in (
    ("add_resource", "        self._ensure_state(ContextState.open, ContextState.closing)\n        types_: tuple[type, ...]", "        self._ensure_state(ContextState.open)\n        types_: tuple[type, ...]"),
    ("add_resource_factory", "        self._ensure_state(ContextState.open)\n        if not resource_name_re.fullmatch(name):", "        self._ensure_state(ContextState.open, ContextState.closing)\n        if not resource_name_re.fullmatch(name):"),
    ("get_resource_nowait", "        self._ensure_state(ContextState.open, ContextState.closing)\n        key = (type, name)\n\n        # First check if there's already a matching resource in this context\n        resource = self._resources.get(key)", "        self._ensure_state(ContextState.open, ContextState.closing, ContextState.closed)\n        key = (type, name)\n\n        # First check if there's already a matching resource in this context\n        resource = self._resources.get(key)"),
    ("add_teardown_callback", "        self._ensure_state(ContextState.open, ContextState.closing)\n        if not callable(callback):", "        self._ensure_state(ContextState.open)\n        if not callable(callback):"),
    ("aenter", "        self._ensure_state(ContextState.inactive)\n", "        self._ensure_state(ContextState.inactive, ContextState.closed)\n"),
):
    M(f"c13-cell-{_op}", "C13", "_context.py", "C13.R1", f"guard of {_op} allows / rejects another state", (_old, _new))
M("c13-get-resource-unguarded", "C13", "_context.py", "C13.R1", "async get_resource has no guard",
  ("        self._ensure_state(ContextState.open, ContextState.closing)\n\n        # First check if there's already a matching resource in this context\n        key = (type, name)", "        # First check if there's already a matching resource in this context\n        key = (type, name)"))
M("c13-guard-after-effect", "C13", "_context.py", "C13.R1", "add_teardown_callback guards after appending",
  ('''        self._ensure_state(ContextState.open, ContextState.closing)
        if not callable(callback):
            raise TypeError("callback must be a callable")

        self._teardown_callbacks.append((callback, pass_exception))
''', '''        if not callable(callback):
            raise TypeError("callback must be a callable")

        self._teardown_callbacks.append((callback, pass_exception))
        self._ensure_state(ContextState.open, ContextState.closing)
'''))
M("c13-closed-only-closed", "C13", "_context.py", "C13.R3", "`closed` is false during teardown",
  ("        return self._state in (ContextState.closing, ContextState.closed)\n", "        return self._state is ContextState.closed\n"))
M("c13-no-rollback", "C13", "_context.py", "C13.R2", "failed entry leaves the context open",
  ("        except BaseException:\n            self._state = ContextState.inactive\n            raise\n", "        except BaseException:\n            raise\n"), control=False)
M("c13-child-check-dropped", "C13", "_context.py", "C13.R4", "still-open child contexts are ignored",
  ('''        if self._child_contexts:
            raise RuntimeError(
                f"Context stack corruption detected: context {id(self):x} still has "
                f"{len(self._child_contexts)} active child context(s)"
            )

''', ""))
M("c13-guard-returns-early", "C13", "_context.py", "C13.R1", "the guard lets the closing state through for everything",
  ("        if self._state in allowed_states:\n            return\n", "        if self._state in allowed_states or self._state is ContextState.closing:\n            return\n"))
T("c13-twin-closed-or", "C13", "_context.py", "closed written as a disjunction",
  ("        return self._state in (ContextState.closing, ContextState.closed)\n", "        return (\n            self._state is ContextState.closing or self._state is ContextState.closed\n        )\n"))

# =============================================================================== C18
M("c18-dispatch-before-insert", "C18", "_context.py", ["C18.R1", "C18.R2"], "event dispatched before the insertion",
  ('''        container = ResourceContainer(value, types_, name, description)
        for type_ in types_:
            self._resources[(type_, name)] = container

        # Notify listeners that a new resource has been made available
        self.resource_added.dispatch(ResourceEvent(types_, name, description, False))
''', '''        # Notify listeners that a new resource has been made available
        self.resource_added.dispatch(ResourceEvent(types_, name, description, False))
        container = ResourceContainer(value, types_, name, description)
        for type_ in types_:
            self._resources[(type_, name)] = container
'''))
M("c18-dispatch-per-type", "C18", "_context.py", "C18.R1", "one event per type",
  ('''        for type_ in types_:
            self._resources[(type_, name)] = container

        # Notify listeners that a new resource has been made available
        self.resource_added.dispatch(ResourceEvent(types_, name, description, False))
''', '''        for type_ in types_:
            self._resources[(type_, name)] = container
            self.resource_added.dispatch(ResourceEvent((type_,), name, description, False))
'''))
M("c18-dispatch-on-parent", "C18", "_context.py", "C18.R3", "factory registration announced on the parent",
  ('''        self.resource_added.dispatch(
            ResourceEvent(resource_types, name, description, True)
        )
''', '''        (self._parent or self).resource_added.dispatch(
            ResourceEvent(resource_types, name, description, True)
        )
'''))
M("c18-factory-flag", "C18", "_context.py", "C18.R4", "factory registration reported as a plain resource",
  ("            ResourceEvent(resource_types, name, description, True)\n", "            ResourceEvent(resource_types, name, description, False)\n"))
M("c18-generated-flag-true", "C18", "_context.py", ["C18.R4"], "generated resource reported as a factory",
  ("                ResourceEvent(factory.types, name, factory.description, False)\n", "                ResourceEvent(factory.types, name, factory.description, True)\n"), count=2)
M("c18-hit-dispatches", "C18", "_context.py", "C18.R2", "a plain hit dispatches an event again",
  ('''        resource = self._resources.get(key)
        if resource is not None:
            return cast(T_Resource, resource.value)
''', '''        resource = self._resources.get(key)
        if resource is not None:
            self.resource_added.dispatch(
                ResourceEvent(resource.types, name, resource.description, False)
            )
            return cast(T_Resource, resource.value)
'''))
M("c18-wrapper-dispatches", "C18", "_component.py", "C18.R5", "the component wrapper announces the resource a second time",
  ('''        logger.debug(
            "%s added a resource (%s)",''', '''        self.resource_added.dispatch(ResourceEvent((type(value),), name, description, False))
        logger.debug(
            "%s added a resource (%s)",'''),
  ("from ._context import (\n    Context,\n", "from ._context import (\n    Context,\n    ResourceEvent,\n"))
M("c18-event-types-single", "C18", "_context.py", "C18.R4", "event carries only the first type",
  ("        self.resource_added.dispatch(ResourceEvent(types_, name, description, False))\n", "        self.resource_added.dispatch(ResourceEvent(types_[:1], name, description, False))\n"))
