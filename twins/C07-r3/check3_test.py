"""
Behaviour check for refactoring 3 (private attribute ``_child_component_contexts``
renamed, the child-start loop iterating over ``values()`` and the combined
``async with a, b`` split into two nested blocks).

Exercises, through the public API only, how the children of a component are started
(concurrently, in a task group owned by the parent), how a failing child stops its
siblings, and how the child tree shows up in the timeout report.
"""

from __future__ import annotations

import logging
import sys
from typing import Any

import pytest
from anyio import Event, get_cancelled_exc_class, sleep, sleep_forever
from pytest import LogCaptureFixture

from asphalt.core import (
    Component,
    ComponentStartError,
    Context,
    add_resource,
    add_teardown_callback,
    get_resource,
    get_resource_nowait,
    start_component,
)

if sys.version_info < (3, 11):
    from exceptiongroup import ExceptionGroup

pytestmark = pytest.mark.anyio()

LOG: list[str] = []


@pytest.fixture(autouse=True)
def clear_log() -> None:
    LOG.clear()


class Boom(Exception):
    pass


class Staller(Component):
    """Registers a teardown callback, then stalls forever in the configured phase."""

    def __init__(self, label: str, phase: str = "start") -> None:
        self.label = label
        self.phase = phase

    async def _maybe_stall(self, phase: str) -> None:
        label = self.label
        LOG.append(f"register:{phase}:{label}")
        add_teardown_callback(lambda: LOG.append(f"teardown:{phase}:{label}"))
        if self.phase == phase:
            try:
                await sleep_forever()
            except get_cancelled_exc_class():
                LOG.append(f"cancelled:{phase}:{label}")
                raise

    async def prepare(self) -> None:
        await self._maybe_stall("prepare")

    async def start(self) -> None:
        await self._maybe_stall("start")
        LOG.append(f"started:{self.label}")


class Failer(Component):
    def __init__(self, label: str, delay: float = 0.05) -> None:
        self.label = label
        self.delay = delay

    async def start(self) -> None:
        label = self.label
        LOG.append(f"register:start:{label}")
        add_teardown_callback(lambda: LOG.append(f"teardown:start:{label}"))
        await sleep(self.delay)
        raise Boom(label)


class Container(Component):
    def __init__(self, label: str = "container") -> None:
        self.label = label

    async def prepare(self) -> None:
        label = self.label
        LOG.append(f"register:prepare:{label}")
        add_teardown_callback(lambda: LOG.append(f"teardown:prepare:{label}"))

    async def start(self) -> None:
        LOG.append(f"started:{self.label}")


def registrations() -> list[str]:
    return [e.split(":", 1)[1] for e in LOG if e.startswith("register:")]


def teardowns() -> list[str]:
    return [e.split(":", 1)[1] for e in LOG if e.startswith("teardown:")]


async def test_failing_child_stops_all_siblings() -> None:
    """Five siblings; the middle one fails while the others stall in either phase."""
    components: dict[str, Any] = {
        "s1": {"type": Staller, "label": "s1", "phase": "prepare"},
        "s2": {"type": Staller, "label": "s2", "phase": "start"},
        "bad": {"type": Failer, "label": "bad"},
        "s3": {"type": Staller, "label": "s3", "phase": "prepare"},
        "s4": {"type": Staller, "label": "s4", "phase": "start"},
    }
    async with Context():
        with pytest.raises(ComponentStartError) as exc_info:
            await start_component(Container, {"components": components})

        exc = exc_info.value
        assert (exc.phase, exc.path, exc.component_type) == ("starting", "bad", Failer)
        assert type(exc.__cause__) is Boom
        assert sorted(e for e in LOG if e.startswith("cancelled:")) == [
            "cancelled:prepare:s1",
            "cancelled:prepare:s3",
            "cancelled:start:s2",
            "cancelled:start:s4",
        ]
        assert not any(e.startswith("started:") for e in LOG)
        snapshot = list(LOG)
        await sleep(0.1)
        assert LOG == snapshot
        registered = registrations()
        assert len(registered) == 8
        assert teardowns() == []

    assert teardowns() == list(reversed(registered))


async def test_children_started_concurrently() -> None:
    """
    Every child is entered before any of them is allowed to finish, so they must all
    run concurrently (otherwise this would dead-lock and hit the timeout), and the
    parent's start() only runs once all of them are done.
    """
    order: list[str] = []
    release = Event()
    aliases = list("abcde")

    class Child(Component):
        def __init__(self, label: str) -> None:
            self.label = label

        async def start(self) -> None:
            order.append(self.label)
            if len(order) == len(aliases):
                release.set()
            else:
                await release.wait()

            order.append(f"{self.label} done")

    class Root(Container):
        async def start(self) -> None:
            order.append("root")

    components = {alias: {"type": Child, "label": alias} for alias in aliases}
    async with Context():
        await start_component(Root, {"components": components}, timeout=2)

    assert sorted(order[:5]) == aliases
    assert sorted(order[5:10]) == sorted(f"{x} done" for x in aliases)
    assert order[10:] == ["root"]


async def test_siblings_exchange_resources() -> None:
    class Consumer(Component):
        async def start(self) -> None:
            value = await get_resource(str, "provided")
            add_resource(value.upper(), "consumed")

    class Provider(Component):
        async def start(self) -> None:
            await sleep(0.05)
            add_resource("value", "provided")

    class Root(Container):
        async def start(self) -> None:
            LOG.append(get_resource_nowait(str, "consumed"))

    components = {"consumer": {"type": Consumer}, "provider": {"type": Provider}}
    async with Context():
        await start_component(Root, {"components": components}, timeout=2)
        assert LOG[-1] == "VALUE"


async def test_deeply_nested_failure() -> None:
    def level(label: str, inner: dict[str, Any]) -> dict[str, Any]:
        return {"type": Container, "label": label, "components": inner}

    config = {
        "label": "root",
        "components": {
            "l1": level(
                "l1",
                {
                    "l2": level("l2", {"bad": {"type": Failer, "label": "bad"}}),
                    "stall2": {"type": Staller, "label": "stall2"},
                },
            ),
            "stall1": {"type": Staller, "label": "stall1", "phase": "prepare"},
        },
    }
    async with Context():
        with pytest.raises(ComponentStartError) as exc_info:
            await start_component(Container, config, timeout=3)

        exc = exc_info.value
        assert exc.path == "l1.l2.bad"
        assert exc.phase == "starting"
        assert exc.component_type is Failer
        assert type(exc.__cause__) is Boom
        assert not any(e.startswith("started:") for e in LOG)
        assert "cancelled:start:stall2" in LOG
        assert "cancelled:prepare:stall1" in LOG
        snapshot = list(LOG)
        await sleep(0.1)
        assert LOG == snapshot
        registered = registrations()
        assert teardowns() == []

    assert teardowns() == list(reversed(registered))


async def test_two_children_failing_together() -> None:
    """
    Outside of the "exactly one failure" case: two simultaneous failures are reported
    together as an exception group, a single one never is.
    """

    class FailNow(Component):
        async def start(self) -> None:
            raise Boom("now")

    components = {"x": {"type": FailNow}, "y": {"type": FailNow}}
    async with Context():
        with pytest.raises(ExceptionGroup) as exc_info:
            await start_component(Container, {"components": components})

        def leaves(exc: BaseException) -> list[BaseException]:
            if isinstance(exc, ExceptionGroup):
                return [leaf for sub in exc.exceptions for leaf in leaves(sub)]

            return [exc]

        excs = leaves(exc_info.value)
        assert all(isinstance(e, ComponentStartError) for e in excs)
        assert sorted(e.path for e in excs) == ["x", "y"]  # type: ignore[attr-defined]
        assert all(type(e.__cause__) is Boom for e in excs)
        assert "started:container" not in LOG

    async with Context():
        with pytest.raises(ComponentStartError) as exc_info2:
            await start_component(
                Container, {"components": {"x": {"type": FailNow}}}, timeout=None
            )

        assert exc_info2.value.path == "x"


async def test_timeout_report_covers_the_child_tree(caplog: LogCaptureFixture) -> None:
    caplog.set_level(logging.ERROR, "asphalt.core")
    config = {
        "components": {
            "done": {"type": Container, "label": "done"},
            "mid": {
                "type": Container,
                "label": "mid",
                "components": {
                    "leaf": {"type": Staller, "label": "leaf", "phase": "start"},
                    "ok": {"type": Container, "label": "ok"},
                },
            },
            "prep": {"type": Staller, "label": "prep", "phase": "prepare"},
        }
    }
    async with Context():
        with pytest.raises(TimeoutError):
            await start_component(Container, config, timeout=0.1)

        assert "cancelled:start:leaf" in LOG
        assert "cancelled:prepare:prep" in LOG
        assert "started:done" in LOG and "started:ok" in LOG
        assert "started:mid" not in LOG and "started:container" not in LOG
        snapshot = list(LOG)
        await sleep(0.1)
        assert LOG == snapshot
        registered = registrations()

    assert teardowns() == list(reversed(registered))
    assert len(caplog.messages) == 1
    lines = caplog.messages[0].splitlines()
    assert "(root): starting children" in lines
    assert "  mid: starting children" in lines
    assert "    leaf: starting" in lines
    assert "  prep: preparing" in lines
    assert not any(line.strip().startswith(("done:", "ok:")) for line in lines)
    # Stack summaries of the two stalled coroutines are included
    assert any(line.startswith("mid.leaf (") for line in lines)
    assert any(line.startswith("prep (") for line in lines)


async def test_childless_component() -> None:
    async with Context():
        component = await start_component(Container, {"label": "solo"}, timeout=1)
        assert isinstance(component, Container)
        assert LOG == ["register:prepare:solo", "started:solo"]

    assert LOG[-1] == "teardown:prepare:solo"
