"""
Behaviour check for refactoring 2 (``start_component``: AsyncExitStack based optional
timeout watcher replaced by an early return plus a plain ``async with`` block).

Exercises, through the public API only, the timeout handling of ``start_component``:
with a timeout that strikes, with a timeout that does not strike, and with the timeout
disabled (``None`` / ``0``), both for successful and for failing startups.
"""

from __future__ import annotations

import logging
import sys
from typing import Any

import pytest
from anyio import (
    CancelScope,
    create_task_group,
    get_cancelled_exc_class,
    move_on_after,
    sleep,
    sleep_forever,
)
from pytest import LogCaptureFixture

from asphalt.core import (
    Component,
    ComponentStartError,
    Context,
    add_resource,
    get_resource_nowait,
    start_component,
)

if sys.version_info < (3, 11):
    from exceptiongroup import BaseExceptionGroup

pytestmark = pytest.mark.anyio()

LOG: list[str] = []


@pytest.fixture(autouse=True)
def clear_log() -> None:
    LOG.clear()


class Boom(Exception):
    pass


class Worker(Component):
    def __init__(
        self,
        label: str,
        prepare_delay: float | None = 0,
        start_delay: float | None = 0,
        fail: bool = False,
    ) -> None:
        self.label = label
        self.prepare_delay = prepare_delay
        self.start_delay = start_delay
        self.fail = fail

    async def _work(self, phase: str, delay: float | None) -> None:
        label = self.label
        LOG.append(f"{phase}:enter:{label}")
        LOG.append(f"register:{phase}:{label}")
        add_resource(
            f"{phase}-{label}",
            f"{phase}_{label}",
            teardown_callback=lambda: LOG.append(f"teardown:{phase}:{label}"),
        )
        try:
            if delay is None:
                await sleep_forever()
            else:
                await sleep(delay)
        except get_cancelled_exc_class():
            LOG.append(f"{phase}:cancelled:{label}")
            raise

        LOG.append(f"{phase}:exit:{label}")

    async def prepare(self) -> None:
        await self._work("prepare", self.prepare_delay)

    async def start(self) -> None:
        await self._work("start", self.start_delay)
        if self.fail:
            raise Boom(self.label)


def worker(label: str, children: dict[str, Any] | None = None, **kwargs: Any) -> Any:
    config: dict[str, Any] = {"label": label, **kwargs}
    if children:
        config["components"] = {
            alias: {"type": Worker, **child} for alias, child in children.items()
        }

    return config


def registrations() -> list[str]:
    return [e.split(":", 1)[1] for e in LOG if e.startswith("register:")]


def teardowns() -> list[str]:
    return [e.split(":", 1)[1] for e in LOG if e.startswith("teardown:")]


async def test_timeout_strikes(caplog: LogCaptureFixture) -> None:
    """
    root -> (fast, slow_prepare, stalled -> (deep)): the timeout strikes while
    components are in various phases.
    """
    caplog.set_level(logging.ERROR, "asphalt.core")
    config = worker(
        "root",
        {
            "fast": worker("fast"),
            "slowprep": worker("slowprep", prepare_delay=None),
            "stalled": worker("stalled", {"deep": worker("deep", start_delay=30)}),
        },
    )
    async with Context():
        with pytest.raises(TimeoutError, match="^timeout starting component tree$"):
            await start_component(Worker, config, timeout=0.1)

        assert "start:exit:fast" in LOG
        assert "prepare:cancelled:slowprep" in LOG
        assert "start:cancelled:deep" in LOG
        for label in ("slowprep", "stalled", "root"):
            assert f"start:enter:{label}" not in LOG

        # No startup work continues after the timeout
        snapshot = list(LOG)
        await sleep(0.2)
        assert LOG == snapshot
        assert teardowns() == []
        registered = registrations()
        assert get_resource_nowait(str, "start_fast") == "start-fast"
        assert get_resource_nowait(str, "prepare_deep") == "prepare-deep"

    assert teardowns() == list(reversed(registered))
    assert len(caplog.messages) == 1
    message = caplog.messages[0]
    assert message.startswith("Timeout waiting for the component tree to start")
    assert "(root): starting children" in message
    assert "  slowprep: preparing" in message
    assert "  stalled: starting children" in message
    assert "    deep: starting" in message
    assert "fast:" not in message


async def test_timeout_exception_is_not_wrapped_in_group() -> None:
    class Stalling(Component):
        async def start(self) -> None:
            await sleep_forever()

    async with Context():
        try:
            await start_component(Stalling, timeout=0.05)
        except BaseExceptionGroup:  # type: ignore[misc]
            pytest.fail("the TimeoutError must not be wrapped in an exception group")
        except TimeoutError as exc:
            assert exc.__cause__ is None
        else:
            pytest.fail("TimeoutError was not raised")


@pytest.mark.parametrize("timeout", [None, 0, 0.0, 0.5, 20])
async def test_timely_startup_unaffected(timeout: float | None) -> None:
    config = worker(
        "root",
        {"a": worker("a", start_delay=0.05), "b": worker("b", prepare_delay=0.02)},
        prepare_delay=0.02,
        start_delay=0.02,
    )
    async with Context():
        component = await start_component(Worker, config, timeout=timeout)
        assert isinstance(component, Worker) and component.label == "root"
        assert LOG[-1] == "start:exit:root"
        assert not any("cancelled" in entry for entry in LOG)
        snapshot = list(LOG)
        registered = registrations()
        assert len(registered) == 6

    assert LOG[: len(snapshot)] == snapshot
    assert teardowns() == list(reversed(registered))


async def test_watcher_gone_after_timely_startup(caplog: LogCaptureFixture) -> None:
    """The timeout must not strike after start_component() has returned."""
    caplog.set_level(logging.ERROR, "asphalt.core")
    async with Context():
        await start_component(Worker, worker("root", start_delay=0.02), timeout=0.1)
        await sleep(0.25)

    assert not caplog.messages


@pytest.mark.parametrize("timeout", [None, 0])
async def test_no_timeout_really_means_no_timeout(timeout: float | None) -> None:
    """Without a timeout, a slow startup can only be interrupted from the outside."""
    async with Context():
        with move_on_after(0.15) as scope:
            await start_component(
                Worker, worker("root", start_delay=None), timeout=timeout
            )

        assert scope.cancelled_caught
        assert LOG[-1] == "start:cancelled:root"
        registered = registrations()
        assert teardowns() == []

    assert teardowns() == list(reversed(registered))


@pytest.mark.parametrize("timeout", [None, 0, 5])
async def test_failure_with_and_without_timeout(timeout: float | None) -> None:
    config = worker(
        "root",
        {
            "bad": worker("bad", start_delay=0.05, fail=True),
            "stalled": worker("stalled", start_delay=None),
        },
    )
    async with Context():
        with pytest.raises(ComponentStartError) as exc_info:
            await start_component(Worker, config, timeout=timeout)

        exc = exc_info.value
        assert (exc.phase, exc.path, exc.component_type) == ("starting", "bad", Worker)
        assert type(exc.__cause__) is Boom
        assert "start:cancelled:stalled" in LOG
        assert "start:enter:root" not in LOG
        snapshot = list(LOG)
        await sleep(0.1)
        assert LOG == snapshot
        registered = registrations()

    assert teardowns() == list(reversed(registered))


@pytest.mark.parametrize("timeout", [None, 5])
async def test_creation_failure(timeout: float | None) -> None:
    class BadInit(Component):
        def __init__(self) -> None:
            raise Boom("init")

    class Root(Component):
        def __init__(self) -> None:
            self.add_component("sub", BadInit)

        async def prepare(self) -> None:
            LOG.append("prepare")

    async with Context():
        with pytest.raises(ComponentStartError) as exc_info:
            await start_component(Root, timeout=timeout)

        exc = exc_info.value
        assert (exc.phase, exc.path, exc.component_type) == ("creating", "sub", BadInit)
        assert type(exc.__cause__) is Boom
        await sleep(0.05)
        assert LOG == []


async def test_outer_cancellation_with_timeout() -> None:
    """Cancelling from the outside while the watcher is active stops everything."""
    async with Context():
        with CancelScope() as scope:
            config = worker("root", {"kid": worker("kid", start_delay=None)})

            async def cancel_soon() -> None:
                await sleep(0.05)
                scope.cancel()

            async with create_task_group() as tg:
                tg.start_soon(cancel_soon)
                await start_component(Worker, config, timeout=10)

        assert scope.cancelled_caught
        assert "start:cancelled:kid" in LOG
        assert "start:enter:root" not in LOG
        snapshot = list(LOG)
        await sleep(0.1)
        assert LOG == snapshot
