"""
Behaviour checks for refactoring 3 (``_ensure_state`` renamed to ``_require_state``
and flattened into guard clauses, teardown callbacks stored as NamedTuple entries in
the renamed ``_teardown_entries`` list and called with an argument tuple, local
aliases in ``__aenter__``, ``str.format`` + walrus in ``__aexit__``, identity tests
in ``closed``).

Only the public API is used.
"""

from __future__ import annotations

import sys
from collections.abc import AsyncGenerator
from itertools import count
from typing import Any, NoReturn

import pytest
from anyio import create_task_group, sleep
from anyio.lowlevel import checkpoint

from asphalt.core import (
    Component,
    Context,
    NoCurrentContext,
    add_resource,
    add_teardown_callback,
    context_teardown,
    current_context,
    get_resource_nowait,
    start_component,
)

if sys.version_info < (3, 11):
    from exceptiongroup import ExceptionGroup

pytestmark = pytest.mark.anyio()

unique_numbers = count(1)
MESSAGES = {
    "inactive": "this context has not been entered yet",
    "open": "this context has already been entered",
    "closing": "this context is being torn down",
    "closed": "this context has already been closed",
}


async def collect_state_errors(ctx: Context) -> dict[str, str | None]:
    """
    Try every state-checked operation on ``ctx`` and return the RuntimeError message
    (or ``None`` if the operation was let through) for each.
    """

    async def enter() -> None:
        await ctx.__aenter__()
        pytest.fail("entering must not succeed in this test")

    async def get_resource() -> None:
        await ctx.get_resource(float, "nonexistent", optional=True)

    operations: dict[str, Any] = {
        "add_teardown_callback": lambda: ctx.add_teardown_callback(int),
        "add_resource": lambda: ctx.add_resource(
            object(), f"resource{next(unique_numbers)}", types=[object]
        ),
        "add_resource_factory": lambda: ctx.add_resource_factory(
            lambda: 1.5, types=[float], name="generated"
        ),
        "get_resource_nowait": lambda: ctx.get_resource_nowait(
            float, "nonexistent", optional=True
        ),
        "get_resource": get_resource,
        "enter": enter,
    }
    results: dict[str, str | None] = {}
    for name, operation in operations.items():
        try:
            retval = operation()
            if retval is not None:
                await retval
        except RuntimeError as exc:
            assert type(exc) is RuntimeError
            results[name] = str(exc)
        else:
            results[name] = None

    return results


async def test_state_matrix() -> None:
    # The matrix for the three states in which entering is refused
    during_teardown: dict[str, str | None] = {}

    async def callback() -> None:
        during_teardown.update(await collect_state_errors(ctx))

    async with Context():
        ctx = Context()
        async with ctx:
            ctx.add_teardown_callback(callback)
            while_open = await collect_state_errors(ctx)

        after_close = await collect_state_errors(ctx)

    assert while_open == {
        "add_teardown_callback": None,
        "add_resource": None,
        "add_resource_factory": None,
        "get_resource_nowait": None,
        "get_resource": None,
        "enter": MESSAGES["open"],
    }
    assert during_teardown == {
        "add_teardown_callback": None,
        "add_resource": None,
        "add_resource_factory": MESSAGES["closing"],
        "get_resource_nowait": None,
        "get_resource": None,
        "enter": MESSAGES["closing"],
    }
    assert after_close == dict.fromkeys(while_open, MESSAGES["closed"])


async def test_inactive_state_matrix() -> None:
    ctx = Context()
    for operation in (
        lambda: ctx.add_teardown_callback(int),
        lambda: ctx.add_resource(1),
        lambda: ctx.add_resource_factory(lambda: 1, types=[int]),
        lambda: ctx.get_resource_nowait(int),
    ):
        with pytest.raises(RuntimeError) as exc_info:
            operation()

        assert str(exc_info.value) == MESSAGES["inactive"]

    with pytest.raises(RuntimeError) as exc_info:
        await ctx.get_resource(int)

    assert str(exc_info.value) == MESSAGES["inactive"]
    assert ctx.closed is False


async def test_closed_is_a_real_bool_in_every_state() -> None:
    observed: list[Any] = []
    ctx = Context()
    observed.append(ctx.closed)
    async with ctx:
        observed.append(ctx.closed)
        ctx.add_teardown_callback(lambda: observed.append(ctx.closed))

    observed.append(ctx.closed)
    assert observed == [False, False, True, True]
    assert all(type(value) is bool for value in observed)


async def test_teardown_entries_keep_their_own_pass_exception_flag() -> None:
    log: list[Any] = []

    def variadic(*args: Any) -> None:
        log.append(args)

    error = OSError("block")
    async with Context():
        with pytest.raises(OSError):
            async with Context() as ctx:
                # The same callable registered several times with different flags
                ctx.add_teardown_callback(variadic)
                ctx.add_teardown_callback(variadic, True)
                ctx.add_teardown_callback(variadic, pass_exception=False)
                ctx.add_teardown_callback(variadic, pass_exception=True)
                add_teardown_callback(variadic, True)
                raise error

    assert log == [(error,), (error,), (), (error,), ()]


async def test_wrong_arity_callbacks_become_teardown_errors() -> None:
    def needs_argument(exc: BaseException | None) -> None:
        pytest.fail("must not be callable without the argument")

    def takes_nothing() -> None:
        pytest.fail("must not be callable with an argument")

    ran: list[str] = []
    async with Context():
        with pytest.raises(ExceptionGroup) as exc_info:
            async with Context() as ctx:
                ctx.add_teardown_callback(lambda: ran.append("last"))
                ctx.add_teardown_callback(needs_argument)
                ctx.add_teardown_callback(takes_nothing, pass_exception=True)
                ctx.add_teardown_callback(lambda: ran.append("first"))

        group = exc_info.value
        assert group.message == "Exceptions were raised during context teardown"
        assert [type(exc) for exc in group.exceptions] == [TypeError, TypeError]
        assert "takes_nothing" in str(group.exceptions[0])
        assert "needs_argument" in str(group.exceptions[1])
        assert ran == ["first", "last"]

    with pytest.raises(TypeError, match="^callback must be a callable$"):
        async with Context() as ctx:
            ctx.add_teardown_callback("not callable")  # type: ignore[arg-type]


async def test_non_callable_is_not_registered() -> None:
    ran: list[int] = []
    async with Context() as ctx:
        ctx.add_teardown_callback(lambda: ran.append(1))
        for bad in (None, 1, "x", object()):
            with pytest.raises(TypeError, match="^callback must be a callable$"):
                ctx.add_teardown_callback(bad)  # type: ignore[arg-type]

        ctx.add_teardown_callback(lambda: ran.append(2))

    # Had any of the bad values been registered, teardown would have failed
    assert ran == [2, 1]


async def test_stack_corruption_counts_children() -> None:
    async with Context() as root:
        for child_count in (1, 3):
            outer = Context()
            children = []
            with pytest.raises(RuntimeError) as exc_info:
                async with outer:
                    for _ in range(child_count):
                        children.append(await Context(outer).__aenter__())

            assert str(exc_info.value) == (
                "Context stack corruption detected: context "
                + format(id(outer), "x")
                + f" still has {child_count} active child context(s)"
            )
            assert type(exc_info.value) is RuntimeError
            assert outer.closed is True
            assert all(child.parent is outer for child in children)
            assert not any(child.closed for child in children)

        # An orderly nest is fine
        async with Context() as first:
            async with Context() as second:
                assert second.parent is first

        assert first.parent is root

        # The corruption error replaces an error raised from the block
        with pytest.raises(RuntimeError, match="^Context stack corruption") as exc_info:
            async with Context():
                await Context().__aenter__()
                raise ZeroDivisionError

        assert isinstance(exc_info.value.__context__, ZeroDivisionError)


async def test_sibling_contexts_in_concurrent_tasks() -> None:
    log: list[str] = []

    async def worker(name: str, delay: float) -> None:
        async with Context() as ctx:
            assert ctx.parent is root
            assert current_context() is ctx
            add_resource(name, types=[str])
            ctx.add_teardown_callback(lambda: log.append(f"{name} teardown"))
            await sleep(delay)
            assert get_resource_nowait(str) == name
            assert current_context() is ctx

        assert ctx.closed is True

    async with Context() as root:
        async with create_task_group() as tg:
            tg.start_soon(worker, "slow", 0.1)
            tg.start_soon(worker, "fast", 0.02)

        assert log == ["fast teardown", "slow teardown"]
        assert current_context() is root
        assert root.get_resource_nowait(str, optional=True) is None

    # Both children detached themselves, so the root exited without complaint
    assert root.closed is True
    with pytest.raises(NoCurrentContext):
        current_context()


async def test_component_contexts_delegate_teardown_to_the_real_context() -> None:
    log: list[Any] = []

    class Child(Component):
        async def start(self) -> None:
            add_teardown_callback(lambda: log.append("child teardown"))

    class Root(Component):
        def __init__(self) -> None:
            self.add_component("child", Child)

        @context_teardown
        async def start(self) -> AsyncGenerator[None, BaseException | None]:
            log.append(("root started in", current_context().parent is None))
            add_teardown_callback(log.append, pass_exception=True)
            exc = yield
            log.append(("root teardown", exc))

    error = LookupError("block failed")
    with pytest.raises(LookupError):
        async with Context() as ctx:
            await start_component(Root)
            assert current_context() is ctx
            assert log == [("root started in", False)]
            raise error

    assert log == [
        ("root started in", False),
        ("root teardown", error),
        error,
        "child teardown",
    ]


async def test_teardown_failure_then_state() -> None:
    def fail() -> NoReturn:
        raise ValueError("fail")

    async with Context() as root:
        ctx = Context()
        with pytest.raises(ExceptionGroup):
            async with ctx:
                ctx.add_teardown_callback(fail)
                await checkpoint()

        assert ctx.closed is True
        with pytest.raises(RuntimeError) as exc_info:
            ctx.add_teardown_callback(fail)

        assert str(exc_info.value) == MESSAGES["closed"]
        assert current_context() is root
