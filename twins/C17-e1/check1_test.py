"""
Property C17 (merge_config is a pure, right-biased deep merge), checked through the
public API. Must pass on the unchanged source and with refactor1.diff applied.
"""

from __future__ import annotations

import copy
import random
from typing import Any

import pytest

from asphalt.core import merge_config


def reference_merge(original: Any, overrides: Any) -> dict[str, Any]:
    result = {}
    for key, value in (original or {}).items():
        result[key] = value

    for key, value in (overrides or {}).items():
        if key in result and isinstance(result[key], dict) and isinstance(value, dict):
            result[key] = reference_merge(result[key], value)
        else:
            result[key] = value

    return result


KEYS = ["a", "b", "c", "x.y", "x", "a.b.c", ""]
SCALARS: list[Any] = [None, 0, 1, "s", 2.5, True, False, (), "x.y"]


def random_value(rng: random.Random, depth: int) -> Any:
    roll = rng.random()
    if depth > 0 and roll < 0.45:
        return random_dict(rng, depth - 1)
    elif roll < 0.6:
        return [rng.choice(SCALARS) for _ in range(rng.randint(0, 3))]
    elif roll < 0.65:
        return [{"k": rng.choice(SCALARS)}]
    else:
        return rng.choice(SCALARS)


def random_dict(rng: random.Random, depth: int) -> dict[str, Any]:
    return {
        key: random_value(rng, depth)
        for key in rng.sample(KEYS, rng.randint(0, len(KEYS)))
    }


@pytest.mark.parametrize("seed", range(300))
def test_random_pairs_match_reference_and_inputs_untouched(seed: int) -> None:
    rng = random.Random(seed)
    original = random_dict(rng, 3) if rng.random() > 0.08 else None
    overrides = random_dict(rng, 3) if rng.random() > 0.08 else None
    original_snapshot = copy.deepcopy(original)
    overrides_snapshot = copy.deepcopy(overrides)

    result = merge_config(original, overrides)

    assert type(result) is dict
    assert result == reference_merge(original_snapshot, overrides_snapshot)
    assert original == original_snapshot
    assert overrides == overrides_snapshot
    assert result is not original
    assert result is not overrides
    assert set(result) == set(original or {}) | set(overrides or {})


def test_explicit_collisions() -> None:
    original = {
        "dict_vs_scalar": {"a": 1},
        "scalar_vs_dict": 5,
        "both": {"keep": 1, "replace": 2, "deep": {"p": [1, 2], "q": None}},
        "list": [1, 2, 3],
        "none_vs_dict": None,
        "dict_vs_none": {"z": 1},
        "only_original": {"o": 1},
        "logging.handlers": {"console": 1},
        "empty_vs_full": {},
        "full_vs_empty": {"f": 1},
    }
    overrides = {
        "dict_vs_scalar": "scalar",
        "scalar_vs_dict": {"b": 2},
        "both": {"replace": 3, "new": 4, "deep": {"p": [3], "r": {}}},
        "list": [4],
        "none_vs_dict": {"n": 1},
        "dict_vs_none": None,
        "only_overrides": {"v": 1},
        "logging": {"handlers": {"file": 2}},
        "empty_vs_full": {"e": 1},
        "full_vs_empty": {},
    }
    original_snapshot = copy.deepcopy(original)
    overrides_snapshot = copy.deepcopy(overrides)

    assert merge_config(original, overrides) == {
        "dict_vs_scalar": "scalar",
        "scalar_vs_dict": {"b": 2},
        "both": {
            "keep": 1,
            "replace": 3,
            "new": 4,
            "deep": {"p": [3], "q": None, "r": {}},
        },
        "list": [4],
        "none_vs_dict": {"n": 1},
        "dict_vs_none": None,
        "only_original": {"o": 1},
        "only_overrides": {"v": 1},
        "logging.handlers": {"console": 1},
        "logging": {"handlers": {"file": 2}},
        "empty_vs_full": {"e": 1},
        "full_vs_empty": {"f": 1},
    }
    assert original == original_snapshot
    assert overrides == overrides_snapshot


@pytest.mark.parametrize(
    "original, overrides, expected",
    [
        (None, None, {}),
        ({}, None, {}),
        (None, {}, {}),
        ({}, {}, {}),
        (None, {"a": {"b": 1}}, {"a": {"b": 1}}),
        ({"a": {"b": 1}}, None, {"a": {"b": 1}}),
        ({"a": {"b": 1}}, {}, {"a": {"b": 1}}),
        ({}, {"a": {"b": 1}}, {"a": {"b": 1}}),
    ],
)
def test_none_behaves_like_empty(
    original: Any, overrides: Any, expected: dict[str, Any]
) -> None:
    result = merge_config(original, overrides)
    assert result == expected
    assert type(result) is dict
    assert result is not original
    assert result is not overrides


def test_result_is_new_at_every_merged_level() -> None:
    original = {"a": {"b": {"c": 1}}}
    overrides = {"a": {"b": {"d": 2}}}
    result = merge_config(original, overrides)
    assert result == {"a": {"b": {"c": 1, "d": 2}}}
    for source in (original, overrides):
        assert result is not source
        assert result["a"] is not source["a"]
        assert result["a"]["b"] is not source["a"]["b"]

    assert original == {"a": {"b": {"c": 1}}}
    assert overrides == {"a": {"b": {"d": 2}}}


def test_dotted_keys_are_ordinary() -> None:
    original = {"foo": {"bar": {"baz": 1}}, "foo.bar": 7}
    overrides = {"foo.bar.baz": 2, "foo.bar": {"baz": 3}}
    assert merge_config(original, overrides) == {
        "foo": {"bar": {"baz": 1}},
        "foo.bar": {"baz": 3},
        "foo.bar.baz": 2,
    }
    assert original == {"foo": {"bar": {"baz": 1}}, "foo.bar": 7}


def test_key_order_original_first_then_new_override_keys() -> None:
    original = {"b": 1, "a": {"z": 1, "y": 2}}
    overrides = {"c": 3, "a": {"x": 3, "z": 0}, "b": 2}
    result = merge_config(original, overrides)
    assert list(result) == ["b", "a", "c"]
    assert list(result["a"]) == ["z", "y", "x"]
