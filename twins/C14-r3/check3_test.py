"""
Behaviour check for refactoring 3 (control-flow / idiom changes in the child loop of
_init_component and in Component.add_component).

Exercises: child config validation (None / mapping / anything else), the copy that
keeps the caller's configuration untouched (also for non-dict mutable mappings),
type defaulting to the alias, ``/`` handling in both alias and explicit type
strings, and the add_component() bookkeeping (duplicates, bad aliases, late calls).
"""

from __future__ import annotations

import sys
from collections import OrderedDict, UserDict
from copy import deepcopy
from types import MappingProxyType
from typing import Any
from unittest.mock import Mock

import pytest
from pytest import MonkeyPatch

from asphalt.core import (
    Component,
    Context,
    add_resource,
    get_resources,
    start_component,
)
from asphalt.core._component import component_types

if sys.version_info >= (3, 10):
    from importlib.metadata import EntryPoint
else:
    from importlib_metadata import EntryPoint

pytestmark = pytest.mark.anyio()

CREATED: list[tuple[str, dict[str, Any]]] = []


class Leaf(Component):
    def __init__(self, **kwargs: Any) -> None:
        CREATED.append(("Leaf", kwargs))


class Pub(Component):
    def __init__(self, **kwargs: Any) -> None:
        CREATED.append(("Pub", kwargs))

    async def start(self) -> None:
        add_resource(len(CREATED), types=[int])


class Box(Component):
    def __init__(self, **kwargs: Any) -> None:
        CREATED.append(("Box", kwargs))
        self.add_component("leaf/boxed", marker="from-box", opts={"a": 1})


@pytest.fixture(autouse=True)
def setup(monkeypatch: MonkeyPatch) -> None:
    CREATED.clear()
    leaf_ep = Mock(EntryPoint)
    leaf_ep.load.configure_mock(return_value=Leaf)
    box_ep = Mock(EntryPoint)
    box_ep.load.configure_mock(return_value=Box)
    pub_ep = Mock(EntryPoint)
    pub_ep.load.configure_mock(return_value=Pub)
    monkeypatch.setattr(
        component_types,
        "_entrypoints",
        {"leaf": leaf_ep, "box": box_ep, "pub": pub_ep},
    )
    monkeypatch.setattr(component_types, "_resolved", {})


async def test_alias_and_type_slash_handling() -> None:
    config = {
        "components": {
            "pub": None,  # type from alias, resource name "default"
            "pub/one": {},  # type from alias prefix, resource name "one"
            "whatever/two": {"type": "pub"},  # explicit type wins, name "two"
            "three": {"type": "leaf/ignored"},  # suffix of explicit type dropped
            "box/four": {"type": "pub/x/y", "k": 1},  # only first part of type used
            "five": {"type": Leaf},  # non-string type left alone
        }
    }
    async with Context():
        await start_component(Component, config)
        assert sorted(get_resources(int)) == ["default", "four", "one", "two"]

    assert CREATED == [
        ("Pub", {}),
        ("Pub", {}),
        ("Pub", {}),
        ("Leaf", {}),
        ("Pub", {"k": 1}),
        ("Leaf", {}),
    ]


async def test_slash_in_explicit_type_does_not_rename_resources() -> None:
    # Components whose alias has no slash publish under "default" (hence a conflict
    # between two of them), irrespective of a slash in the explicit type
    from asphalt.core import ComponentStartError, ResourceConflict

    async with Context():
        with pytest.raises(ComponentStartError) as exc:
            await start_component(
                Component,
                {"components": {"a": {"type": "pub/zzz"}, "b": {"type": "pub"}}},
            )

    assert isinstance(exc.value.__cause__, ResourceConflict)


@pytest.mark.parametrize(
    "bad_value, type_name",
    [
        (5, "int"),
        ("text", "str"),
        ([("type", "leaf")], "list"),
        (False, "bool"),
        (0, "int"),
        ((), "tuple"),
        (MappingProxyType({"type": "leaf"}), "mappingproxy"),
    ],
)
async def test_invalid_child_config(bad_value: Any, type_name: str) -> None:
    async with Context():
        with pytest.raises(TypeError) as exc:
            await start_component(
                Component,
                {"components": {"leaf/ok": None, "box": {"components": {"x": bad_value}}}},
            )

    assert str(exc.value) == (
        "box.x: component configuration must be either None or a dict (or any "
        f"other mutable mapping type), not {type_name}"
    )
    # everything before the offending entry had already been created, in order
    assert CREATED == [
        ("Leaf", {}),
        ("Box", {}),
        ("Leaf", {"marker": "from-box", "opts": {"a": 1}}),
    ]


async def test_invalid_root_config() -> None:
    async with Context():
        with pytest.raises(TypeError, match="config must be a dict"):
            await start_component(Component, [])  # type: ignore[call-overload]

        with pytest.raises(TypeError, match="config must be a dict"):
            await start_component(
                Component,
                MappingProxyType({}),  # type: ignore[call-overload]
            )

        assert type(await start_component(Component, None)) is Component
        assert type(await start_component(Component, {})) is Component


async def test_mutable_mapping_configs_are_copied_not_modified() -> None:
    inner = UserDict({"marker": "override", "opts": {"b": 2}})
    boxcfg = OrderedDict(components={"leaf/boxed": inner}, flag=True)
    config = UserDict({"components": {"box/main": boxcfg, "leaf/x": UserDict()}})
    snapshot = deepcopy(config)
    for _ in range(2):
        CREATED.clear()
        async with Context():
            await start_component(Component, config)

        assert CREATED == [
            ("Box", {"flag": True}),
            # a non-dict mapping replaces the hard-coded child config wholesale (only
            # real dicts are deep-merged); the type then falls back to the alias
            ("Leaf", {"marker": "override", "opts": {"b": 2}}),
            ("Leaf", {}),
        ]
        assert config == snapshot
        assert config["components"]["box/main"] is boxcfg
        assert list(boxcfg) == ["components", "flag"]
        assert boxcfg["components"]["leaf/boxed"] is inner
        assert dict(inner) == {"marker": "override", "opts": {"b": 2}}
        assert dict(config["components"]["leaf/x"]) == {}


async def test_plain_dict_config_untouched_with_explicit_types() -> None:
    config = {
        "top": 1,
        "components": {
            "a/b": {"type": "leaf/zzz", "v": {"w": [1, 2]}},
            "box": {"components": {"leaf/boxed": {"opts": {"a": 9}}, "leaf": None}},
        },
    }
    snapshot = deepcopy(config)

    class Root(Component):
        def __init__(self, top: int) -> None:
            self.top = top
            self.add_component("box", extra="hard")

    async with Context():
        root = await start_component(Root, config)
        root2 = await start_component(Root, config)

    assert config == snapshot
    assert root.top == root2.top == 1  # type: ignore[attr-defined]
    expected = [
        ("Box", {"extra": "hard"}),
        ("Leaf", {"marker": "from-box", "opts": {"a": 9}}),
        ("Leaf", {}),
        ("Leaf", {"v": {"w": [1, 2]}}),
    ]
    assert CREATED == expected * 2


async def test_add_component_bookkeeping() -> None:
    class Root(Component):
        def __init__(self) -> None:
            self.errors: list[str] = []
            self.add_component("leaf", x=1)
            self.add_component("leaf/2", None, x=2)
            self.add_component("named", "leaf", x=3)
            for args in (("leaf",), ("leaf/2", Leaf), ("named",)):
                try:
                    self.add_component(*args)  # type: ignore[arg-type]
                except ValueError as exc:
                    self.errors.append(str(exc))

            for bad_alias in ("", None, 5, b"leaf"):
                try:
                    self.add_component(bad_alias)  # type: ignore[arg-type]
                except TypeError as exc:
                    self.errors.append(str(exc))

            self.add_component("cls", Leaf, x=4)

    # A fresh component without children has no per-instance child registry, and
    # instances do not share one
    first, second = Root.__new__(Root), Root.__new__(Root)
    Root.__init__(first)
    assert first.errors == [
        'there is already a child component named "leaf"',
        'there is already a child component named "leaf/2"',
        'there is already a child component named "named"',
    ] + ["alias must be a nonempty string"] * 4
    CREATED.clear()

    async with Context():
        root = await start_component(Root, {"components": {"named": {"x": 30}}})

    assert root.errors == first.errors
    assert CREATED == [
        ("Leaf", {"x": 1}),
        ("Leaf", {"x": 2}),
        ("Leaf", {"x": 30}),
        ("Leaf", {"x": 4}),
    ]
    with pytest.raises(RuntimeError, match="child components cannot be added once"):
        root.add_component("late", Leaf)

    # the un-started sibling instance is unaffected and can still take children
    second.errors = []
    second.add_component("fresh", Leaf)
    with pytest.raises(ValueError, match='named "fresh"'):
        second.add_component("fresh", Leaf)


async def test_failed_duplicate_does_not_clobber_existing_child() -> None:
    class Root(Component):
        def __init__(self) -> None:
            self.add_component("leaf", keep="me")
            with pytest.raises(ValueError):
                self.add_component("leaf", keep="not me")

    async with Context():
        await start_component(Root)

    assert CREATED == [("Leaf", {"keep": "me"})]
