"""Self-test campaign: breaking mutants must fire (and name the expected rule), silent twins
must not.  Variants are produced in memory from the *current* working tree and analysed
with the same rule code (nothing is written to disk, nothing is executed)."""
from __future__ import annotations

import os
import time
from concurrent.futures import ProcessPoolExecutor

from sa.driver import analyse_variant, repo_root
from sa.loader import Project
from sa.report import VIOLATION

from . import ops

QUICK_CONTROLS_PER_PROP = 4


def seeded_mutants(prop: str) -> list:
    """Independent sub-agents' changes kept under /verif/seeded/<id>/ (patch.diff + meta.json)."""
    import glob
    import json

    here = os.path.dirname(os.path.dirname(os.path.abspath(__file__)))
    out = []
    for meta_path in sorted(glob.glob(os.path.join(here, "seeded", "*", "meta.json"))):
        with open(meta_path) as fh:
            meta = json.load(fh)
        if meta.get("breaks_property") != prop:
            continue
        with open(os.path.join(os.path.dirname(meta_path), "patch.diff")) as fh:
            diff = fh.read()
        out.append({"id": "seed-" + meta["id"], "prop": prop, "file": "", "rules": [prop], "what": "seeded by an independent sub-agent", "diff": diff, "kind": "break", "control": False, "expect_detected": meta.get("expect_detected", True)})
    return out


def kept_twins(prop: str) -> list:
    """Behaviour-preserving refactorings by independent sub-agents (/verif/twins/<id>/patch.diff):
    every property's check must stay silent on each of them."""
    import glob

    here = os.path.dirname(os.path.dirname(os.path.abspath(__file__)))
    out = []
    for d in sorted(glob.glob(os.path.join(here, "twins", "*", "patch.diff"))):
        tid = os.path.basename(os.path.dirname(d))
        with open(d) as fh:
            diff = fh.read()
        out.append({"id": f"twin-{tid}", "prop": prop, "file": "", "rules": [], "what": "behaviour-preserving refactoring by an independent sub-agent", "diff": diff, "kind": "twin"})
    return out


def mechanical_twins(prop: str) -> list:
    from . import autotwins

    return [{"id": name, "prop": prop, "file": "", "rules": [], "what": "mechanically generated behaviour-preserving variant of the whole package", "gen": name, "kind": "twin"} for name in autotwins.GENERATORS]


def _apply(project_sources: dict, m: dict):
    if "gen" in m:
        from . import autotwins

        return autotwins.GENERATORS[m["gen"]](dict(project_sources))
    if "diff" in m:
        from .udiff import apply_unified

        return apply_unified(project_sources, m["diff"])
    if m.get("base"):
        from .udiff import apply_unified

        here = os.path.dirname(os.path.dirname(os.path.abspath(__file__)))
        bp = os.path.join(here, "twins", m["base"], "patch.diff")
        if not os.path.exists(bp):
            return None
        based = apply_unified(project_sources, open(bp).read())
        if based is None:
            return None
        project_sources = {**project_sources, **based}
        base_ov = dict(based)
    else:
        base_ov = {}
    rel = os.path.join(Project.PKG_DIR, m["file"])
    src = project_sources.get(rel)
    if src is None:
        return None
    out = src
    for old, new in m["edits"]:
        want = m.get("count", 1)
        if (want is None and out.count(old) < 1) or (want is not None and out.count(old) != want):
            return None
        out = out.replace(old, new)
    return {**base_ov, rel: out}


def _run_one(args):
    prop, m, sources = args
    ov = _apply(sources, m)
    if ov is None:
        return (m["id"], "n/a", [], "")
    try:
        for _rel, _src in ov.items():
            compile(_src, _rel, "exec")
    except SyntaxError as e:
        return (m["id"], "n/a", [], f"variant does not compile: {e}")
    verdict, rep = analyse_variant(prop, ov, inherited_known=(m.get("kind") == "twin"))
    if isinstance(rep, str):
        return (m["id"], verdict, [], rep)
    rules = sorted({i.rule for i in rep.instances if i.verdict == VIOLATION})
    detail = "; ".join(f"{i.rule}@{i.site}" for i in rep.instances if i.verdict != "HOLDS")[:400]
    return (m["id"], verdict, rules, detail)


def run_for_check(prop: str, project: Project, tier: str):
    """Positive controls (quick: a few breaking mutants per property; thorough: all mutants + twins)."""
    sources = {m.relpath: m.src for m in project.modules.values()}
    muts = [m for m in ops.MUTANTS if m["prop"] == prop]
    seeds = seeded_mutants(prop)
    breaking = [m for m in muts if m["kind"] == "break"]
    twins = [m for m in muts if m["kind"] == "twin"]
    if tier != "thorough":
        # positive controls: one per rule from the catalogue, then the seeded changes
        seen, chosen = set(), []
        for m in breaking:
            r = m["rules"][0]
            if r not in seen and m.get("control", True):
                seen.add(r)
                chosen.append(m)
        breaking = (chosen[: QUICK_CONTROLS_PER_PROP - 1] + [s for s in seeds if s.get("expect_detected", True)])[:QUICK_CONTROLS_PER_PROP]
        twins = []
    else:
        breaking = breaking + seeds
        twins = twins + kept_twins(prop) + mechanical_twins(prop)
    t0 = time.time()
    jobs = [(prop, m, sources) for m in breaking + twins]
    results = {}
    if tier == "thorough" and len(jobs) > 4:
        with ProcessPoolExecutor(max_workers=min(16, len(jobs))) as ex:
            for r in ex.map(_run_one, jobs):
                results[r[0]] = r
    else:
        for j in jobs:
            r = _run_one(j)
            results[r[0]] = r
    controls = []
    table = []
    for m in breaking:
        _, verdict, rules, detail = results[m["id"]]
        fired = verdict == "violation" and any(r in rules or r2.startswith(r + ".") for r in m["rules"] for r2 in rules)
        if not m.get("expect_detected", True):
            table.append({"id": m["id"], "kind": "break", "expect": "documented miss", "verdict": verdict, "rules_fired": rules, "ok": True, "what": m["what"]})
            continue
        table.append({"id": m["id"], "kind": "break", "expect": m["rules"], "verdict": verdict, "rules_fired": rules, "ok": fired or verdict == "n/a", "what": m["what"]})
        if verdict == "n/a":
            continue  # operator does not apply to this (edited) tree: informational
        controls.append({"rule": m["rules"][0], "mutant": m["id"], "fired": fired, "verdict": verdict, "rules_fired": rules})
    twin_alarms = 0
    for m in twins:
        _, verdict, rules, detail = results[m["id"]]
        ok = verdict in ("holds", "n/a")
        if verdict == "violation":
            twin_alarms += 1
        table.append({"id": m["id"], "kind": "twin", "verdict": verdict, "rules_fired": rules, "ok": ok, "what": m["what"], "detail": detail})
        if verdict != "n/a":
            controls.append({"rule": f"twin:{m['id']}", "mutant": m["id"], "fired": ok, "verdict": verdict, "rules_fired": rules})
    extra = {
        "selftest": {
            "mutants_run": len([t for t in table if t["kind"] == "break" and t["verdict"] != "n/a"]),
            "mutants_detected": len([t for t in table if t["kind"] == "break" and t["verdict"] == "violation" and t["ok"]]),
            "twins_run": len([t for t in table if t["kind"] == "twin" and t["verdict"] != "n/a"]),
            "twins_silent": len([t for t in table if t["kind"] == "twin" and t["verdict"] == "holds"]),
            "not_applicable": len([t for t in table if t["verdict"] == "n/a"]),
            "wall_s": round(time.time() - t0, 2),
            "table": table,
        }
    }
    return controls, extra


def main(argv: list) -> int:
    """./check selftest [ID...] : run the whole catalogue and print a table."""
    project = Project(repo_root())
    from sa.driver import PROPS

    props = [a.upper() for a in argv] or list(PROPS)
    bad = 0
    for prop in props:
        controls, extra = run_for_check(prop, project, "thorough")
        st = extra["selftest"]
        print(f"{prop}: mutants {st['mutants_detected']}/{st['mutants_run']} detected, twins {st['twins_silent']}/{st['twins_run']} silent, n/a {st['not_applicable']} ({st['wall_s']}s)")
        for t in st["table"]:
            if not t["ok"]:
                bad += 1
                print(f"   FAIL {t['kind']} {t['id']}: verdict={t['verdict']} fired={t['rules_fired']} expected={t.get('expect')} {t.get('detail', '')}")
            elif t["verdict"] == "n/a":
                print(f"   n/a  {t['id']}")
    return 1 if bad else 0
