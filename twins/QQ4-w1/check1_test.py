"""
Behaviour checks for refactoring 1 (small clean-ups in ``_init_component``, the startup
timeout report and ``ComponentStartError.__str__``).
"""

from __future__ import annotations

import logging
import re

import pytest
from anyio import sleep
from pytest import LogCaptureFixture

from asphalt.core import (
    Component,
    ComponentStartError,
    Context,
    NoCurrentContext,
    ResourceNotFound,
    UnboundSignal,
    add_resource,
    current_context,
    get_resource,
    get_resource_nowait,
    start_component,
)

pytestmark = pytest.mark.anyio()


class Publisher(Component):
    """Publishes a string resource from start() under the default name."""

    def __init__(self, value: str = "x") -> None:
        self.value = value

    async def start(self) -> None:
        add_resource(self.value)


class Staller(Component):
    async def start(self) -> None:
        await get_resource(float)


class PrepareStaller(Component):
    async def prepare(self) -> None:
        await sleep(10)


class Quick(Component):
    async def start(self) -> None:
        pass


async def test_alias_slash_sets_default_resource_name_and_type() -> None:
    me = f"{__name__}:Publisher"
    config = {
        "components": {
            # type derived from the alias, resource name from the part after the slash
            f"{me}/first": {"value": "1"},
            # explicit type with a slash: the part after the slash is dropped
            "other/second": {"type": f"{me}/ignored/too", "value": "2"},
            # no slash anywhere: resource published as "default"
            "plain": {"type": Publisher, "value": "3"},
        }
    }
    async with Context():
        await start_component(Component, config)
        assert get_resource_nowait(str, "first") == "1"
        assert get_resource_nowait(str, "second") == "2"
        assert get_resource_nowait(str) == "3"


async def test_alias_with_two_slashes_is_split_once() -> None:
    # Only the first slash of the alias separates the resource name, so the default
    # resource name becomes "b/c" which the context then rejects
    config = {"components": {"a/b/c": {"type": Publisher}}}
    async with Context():
        with pytest.raises(ComponentStartError) as exc_info:
            await start_component(Component, config)

    assert exc_info.value.path == "a/b/c"
    assert exc_info.value.phase == "starting"
    assert isinstance(exc_info.value.__cause__, ValueError)
    assert str(exc_info.value).startswith(
        f"error starting component 'a/b/c' ({__name__}.Publisher): ValueError: "
    )


async def test_non_string_type_with_slash_alias() -> None:
    config = {"components": {"foo/bar": {"type": Publisher, "value": "v"}}}
    async with Context():
        await start_component(Component, config)
        assert get_resource_nowait(str, "bar") == "v"
        assert get_resource_nowait(str, optional=True) is None


async def test_timeout_report(caplog: LogCaptureFixture) -> None:
    class Root(Component):
        def __init__(self) -> None:
            self.add_component("quick", Quick)
            self.add_component("stall", Staller)
            self.add_component("prep", PrepareStaller)

    caplog.set_level(logging.ERROR, "asphalt.core")
    async with Context():
        with pytest.raises(TimeoutError, match="^timeout starting component tree$"):
            await start_component(Root, timeout=0.1)

    assert len(caplog.records) == 1
    record = caplog.records[0]
    assert record.msg == "%s"
    assert record.levelno == logging.ERROR
    sections = caplog.messages[0].split("\n\n")
    title1 = "Current status of the components still waiting to finish startup"
    title2 = "Stack summaries of components still waiting to start"
    assert sections[0] == "Timeout waiting for the component tree to start"
    assert sections[1] == f"{title1}\n{'-' * len(title1)}"
    assert sections[2] == (
        "(root): starting children\n  stall: starting\n  prep: preparing"
    )
    assert sections[3] == f"{title2}\n{'-' * len(title2)}"
    assert len(sections) == 6
    assert re.match(rf"stall \({__name__}\.Staller\):\n  File \"", sections[4])
    assert re.match(rf"prep \({__name__}\.PrepareStaller\):\n  File \"", sections[5])
    assert not sections[5].endswith("\n")


async def test_timeout_report_root_only(caplog: LogCaptureFixture) -> None:
    caplog.set_level(logging.ERROR, "asphalt.core")
    async with Context():
        with pytest.raises(TimeoutError):
            await start_component(PrepareStaller, timeout=0.05)

    sections = caplog.messages[0].split("\n\n")
    assert sections[2] == "(root): preparing"
    assert sections[4].startswith(f" ({__name__}.PrepareStaller):\n  File ")
    assert len(sections) == 5


async def test_component_start_error_str_variants() -> None:
    class Silent(Component):
        async def start(self) -> None:
            raise ValueError

    class Loud(Component):
        async def prepare(self) -> None:
            raise LookupError("what", 2)

    async with Context():
        with pytest.raises(ComponentStartError) as exc_info:
            await start_component(Component, {"components": {"a": {"type": Silent}}})

    exc = exc_info.value
    assert str(exc) == (
        f"error starting component 'a' ({__name__}."
        f"test_component_start_error_str_variants.<locals>.Silent): ValueError"
    )
    assert (exc.phase, exc.path, exc.component_type) == ("starting", "a", Silent)
    assert exc.args == ("starting", "a", Silent)

    async with Context():
        with pytest.raises(ComponentStartError) as exc_info:
            await start_component(Loud)

    assert str(exc_info.value) == (
        f"error preparing the root component ({__name__}."
        f"test_component_start_error_str_variants.<locals>.Loud): "
        f"LookupError: ('what', 2)"
    )

    # Without a cause
    orphan = ComponentStartError("creating", "x.y", Component)
    assert str(orphan) == (
        "error creating component 'x.y' (asphalt.core.Component): NoneType: None"
    )


def test_other_exceptions() -> None:
    with pytest.raises(NoCurrentContext, match="^there is no active context$"):
        current_context()

    assert NoCurrentContext().args == ("there is no active context",)
    assert str(UnboundSignal()) == (
        "attempted to use a signal that is not bound to an instance"
    )
    exc = ResourceNotFound(int, "foo")
    assert isinstance(exc, LookupError)
    assert exc.args == (int, "foo")
    assert str(exc) == "no matching resource was found for type=int name='foo'"
