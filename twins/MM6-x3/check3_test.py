"""
Behaviour checks for refactoring 3 (renamed private methods / locals, private methods
moved below the public ones). Only the public API is used.
"""

from __future__ import annotations

import warnings
from contextlib import AbstractAsyncContextManager
from datetime import datetime, timezone
from typing import Any

import pytest
from anyio import (
    create_task_group,
    fail_after,
    get_cancelled_exc_class,
    move_on_after,
    sleep,
)
from anyio.abc import TaskStatus
from anyio.lowlevel import checkpoint

from asphalt.core import (
    Event,
    Signal,
    SignalQueueFull,
    UnboundSignal,
    stream_events,
    wait_event,
)

pytestmark = pytest.mark.anyio()


class PingEvent(Event):
    def __init__(self, payload: Any = None) -> None:
        self.payload = payload


class PongEvent(PingEvent):
    pass


class Source:
    ping = Signal(PingEvent)
    pong = Signal(PongEvent)


def assert_no_subscribers(*signals: Signal[Any]) -> None:
    """
    Dispatch more events than any queue used in this module could hold and require
    that no "queue full" warning is produced.
    """
    with warnings.catch_warnings():
        warnings.simplefilter("error")
        for signal in signals:
            for _ in range(60):
                signal.dispatch(signal.event_class())


def test_event_helpers() -> None:
    event = Event()
    event.time = 86400.5
    assert event.utc_timestamp == datetime(1970, 1, 2, 0, 0, 0, 500000, timezone.utc)
    event.source = None
    event.topic = "t"
    assert repr(event) == "Event(source=None, topic='t')"
    with pytest.raises(AttributeError):
        event.other = 1  # type: ignore[attr-defined]


def test_signal_value_semantics() -> None:
    one, two = Source(), Source()
    assert one.ping == one.ping
    assert one.ping != two.ping
    assert one.ping != one.pong
    assert repr(one.ping).startswith("Signal(event_class=")
    assert Signal(PingEvent).event_class is PingEvent
    with pytest.raises(TypeError):
        Signal()  # type: ignore[call-arg]


def test_method_shortcuts_return_expected_objects() -> None:
    source = Source()
    cm = source.ping.stream_events()
    assert isinstance(cm, AbstractAsyncContextManager)
    # Nothing is subscribed before the context manager is entered
    assert_no_subscribers(source.ping)
    coro = source.ping.wait_event()
    coro.close()
    assert_no_subscribers(source.ping)


async def test_multi_signal_stream_interleaving() -> None:
    one, two = Source(), Source()
    async with stream_events([one.ping, one.pong, two.ping]) as stream:
        one.ping.dispatch(PingEvent(1))
        two.ping.dispatch(PingEvent(2))
        one.pong.dispatch(PongEvent(3))
        two.pong.dispatch(PongEvent(4))  # not subscribed
        one.ping.dispatch(PongEvent(5))  # subclass through the base signal
        with fail_after(1):
            events = [await stream.__anext__() for _ in range(4)]

        with move_on_after(0.05) as scope:
            await stream.__anext__()

        assert scope.cancelled_caught

    assert [e.payload for e in events] == [1, 2, 3, 5]
    assert [e.topic for e in events] == ["ping", "ping", "pong", "ping"]
    assert [e.source for e in events] == [one, two, one, one]
    assert_no_subscribers(one.ping, one.pong, two.ping, two.pong)


async def test_empty_signal_list() -> None:
    async with stream_events([]) as stream:
        with move_on_after(0.05) as scope:
            await stream.__anext__()

        assert scope.cancelled_caught

    with move_on_after(0.05) as scope:
        await wait_event([])

    assert scope.cancelled_caught


async def test_stream_finished_after_exit() -> None:
    source = Source()
    async with source.ping.stream_events() as stream:
        source.ping.dispatch(PingEvent("kept in queue"))

    with pytest.raises(StopAsyncIteration):
        await stream.__anext__()

    await stream.aclose()
    assert_no_subscribers(source.ping)


async def test_stream_closed_early_by_user() -> None:
    source = Source()
    async with source.ping.stream_events(max_queue_size=2) as stream:
        await stream.aclose()
        # Still subscribed until the block is left: the queue fills up
        source.ping.dispatch(PingEvent())
        source.ping.dispatch(PingEvent())
        with pytest.warns(SignalQueueFull, match=r"Queue full \(2\)"):
            source.ping.dispatch(PingEvent())

        with pytest.raises(StopAsyncIteration):
            await stream.__anext__()

    assert_no_subscribers(source.ping)


async def test_nested_streams_unsubscribe_independently() -> None:
    source = Source()
    async with source.ping.stream_events(max_queue_size=1) as outer:
        async with source.ping.stream_events(max_queue_size=1) as inner:
            source.ping.dispatch(PingEvent("both"))
            with fail_after(1):
                assert (await inner.__anext__()).payload == "both"

        with pytest.warns(SignalQueueFull):  # outer queue is still full
            source.ping.dispatch(PingEvent("dropped for outer"))

        with fail_after(1):
            assert (await outer.__anext__()).payload == "both"

        source.ping.dispatch(PingEvent("outer only"))
        with fail_after(1):
            assert (await outer.__anext__()).payload == "outer only"

        with pytest.raises(StopAsyncIteration):
            await inner.__anext__()

    assert_no_subscribers(source.ping)


async def test_unbound_in_the_middle() -> None:
    source = Source()
    with pytest.raises(UnboundSignal):
        await wait_event([source.ping, Source.pong, source.pong])

    with pytest.raises(UnboundSignal):
        async with stream_events([source.ping, Source.pong], max_queue_size=1):
            pass

    assert_no_subscribers(source.ping, source.pong)


async def test_consumer_task_cancelled_mid_iteration() -> None:
    source = Source()
    received: list[Any] = []
    cancelled: list[bool] = []

    async def consume(task_status: TaskStatus[None]) -> None:
        try:
            async with source.ping.stream_events(max_queue_size=3) as stream:
                task_status.started()
                async for event in stream:
                    received.append(event.payload)
        except get_cancelled_exc_class():
            cancelled.append(True)
            raise

    async with create_task_group() as tg:
        await tg.start(consume)
        source.ping.dispatch(PingEvent(1))
        source.ping.dispatch(PingEvent(2))
        await sleep(0.05)
        tg.cancel_scope.cancel()

    assert received == [1, 2]
    assert cancelled == [True]
    assert_no_subscribers(source.ping)


async def test_concurrent_waiters_each_get_their_event() -> None:
    source = Source()
    results: dict[str, Any] = {}

    async def wait_for(name: str, wanted: int) -> None:
        event = await wait_event(
            [source.ping, source.pong], lambda e: e.payload == wanted
        )
        results[name] = (event.topic, event.payload)

    async with create_task_group() as tg:
        tg.start_soon(wait_for, "a", 2)
        tg.start_soon(wait_for, "b", 3)
        tg.start_soon(wait_for, "c", 3)
        await checkpoint()
        await checkpoint()
        await checkpoint()
        with fail_after(1):
            source.ping.dispatch(PingEvent(1))
            source.pong.dispatch(PongEvent(3))
            source.ping.dispatch(PingEvent(2))

    assert results == {"a": ("ping", 2), "b": ("pong", 3), "c": ("pong", 3)}
    assert_no_subscribers(source.ping, source.pong)


async def test_wait_event_returns_first_matching_only() -> None:
    source = Source()
    seen: list[Any] = []

    def filter(event: PingEvent) -> bool:
        seen.append(event.payload)
        return event.payload >= 2

    async def dispatcher() -> None:
        for i in range(5):
            source.ping.dispatch(PingEvent(i))

    async with create_task_group() as tg:
        tg.start_soon(dispatcher)
        with fail_after(1):
            event = await source.ping.wait_event(filter)

    assert event.payload == 2
    assert seen == [0, 1, 2]


async def test_exception_in_block_reaches_caller_unchanged() -> None:
    source = Source()
    error = KeyError("boom")
    with pytest.raises(KeyError) as exc_info:
        async with stream_events([source.ping, source.pong]):
            raise error

    assert exc_info.value is error
    assert_no_subscribers(source.ping, source.pong)
