"""
Property C03 checks, focused on the conflict paths and on factory-generated resources
meeting static resources on the same (type, name) pair.

Must pass both on the unchanged source and with refactor1.diff applied.
"""

from __future__ import annotations

from contextlib import asynccontextmanager
from itertools import count
from typing import Any, AsyncIterator

import pytest

from asphalt.core import Context, ResourceConflict, ResourceEvent

pytestmark = pytest.mark.anyio


@pytest.fixture
def anyio_backend() -> str:
    return "asyncio"


_sentinel_counter = count()


class Recorder:
    """Records the resource_added events of a context up to a sentinel add."""

    def __init__(self, ctx: Context, stream: AsyncIterator[ResourceEvent]) -> None:
        self.ctx = ctx
        self.stream = stream

    async def events(self) -> list[tuple[tuple[Any, ...], str, bool]]:
        # Add a sentinel so that we know when to stop reading
        sentinel = f"zz_sentinel_{next(_sentinel_counter)}"
        self.ctx.add_resource(object(), sentinel, [Recorder])
        collected = []
        async for event in self.stream:
            if event.resource_name == sentinel:
                break

            collected.append(
                (event.resource_types, event.resource_name, event.is_factory)
            )

        return collected


@asynccontextmanager
async def recording(ctx: Context) -> AsyncIterator[Recorder]:
    async with ctx.resource_added.stream_events() as stream:
        yield Recorder(ctx, stream)


async def test_conflict_on_last_of_several_types_changes_nothing() -> None:
    torn_down: list[str] = []
    async with Context() as ctx:
        ctx.add_resource(5, "a", [int], description="the original")
        async with recording(ctx) as rec:
            with pytest.raises(ResourceConflict, match="already contains a resource"):
                ctx.add_resource(
                    "value",
                    "a",
                    [str, float, int],
                    teardown_callback=lambda: torn_down.append("bad"),
                )

            assert await rec.events() == []

        assert ctx.get_resource_nowait(str, "a", optional=True) is None
        assert ctx.get_resource_nowait(float, "a", optional=True) is None
        assert await ctx.get_resource(str, "a", optional=True) is None
        assert ctx.get_resource_nowait(int, "a") == 5
        assert ctx.get_resources(str) == {}
        assert ctx.get_resources(float) == {}
        assert ctx.get_resources(int) == {"a": 5}

    assert torn_down == []


async def test_conflict_on_first_and_middle_type() -> None:
    async with Context() as ctx:
        first = object()
        ctx.add_resource(first, "n", [bytes, int])
        for types in ([int, str, float], [str, bytes, float], [float, str, int]):
            async with recording(ctx) as rec:
                with pytest.raises(ResourceConflict):
                    ctx.add_resource(object(), "n", types)

                assert await rec.events() == []

            assert ctx.get_resource_nowait(str, "n", optional=True) is None
            assert ctx.get_resource_nowait(float, "n", optional=True) is None
            assert ctx.get_resource_nowait(int, "n") is first
            assert ctx.get_resource_nowait(bytes, "n") is first

        # A different name is a different pair
        other = object()
        ctx.add_resource(other, "m", [int, str])
        assert ctx.get_resource_nowait(int, "m") is other
        assert ctx.get_resource_nowait(int, "n") is first


@pytest.mark.parametrize("nowait", [True, False], ids=["nowait", "async"])
async def test_static_add_conflicts_with_generated_resource(nowait: bool) -> None:
    calls: list[int] = []

    class Thing:
        pass

    def factory() -> Thing:
        calls.append(1)
        return Thing()

    torn_down: list[str] = []
    async with Context() as ctx:
        ctx.add_resource_factory(factory, types=[Thing], description="makes things")
        if nowait:
            generated = ctx.get_resource_nowait(Thing)
        else:
            generated = await ctx.get_resource(Thing)

        async with recording(ctx) as rec:
            with pytest.raises(ResourceConflict):
                ctx.add_resource(
                    Thing(), teardown_callback=lambda: torn_down.append("x")
                )

            assert await rec.events() == []

        assert ctx.get_resource_nowait(Thing) is generated
        assert await ctx.get_resource(Thing) is generated
        assert ctx.get_resources(Thing) == {"default": generated}
        assert calls == [1]

    assert torn_down == []


@pytest.mark.parametrize("nowait", [True, False], ids=["nowait", "async"])
async def test_generated_resource_does_not_replace_static_one(nowait: bool) -> None:
    """A factory for (int, str) meets a static str resource of the same name."""
    calls: list[int] = []

    def factory() -> int:
        calls.append(1)
        return 1000 + len(calls)

    async with Context() as ctx:
        ctx.add_resource("static", "x", [str])
        assert ctx.get_resource_nowait(str, "x") == "static"
        ctx.add_resource_factory(factory, "x", types=[int, str, float])

        async def lookup(type_: type) -> Any:
            if nowait:
                return ctx.get_resource_nowait(type_, "x")

            return await ctx.get_resource(type_, "x")

        generated = await lookup(int)
        assert generated == 1001
        for _ in range(3):
            assert await lookup(str) == "static"
            assert await lookup(int) is generated
            assert await lookup(float) is generated

        assert calls == [1]

        # The generated resource blocks static adds on its pairs, atomically
        with pytest.raises(ResourceConflict):
            ctx.add_resource(2.5, "x", [complex, float])

        assert ctx.get_resource_nowait(complex, "x", optional=True) is None
        assert await lookup(float) is generated


async def test_second_factory_for_taken_pair_changes_nothing() -> None:
    async with Context() as ctx:
        ctx.add_resource_factory(lambda: 1, "f", types=[int, str])
        async with recording(ctx) as rec:
            with pytest.raises(ResourceConflict, match="resource factory"):
                ctx.add_resource_factory(lambda: 2.0, "f", types=[float, bytes, str])

            with pytest.raises(ResourceConflict, match="resource factory"):
                ctx.add_resource_factory(lambda: 3, "f", types=int)

            assert await rec.events() == []

        assert ctx.get_resource_nowait(float, "f", optional=True) is None
        assert ctx.get_resource_nowait(bytes, "f", optional=True) is None
        assert await ctx.get_resource(float, "f", optional=True) is None
        assert ctx.get_resource_nowait(int, "f") == 1
        assert ctx.get_resource_nowait(str, "f") == 1

        # Same types under another name are fine
        ctx.add_resource_factory(lambda: 2.0, "g", types=[float, bytes, str])
        assert ctx.get_resource_nowait(bytes, "g") == 2.0


async def test_child_context_conflicts_and_stability() -> None:
    class Gen:
        pass

    async with Context() as parent:
        parent.add_resource(1, "shared", description="from parent")
        parent.add_resource_factory(Gen, types=[Gen])
        parent_gen = parent.get_resource_nowait(Gen)
        async with Context() as child:
            # Inherited static resource occupies the pair in the child too
            with pytest.raises(ResourceConflict):
                child.add_resource(2, "shared", [str, int])

            assert child.get_resource_nowait(str, "shared", optional=True) is None
            assert child.get_resource_nowait(int, "shared") == 1

            # Inherited factory occupies the factory slot in the child too
            with pytest.raises(ResourceConflict):
                child.add_resource_factory(Gen, types=[bytes, Gen])

            assert child.get_resource_nowait(bytes, optional=True) is None

            # Generated resources are per-context and stable
            child_gen = await child.get_resource(Gen)
            assert child_gen is not parent_gen
            assert child.get_resource_nowait(Gen) is child_gen
            assert await child.get_resource(Gen) is child_gen
            with pytest.raises(ResourceConflict):
                child.add_resource(Gen())

            assert child.get_resource_nowait(Gen) is child_gen

        assert parent.get_resource_nowait(Gen) is parent_gen
        assert parent.get_resource_nowait(int, "shared") == 1
