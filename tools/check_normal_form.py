#!/usr/bin/env python3
"""Validation of the normalisation / inlining pre-passes themselves: write the normal form of
the package (what the rules actually read) back as source into a scratch worktree (outside
/repo and /verif, removed afterwards) and run the repository's unedited test suite on it.  The
pre-passes claim to preserve behaviour; a test that passes on the source but fails on its
normal form would show a pre-pass that does not.  With --twins the same is done for the normal
form of every kept twin (many more code shapes go through the pre-passes that way).

This is a check of the tooling, not of a property: nothing registered in MANIFEST.json uses it.

usage: tools/check_normal_form.py [--twins] [ID-prefix ...]"""
import ast
import glob
import os
import shutil
import subprocess
import sys
import tempfile
from concurrent.futures import ThreadPoolExecutor

VERIF = os.path.dirname(os.path.dirname(os.path.abspath(__file__)))
sys.path.insert(0, VERIF)
from sa.driver import repo_root  # noqa: E402
from sa.loader import Project  # noqa: E402
from selftest.udiff import apply_unified  # noqa: E402

DESELECT = " ".join(f"--deselect tests/test_cli.py::{t}" for t in ("test_run_bad_override", "test_run_bad_path", "test_run_missing_root_component_config", "test_run_missing_root_component_type"))


def normal_form(overrides) -> dict:
    p = Project(repo_root(), overrides=overrides) if overrides else Project(repo_root())
    out = {}
    for m in p.modules.values():
        tree = m.tree
        ast.fix_missing_locations(tree)
        out[m.relpath] = ast.unparse(tree) + "\n"
    return out


def run_suite(name: str, sources: dict) -> tuple:
    tmp = tempfile.mkdtemp(prefix="normform-")
    try:
        subprocess.run(["git", "-C", repo_root(), "worktree", "add", "-q", "--detach", tmp + "/wt", "HEAD"], check=True)
        for rel, src in sources.items():
            compile(src, rel, "exec")
            open(os.path.join(tmp, "wt", rel), "w").write(src)
        r = subprocess.run(f"/venv/bin/python -m pytest -q -p no:cacheprovider --timeout=900 {DESELECT}", shell=True, cwd=tmp + "/wt", env={**os.environ, "PYTHONPATH": tmp + "/wt/src"}, capture_output=True, text=True)
        tail = r.stdout.strip().splitlines()[-1] if r.stdout.strip() else r.stderr[-300:]
        failed = [l for l in r.stdout.splitlines() if l.startswith(("FAILED", "ERROR"))]
        return name, r.returncode, tail, failed
    finally:
        subprocess.run(["git", "-C", repo_root(), "worktree", "remove", "--force", tmp + "/wt"], capture_output=True)
        shutil.rmtree(tmp, ignore_errors=True)


def main() -> None:
    args = [a for a in sys.argv[1:] if not a.startswith("--")]
    jobs = []
    if not args:
        jobs.append(("clean-tree", normal_form(None)))
    if "--twins" in sys.argv or args:
        base = Project(repo_root(), inline=False)
        sources = {m.relpath: m.src for m in base.modules.values()}
        for d in sorted(glob.glob(os.path.join(VERIF, "twins", "*", "patch.diff"))):
            tid = os.path.basename(os.path.dirname(d))
            if args and not any(tid.startswith(a) for a in args):
                continue
            ov = apply_unified(sources, open(d).read())
            if ov is None:
                print(f"{tid}: patch does not apply (skipped)")
                continue
            try:
                jobs.append((tid, normal_form(ov)))
            except Exception as e:  # noqa: BLE001
                print(f"{tid}: normal form could not be produced: {type(e).__name__}: {e}")
    bad = 0
    # worktree creation is serialised by git's own lock; run the suites a few at a time
    with ThreadPoolExecutor(max_workers=6) as ex:
        for name, rc, tail, failed in ex.map(lambda j: run_suite(*j), jobs):
            ok = rc == 0
            bad += 0 if ok else 1
            print(f"{'ok  ' if ok else 'FAIL'} {name}: {tail}")
            for f in failed[:6]:
                print(f"      {f[:200]}")
    print(f"{len(jobs)} normal forms run through the test suite; failing: {bad}")
    sys.exit(1 if bad else 0)


if __name__ == "__main__":
    main()
