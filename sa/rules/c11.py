"""C11 - every (instance, signal attribute) pair is an independent channel."""
from __future__ import annotations

import ast
from functools import cached_property

from ..cfg import iter_own
from ..loader import exc_expr, AnalysisError, ClassInfo, FuncInfo, dotted, walk_own
from .common import Anchors, call_name, def_use_closure, find_assign_sources, names_in, self_attr


class SignalAnchors:
    def __init__(self, a):
        self.a = a
        self.p = a.p

    @cached_property
    def Signal(self) -> ClassInfo:
        c = self.p.public("Signal")
        if not isinstance(c, ClassInfo):
            raise AnalysisError("anchor-missing public class Signal")
        return c

    def method(self, name: str) -> FuncInfo:
        m = self.Signal.methods.get(name)
        if m is None:
            raise AnalysisError(f"anchor-missing Signal.{name}")
        return m

    @cached_property
    def get(self) -> FuncInfo:
        return self.method("__get__")

    @cached_property
    def instance_param(self) -> str:
        ps = self.get.params
        if len(ps) < 2:
            raise AnalysisError("anchor-missing instance parameter of Signal.__get__")
        return ps[1]

    @cached_property
    def topic_attr(self) -> str:
        sn = self.method("__set_name__")
        name_param = sn.params[2] if len(sn.params) >= 3 else None
        for n in walk_own(sn.node):
            if isinstance(n, ast.Assign) and isinstance(n.value, ast.Name) and n.value.id == name_param:
                for t in n.targets:
                    s = self_attr(t)
                    if s:
                        return s
        raise AnalysisError("anchor-missing topic attribute (assigned in Signal.__set_name__)")

    @cached_property
    def instance_attr(self) -> str:
        for n in walk_own(self.get.node):
            if isinstance(n, ast.Assign) and isinstance(n.value, ast.Call) and call_name(n.value) == "ref":
                for t in n.targets:
                    if isinstance(t, ast.Attribute):
                        return t.attr
        raise AnalysisError("anchor-missing weak instance reference attribute in Signal.__get__")

    @cached_property
    def streams_attr(self) -> str:
        """The list field of Signal that subscribers' send streams are appended to."""
        fields = [st.target.id for st in self.Signal.node.body if isinstance(st, ast.AnnAssign) and isinstance(st.target, ast.Name)]
        for f in self.p.all_functions():
            for n, mu in self.a.func_mutations(f):
                if mu.kind in ("call:append", "call:add", "call:insert", "call:extend") and len(mu.path) >= 2 and mu.path[-1] in fields:
                    return mu.path[-1]
        raise AnalysisError("anchor-missing subscriber list attribute (no append to a Signal list field)")

    @cached_property
    def add_sites(self) -> list:
        """[(func, cfg node, Mutation)] where a stream is added to a subscriber list."""
        out = []
        for f in self.p.all_functions():
            for n, mu in self.a.func_mutations(f):
                if mu.kind in ("call:append", "call:add", "call:insert") and len(mu.path) >= 2 and mu.path[-1] == self.streams_attr:
                    out.append((f, n, mu))
        return out

    @cached_property
    def subscribe(self) -> FuncInfo:
        """The function in which the subscription is established."""
        if not self.add_sites:
            raise AnalysisError("anchor-missing subscription site")
        return self.add_sites[0][0]

    @cached_property
    def event_class_field(self) -> str:
        for st in self.Signal.node.body:
            if isinstance(st, ast.AnnAssign) and isinstance(st.target, ast.Name):
                if not (isinstance(st.value, ast.Call) and call_name(st.value) == "field"):
                    return st.target.id
        raise AnalysisError("anchor-missing event class field of Signal")

    @cached_property
    def bound_check(self) -> FuncInfo:
        """The Signal method that raises UnboundSignal."""
        for m in self.Signal.methods.values():
            if m.name in ("dispatch",) or m is self.subscribe:
                continue
            for n in walk_own(m.node):
                if isinstance(n, ast.Raise) and n.exc is not None and "UnboundSignal" in ast.unparse(exc_expr(n)):
                    return m
        raise AnalysisError("anchor-missing bound-ness check (a Signal method raising UnboundSignal)")

    def weak_tables(self) -> set:
        """Access-path heads ('bound_signals' or 'self._bound_signals') that are weak-keyed mappings."""
        out = set()
        mod = self.Signal.module
        for name, val in mod.assigns.items():
            if "WeakKeyDictionary" in ast.unparse(val):
                out.add(name)
        for st in self.Signal.node.body:
            if isinstance(st, ast.AnnAssign) and isinstance(st.target, ast.Name) and st.value is not None:
                if "WeakKeyDictionary" in ast.unparse(st.value):
                    out.add("self." + st.target.id)
        for m in self.Signal.methods.values():
            for n in walk_own(m.node):
                if isinstance(n, ast.Assign) and "WeakKeyDictionary" in ast.unparse(n.value):
                    for t in n.targets:
                        s = self_attr(t)
                        if s:
                            out.add("self." + s)
        return out


def chain_of(expr):
    """(base_expr, [key exprs]) for subscript / get / setdefault chains."""
    keys = []
    cur = expr
    while True:
        if isinstance(cur, ast.Subscript):
            keys.append(cur.slice)
            cur = cur.value
        elif isinstance(cur, ast.Call) and isinstance(cur.func, ast.Attribute) and cur.func.attr in ("get", "setdefault", "pop", "__getitem__") and cur.args:
            keys.append(cur.args[0])
            cur = cur.func.value
        else:
            break
    return cur, list(reversed(keys))


def cache_accesses(sa: SignalAnchors) -> list:
    """Maximal access chains in __get__ that involve the instance parameter in a key:
    (expr, base, keys, is_store)."""
    f = sa.get
    inst = sa.instance_param
    cands = []
    for n in walk_own(f.node):
        if isinstance(n, (ast.Subscript, ast.Call)):
            base, keys = chain_of(n)
            if keys and any(inst in names_in(k) or inst in def_use_closure(f, k) for k in keys):
                cands.append((n, base, keys))
    # keep maximal chains only
    inner = set()
    for n, base, keys in cands:
        cur = n
        while True:
            if isinstance(cur, ast.Subscript):
                cur = cur.value
            elif isinstance(cur, ast.Call) and isinstance(cur.func, ast.Attribute):
                cur = cur.func.value
            else:
                break
            inner.add(id(cur))
    out = []
    for n, base, keys in cands:
        if id(n) in inner:
            continue
        is_store = isinstance(n, ast.Subscript) and isinstance(n.ctx, ast.Store)
        out.append((n, base, keys, is_store))
    return out


def canon_chain(base, keys) -> str:
    return ast.unparse(base) + "".join(f"[{ast.unparse(k)}]" for k in keys)


def _death_removal_early(f, inst: str) -> bool:
    """weakref.ref(instance, cb) / weakref.finalize(instance, ...) whose callback pops / deletes."""
    for c in walk_own(f.node):
        if isinstance(c, ast.Call) and call_name(c) in ("ref", "finalize") and len(c.args) >= 2 and inst in names_in(c.args[0]):
            cb = c.args[1]
            bodies = [cb] + list(c.args[2:])
            if isinstance(cb, ast.Name) and cb.id in f.nested:
                bodies = [f.nested[cb.id].node]
            txt = " ".join(ast.unparse(b) for b in bodies)
            if ".pop" in txt or "del " in txt or ".discard" in txt:
                return True
    return False


def run(ctx) -> None:
    rep = ctx.rep
    a = ctx.a
    sa = SignalAnchors(a)
    f = sa.get
    inst = sa.instance_param
    cfg = a.cfg(f)

    # ---------------- R1 / R2 : cache key
    acc = cache_accesses(sa)
    if not acc:
        # no cache at all: every access builds a new bound signal -> same access does not yield the same object
        rep.violate("C11.R1", f, f.node, "no cache access keyed by the instance: each attribute access would create a different bound signal")
    for n, base, keys, is_store in acc:
        whole_names = set()
        for part in [base] + keys:
            whole_names |= def_use_closure(f, part)
        has_inst = inst in whole_names
        has_self = "self" in whole_names
        rep.check(
            "C11.R1",
            has_inst and has_self,
            f,
            n,
            f"cache access `{canon_chain(base, keys)}` depends on both the owner instance and the signal declaration",
            f"cache access `{canon_chain(base, keys)}` is keyed by {'the instance' if has_inst else 'neither the instance'} {'and' if has_inst and has_self else 'but not'} the declaration (self): "
            "all Signal attributes of one instance share one bound signal (cross-delivery, wrong topic/event class)"
            if has_inst
            else f"cache access `{canon_chain(base, keys)}` does not depend on the instance: instances share a bound signal",
        )
        for k0 in keys:
            # a key held in a local (`key = id(instance)`) is judged by what the local holds
            forms = [k0]
            if isinstance(k0, ast.Name) and k0.id != inst:
                forms = find_assign_sources(f, k0.id) or [k0]
            for k in forms:
              if inst in names_in(k) and not (isinstance(k, ast.Name) and k.id == inst):
                if isinstance(k, ast.Call) and call_name(k) == "id" and _death_removal_early(f, inst):
                    pass  # identity key with removal on the owner's death: judged below
                elif isinstance(k, ast.Call) and call_name(k) in ("id", "hash", "repr", "str"):
                    rep.violate("C11.R1", f, n, f"the cache is keyed by `{ast.unparse(k)}`, not by the instance itself: after the owner is garbage collected a new instance can get the same key and inherit the dead instance's bound signal (shared channel, source None)")
                elif isinstance(k, ast.Tuple):
                    bad = [e for e in k.elts if isinstance(e, ast.Call) and call_name(e) in ("id", "hash", "repr", "str") and inst in names_in(e)]
                    if bad and not any(isinstance(e, ast.Name) and e.id == inst for e in k.elts):
                        rep.violate("C11.R1", f, n, f"the cache key contains `{ast.unparse(bad[0])}` instead of the instance itself: a later instance can get the same key and inherit a dead instance's bound signal")
                else:
                    rep.unrecognised("C11.R1", f, n, f"cache key `{ast.unparse(k)}` derived from the instance in an unrecognised way")
    rep.floor("C11.R1", len(acc), 2)
    # ... by IDENTITY.  A mapping keyed by the instance object itself (WeakKeyDictionary, dict)
    # finds its entries by hash / ==: two distinct instances that compare equal (a frozen
    # dataclass, a class with __eq__) get one bound signal.  Identity keys are `id(instance)`
    # with the entry removed when the owner dies (weakref callback / weakref.finalize).
    def _death_removal() -> bool:
        for c in walk_own(f.node):
            if isinstance(c, ast.Call) and call_name(c) in ("ref", "finalize") and len(c.args) >= 2 and inst in names_in(c.args[0]):
                cb = c.args[1]
                bodies = [cb] + list(c.args[2:])
                if isinstance(cb, ast.Name) and cb.id in f.nested:
                    bodies = [f.nested[cb.id].node]
                txt = " ".join(ast.unparse(b) for b in bodies)
                if (".pop" in txt or "del " in txt or ".discard" in txt) and any(canon_chain(b_, []) in txt or ast.unparse(b_) in txt for _n, b_, _k, _s in acc):
                    return True
        return False

    by_object = [(n, base, keys) for n, base, keys, is_store in acc if any(isinstance(k, ast.Name) and k.id == inst for k in keys)]
    id_keyed = [(n, base, keys) for n, base, keys, is_store in acc if any(isinstance(x, ast.Call) and call_name(x) == "id" and inst in names_in(x) for k in keys for x in ([k] if not isinstance(k, ast.Name) else find_assign_sources(f, k.id) or [k]))]
    if by_object:
        stores_ = [x for x in by_object if any(x[0] is y[0] for y in acc if y[3])] or by_object
        n_, base_, keys_ = stores_[0]
        rep.violate("C11.R1", f, n_, f"the cache `{canon_chain(base_, keys_)}` is keyed by the instance object itself: the mapping finds entries by hash and ==, so two distinct instances that compare equal (e.g. a frozen dataclass) share one bound signal - events dispatched on one are delivered to the other's subscribers")
    elif id_keyed and _death_removal():
        rep.hold("C11.R1", f, id_keyed[0][0], "the cache is keyed by the owner's identity and the entry is removed when the owner dies")
    loads = [x for x in acc if not x[3]]
    stores = [x for x in acc if x[3]]
    if loads and stores:
        lc = {canon_chain(b, k) for _, b, k, _ in loads}
        sc = {canon_chain(b, k) for _, b, k, _ in stores}
        rep.check("C11.R2", lc == sc, f, stores[0][0], f"hit path and store path use the same cache key ({sorted(lc)})", f"hit path reads {sorted(lc)} but the miss path stores under {sorted(sc)}: the same access does not always yield the same bound signal")
    elif acc:
        # setdefault-only style: a single chain serves both
        only = {canon_chain(b, k) for _, b, k, _ in acc}
        sd = any(isinstance(n, ast.Call) and n.func.attr == "setdefault" for n, *_ in acc)
        if sd:
            rep.hold("C11.R2", f, acc[0][0], f"single setdefault access {sorted(only)} serves hit and miss")
        else:
            rep.violate("C11.R2", f, acc[0][0], "the bound signal is " + ("never stored in" if not stores else "never fetched from") + " the cache: repeated access yields different objects")
    # every return on the non-None path returns a cache value or the freshly stored bound signal
    bound_vars = set()
    ctor_calls = []
    for n in walk_own(f.node):
        if isinstance(n, ast.Assign) and isinstance(n.value, ast.Call):
            c = a.callee(f, n.value)
            if c.kind == "class" and c.cls is sa.Signal:
                ctor_calls.append(n.value)
                for t in n.targets:
                    if isinstance(t, ast.Name):
                        bound_vars.add(t.id)
    stored_vars = set()
    for n in walk_own(f.node):
        if isinstance(n, ast.Assign):
            for t in n.targets:
                if isinstance(t, ast.Subscript) and isinstance(n.value, ast.Name):
                    stored_vars.add(n.value.id)
        if isinstance(n, ast.Call) and isinstance(n.func, ast.Attribute) and n.func.attr == "setdefault" and len(n.args) == 2 and isinstance(n.args[1], ast.Name):
            stored_vars.add(n.args[1].id)
    for n in walk_own(f.node):
        if isinstance(n, ast.Return) and n.value is not None:
            v = n.value
            if isinstance(v, ast.Name) and v.id == "self":
                continue
            if isinstance(v, ast.Name) and v.id in bound_vars:
                rep.check("C11.R2", v.id in stored_vars, f, n, "the freshly created bound signal is cached before it is returned", "a freshly created bound signal is returned without being cached: the next access creates another one")
            elif any(v is x[0] for x in acc) or any(v is sub for x in acc for sub in ast.walk(x[0])):
                rep.hold("C11.R2", f, n, "hit path returns the cached bound signal")
            elif isinstance(v, ast.Name):
                srcs = find_assign_sources(f, v.id)
                ok = any(any(s is x[0] for x in acc) for s in srcs)
                if ok:
                    rep.hold("C11.R2", f, n, "returns the cached bound signal")
                else:
                    rep.unrecognised("C11.R2", f, n, f"return value {v.id} is neither the cached nor the freshly stored bound signal")
            else:
                rep.unrecognised("C11.R2", f, n, "unrecognised return expression in Signal.__get__")

    # ---------------- R3 : carries name and event class
    if not ctor_calls:
        rep.violate("C11.R3", f, f.node, "__get__ never constructs a bound Signal")
    for call in ctor_calls:
        arg = call.args[0] if call.args else next((k.value for k in call.keywords if k.arg == sa.event_class_field), None)
        rep.check("C11.R3", arg is not None and self_attr(arg) == sa.event_class_field, f, call, "bound signal carries the declaration's event class", f"bound signal is constructed with {ast.unparse(arg) if arg is not None else 'no event class'}, not self.{sa.event_class_field}")
    topic_ok = False
    for n in walk_own(f.node):
        if isinstance(n, ast.Assign):
            for t in n.targets:
                if isinstance(t, ast.Attribute) and t.attr == sa.topic_attr and isinstance(t.value, ast.Name) and t.value.id in bound_vars:
                    topic_ok = self_attr(n.value) == sa.topic_attr
                    rep.check("C11.R3", topic_ok, f, n, "bound signal carries the declaration's topic (the attribute name)", f"bound signal topic is set from {ast.unparse(n.value)}, not self.{sa.topic_attr}")
    if not topic_ok and not any(i.rule == "C11.R3" and i.verdict == "VIOLATION" for i in rep.instances):
        rep.violate("C11.R3", f, f.node, "the bound signal never receives the declaration's topic")
    rep.hold("C11.R3", sa.method("__set_name__"), None, f"topic attribute {sa.topic_attr} is assigned from the attribute name in __set_name__")

    # ---------------- R4 : class access / unbound use
    none_tests = [n for n in cfg.live_nodes() if n.kind == "test" and isinstance(n.ast, ast.Compare) and isinstance(n.ast.left, ast.Name) and n.ast.left.id == inst and isinstance(n.ast.ops[0], ast.Is) and isinstance(n.ast.comparators[0], ast.Constant) and n.ast.comparators[0].value is None]
    if not none_tests:
        rep.violate("C11.R4", f, f.node, "class-level access (instance is None) is not distinguished")
    else:
        t = none_tests[0]
        tb = [d for d, lab in t.succ if lab == "t"]
        first = cfg.nodes[tb[0]] if tb else None
        ok = first is not None and first.kind == "stmt" and isinstance(first.ast, ast.Return) and isinstance(first.ast.value, ast.Name) and first.ast.value.id == "self"
        rep.check("C11.R4", ok, f, t.ast, "class access returns the declaration itself", "class access does not return the declaration")
        acc_nodes = [x for acc_n, *_ in acc for x in cfg.nodes_containing(acc_n)]
        rep.check("C11.R4", all(cfg.dominates(t.id, x.id) for x in acc_nodes), f, t.ast, "the None test dominates every cache access", "the cache is touched before the instance-is-None test")
    # Bound-ness guard: `if not hasattr(<signal>, <instance attr>): raise UnboundSignal`, either
    # inline in the function or in a helper it calls (a helper extracted for one caller has
    # been inlined by the pre-pass; a shared one is still a call).
    def inline_guards(fn: FuncInfo) -> list:
        fcfg = a.cfg(fn)
        out = []
        for t in fcfg.live_nodes():
            if t.kind != "test":
                continue
            txt = ast.unparse(t.ast)
            if sa.instance_attr in txt and ("hasattr" in txt or "getattr" in txt):
                e, lab = t.ast, "t"
                while isinstance(e, ast.UnaryOp) and isinstance(e.op, ast.Not):
                    e, lab = e.operand, ("f" if lab == "t" else "t")
                # the raise sits on the side where the attribute is ABSENT
                absent = "f" if lab == "t" else "t"
                side = [d for d, l_ in t.succ if l_ == absent]
                if side and isinstance(fcfg.nodes[side[0]].ast, ast.Raise) and "UnboundSignal" in ast.unparse(fcfg.nodes[side[0]].ast):
                    out.append(t)
        return out

    helpers = [m for m in sa.Signal.methods.values() if inline_guards(m) and not a.func_mutations(m) and m.name not in ("dispatch",)]
    helpers = [m for m in helpers if not any(isinstance(x, ast.Return) and x.value is not None for x in walk_own(m.node))]
    any_guard = bool(helpers) or any(inline_guards(m) for m in sa.Signal.methods.values()) or bool(inline_guards(sa.subscribe))
    rep.check("C11.R4", any_guard, sa.method("dispatch"), None, f"a bound-ness guard raises UnboundSignal when {sa.instance_attr} is absent", "nothing raises UnboundSignal for a signal that is not bound to an instance")
    for user in (sa.method("dispatch"), sa.subscribe):
        ucfg = a.cfg(user)
        guards = [n for n in ucfg.live_nodes() if any(c.kind == "func" and c.func in helpers for _, c in a.node_calls(user, ucfg, n))] + inline_guards(user)
        effects = [n for n, m in a.func_mutations(user) if user is sa.method("dispatch") or m.path[-1] == sa.streams_attr]
        sends = [n for n in ucfg.live_nodes() if any(call_name(cl) in ("send_nowait", "send") for cl, _ in a.node_calls(user, ucfg, n))]
        ok = bool(guards) and all(any(ucfg.dominates(g.id, e.id) for g in guards) for e in effects + sends)
        rep.check("C11.R4", ok, user, user.node, "the bound-ness guard dominates every effect", "an effect (subscription / delivery / stamping) is reachable without the bound-ness guard: using the signal through the class is not rejected with UnboundSignal")
    # Comparing signals (`==`, `in` on a list of signals, list.index/count/remove) runs the
    # dataclass-generated __eq__, which reads every compare-field - including the instance
    # reference a class-level declaration does not have: AttributeError instead of UnboundSignal.
    sig_cls = sa.Signal
    eq_generated = "dataclass" in sig_cls.decorators and "__eq__" not in sig_cls.methods and not any(isinstance(d, ast.Call) and any(k.arg == "eq" and isinstance(k.value, ast.Constant) and k.value.value is False for k in d.keywords) for d in sig_cls.node.decorator_list)
    if eq_generated:
        cmp_sites = []
        for g in ctx.p.all_functions():
            if g.module is not sig_cls.module or g.is_lambda:
                continue
            sig_vars = set()
            for p_ in g.params:
                ann = g.param_annotation(p_)
                if ann is not None and sig_cls.name in ast.unparse(ann) and p_ != "self":
                    sig_vars.add(p_)
            for n in walk_own(g.node):
                if isinstance(n, (ast.For, ast.AsyncFor)) and isinstance(n.target, ast.Name) and isinstance(n.iter, ast.Name) and n.iter.id in sig_vars:
                    sig_vars.add(n.target.id)
            elem_vars = {n.target.id for n in walk_own(g.node) if isinstance(n, (ast.For, ast.AsyncFor)) and isinstance(n.target, ast.Name) and isinstance(n.iter, ast.Name) and n.iter.id in sig_vars}
            for n in walk_own(g.node):
                if isinstance(n, ast.Compare) and any(isinstance(o, (ast.In, ast.NotIn, ast.Eq, ast.NotEq)) for o in n.ops):
                    operands = [n.left] + list(n.comparators)
                    if any(isinstance(o, ast.Name) and o.id in elem_vars for o in operands):
                        cmp_sites.append((g, n))
                elif isinstance(n, ast.Call) and isinstance(n.func, ast.Attribute) and n.func.attr in ("index", "count", "remove") and any(isinstance(x, ast.Name) and x.id in elem_vars for x in n.args):
                    cmp_sites.append((g, n))
        for g, n in cmp_sites:
            gcfg = a.cfg(g)
            nn = gcfg.nodes_containing(n)
            guards_g = [x for x in gcfg.live_nodes() if any(cal.kind == "func" and cal.func in helpers for _c, cal in a.node_calls(g, gcfg, x))] + inline_guards(g)
            guarded = bool(nn) and bool(guards_g) and any(gcfg.dominates(gg.id, nn[0].id) for gg in guards_g)
            rep.check("C11.R4", guarded, g, n, "signals are compared only after the bound-ness guard", f"`{ast.unparse(n)[:60]}` compares Signal objects with the dataclass-generated __eq__ before any bound-ness check: for a class-level (unbound) signal that raises AttributeError, not UnboundSignal")

    # the declaration object never gets the instance attribute
    bad = []
    for m in sa.Signal.methods.values():
        for n in walk_own(m.node):
            if isinstance(n, (ast.Assign, ast.AnnAssign)):
                for t in (n.targets if isinstance(n, ast.Assign) else [n.target]):
                    if self_attr(t) == sa.instance_attr:
                        bad.append((m, n))
    for st in sa.Signal.node.body:
        if isinstance(st, ast.AnnAssign) and isinstance(st.target, ast.Name) and st.target.id == sa.instance_attr and st.value is not None:
            val = ast.unparse(st.value)
            if "default" in val:
                bad.append((f, st))
    if bad:
        for m, n in bad:
            rep.violate("C11.R4", m, n, f"the declaration itself receives {sa.instance_attr}: class-level use would no longer raise UnboundSignal")
    else:
        rep.hold("C11.R4", f, None, f"{sa.instance_attr} is only ever set on the bound copy created in __get__")

    # a rejected class-level (unbound) use has no other effect: a multi-signal subscription that
    # fails half-way undoes what it had subscribed (C10.R4)
    from . import c10 as _c10
    from .common import include_fn as _incfn

    _incfn(ctx, lambda sub: _c10.run(sub, skip_includes=True), "C11.R4", only=("C10.R4",))

    # ---------------- R5 : event class check in dispatch
    d = sa.method("dispatch")
    dcfg = a.cfg(d)
    ev_param = d.params[1] if len(d.params) > 1 else None
    tests = []
    for n in dcfg.live_nodes():
        if n.kind == "test":
            for e in iter_own(n.ast):
                if isinstance(e, ast.Call) and call_name(e) == "isinstance" and len(e.args) == 2 and isinstance(e.args[0], ast.Name) and e.args[0].id == ev_param and self_attr(e.args[1]) == sa.event_class_field:
                    tests.append(n)
    if not tests:
        rep.violate("C11.R5", d, d.node, "dispatch does not check the event against the signal's event class")
    else:
        t = tests[0]
        negated = isinstance(t.ast, ast.UnaryOp) and isinstance(t.ast.op, ast.Not)
        fail_side = [dd for dd, lab in t.succ if lab == ("t" if negated else "f")]
        region = dcfg.reach(fail_side, avoid=[t.id], edge_ok=lambda s_, d_, lab: lab not in ("e", "h"))
        fail_raises = [dcfg.nodes[i] for i in region if dcfg.nodes[i].kind == "stmt" and isinstance(dcfg.nodes[i].ast, ast.Raise)]
        raises_te = bool(fail_raises) and all(r.ast.exc is not None and "TypeError" in ast.unparse(exc_expr(r.ast)) for r in fail_raises) and dcfg.exit not in region and not any(call_name(cl) == "send_nowait" for i in region for cl, _ in a.node_calls(d, dcfg, dcfg.nodes[i]))
        rep.check("C11.R5", raises_te, d, t.ast, "a wrong event class raises TypeError", "the failing event-class test does not raise TypeError")
        stamp_and_send = [n for n, m in a.func_mutations(d)] + [n for n in dcfg.live_nodes() if any(call_name(cl) == "send_nowait" for cl, _ in a.node_calls(d, dcfg, n))]
        rep.check("C11.R5", bool(stamp_and_send) and all(dcfg.dominates(t.id, s.id) for s in stamp_and_send), d, t.ast, "the class check dominates stamping and delivery", "stamping or delivery is reachable without the event class check")

    # ---------------- R6 : owner not kept alive
    weak = sa.weak_tables()
    uses = 0
    for n in walk_own(f.node):
        if isinstance(n, ast.Name) and n.id == inst and isinstance(n.ctx, ast.Load):
            uses += 1
            ctxt = _use_context(f, n, weak, a)
            if ctxt[0]:
                rep.hold("C11.R6", f, None, f"instance used as {ctxt[1]}", nontrivial=False)
            else:
                rep.violate("C11.R6", f, ctxt[2], f"the owner instance escapes into {ctxt[1]}: a strong reference keeps it alive")
    rep.floor("C11.R6", uses, 3)
    # ... nor does a cache of the dereferenced owner: a cached_property / lru_cache'd method of the
    # signal that returns (something built from) `self._instance()` stores a strong reference in
    # the bound signal - which is itself the value of the weak-keyed entry of that owner
    for m_ in sa.Signal.methods.values():
        if set(m_.decorators) & {"cached_property", "lru_cache", "cache"}:
            derefs_ = [c_ for c_ in walk_own(m_.node) if isinstance(c_, ast.Call) and isinstance(c_.func, ast.Attribute) and c_.func.attr == sa.instance_attr]
            rep.check("C11.R6", not derefs_, m_, derefs_[0] if derefs_ else m_.node, f"{m_.name} caches nothing that refers to the owner", f"`{m_.name}` is cached ({', '.join(m_.decorators)}) and evaluates `{ast.unparse(derefs_[0]) if derefs_ else ''}`: after its first use the bound signal holds a strong reference to its owner, and since the bound signal is the value stored under that owner in the weak-keyed table, neither is ever collected")
    for g in ctx.p.all_functions():
        if g.module is not sa.Signal.module or g.is_lambda:
            continue
        for st_ in walk_own(g.node):
            if isinstance(st_, ast.Assign) and any(isinstance(t_, ast.Attribute) and isinstance(t_.value, ast.Name) and t_.value.id == "self" for t_ in st_.targets) and g.owner_class is sa.Signal and isinstance(st_.value, ast.Call) and isinstance(st_.value.func, ast.Attribute) and st_.value.func.attr == sa.instance_attr:
                rep.violate("C11.R6", g, st_, f"`{ast.unparse(st_)}` stores the dereferenced owner on the signal: a strong reference keeps it alive")
    # ... nor does USING a bound signal: a local that holds the dereferenced owner
    # (`owner = self._instance()`) in a function that then suspends (a generator-based context
    # manager stays suspended for the whole subscription) pins the owner for that long
    for g in ctx.p.all_functions():
        if g.module is not sa.Signal.module or g.is_lambda:
            continue
        derefs = [n for n in walk_own(g.node) if isinstance(n, ast.Assign) and len(n.targets) == 1 and isinstance(n.targets[0], ast.Name) and isinstance(n.value, ast.Call) and isinstance(n.value.func, ast.Attribute) and n.value.func.attr == sa.instance_attr]
        if not derefs:
            continue
        gcfg = a.cfg(g)
        for d in derefs:
            v = d.targets[0].id
            dn = gcfg.nodes_containing(d)
            if not dn:
                continue
            kills = [x.id for x in gcfg.live_nodes() if x.kind == "stmt" and ((isinstance(x.ast, ast.Delete) and any(isinstance(t, ast.Name) and t.id == v for t in x.ast.targets)) or (isinstance(x.ast, ast.Assign) and x.ast is not d and any(isinstance(t, ast.Name) and t.id == v for t in x.ast.targets)))]
            after = gcfg.reach([s_ for s_, _l in dn[0].succ], avoid=kills)
            susp = [gcfg.nodes[i] for i in after if gcfg.own_ast(gcfg.nodes[i]) is not None and any(isinstance(e, (ast.Yield, ast.YieldFrom, ast.Await)) for e in iter_own(gcfg.own_ast(gcfg.nodes[i])))]
            susp += [gcfg.nodes[i] for i in after if gcfg.nodes[i].kind in ("with_enter", "for_next") and getattr(gcfg.nodes[i], "is_async", False)]
            rep.check("C11.R6", not susp, g, d, f"`{v}` (the dereferenced owner) is not alive across a suspension", f"`{v} = {ast.unparse(d.value)}` keeps a strong reference to the owner in a frame that then suspends ({'yield' if g.is_generator else 'await'}): while a subscription / wait is pending the owner cannot be garbage collected")

    # ---------------- R7 : fresh subscriber list per bound signal
    fresh = False
    for n in walk_own(f.node):
        if isinstance(n, ast.Assign):
            for t in n.targets:
                if isinstance(t, ast.Attribute) and t.attr == sa.streams_attr and isinstance(t.value, ast.Name) and t.value.id in bound_vars:
                    fresh = isinstance(n.value, ast.List) and not n.value.elts or (isinstance(n.value, ast.Call) and call_name(n.value) == "list" and not n.value.args)
                    rep.check("C11.R7", fresh, f, n, "each bound signal gets its own empty subscriber list", f"bound signal subscriber list is bound to {ast.unparse(n.value)} (shared between channels)")
    if not fresh and not any(i.rule == "C11.R7" for i in rep.instances):
        # default_factory=list on the field is the other accepted form
        ok = False
        for st in sa.Signal.node.body:
            if isinstance(st, ast.AnnAssign) and isinstance(st.target, ast.Name) and st.target.id == sa.streams_attr and st.value is not None and "default_factory=list" in ast.unparse(st.value):
                ok = True
        rep.check("C11.R7", ok, f, f.node, "subscriber list comes from a per-object default_factory", "bound signals do not get a fresh subscriber list")
    rep.assume("garbage-collector timing is not modelled; weakref.ref / WeakKeyDictionary hold their referent/key weakly")


_READ_ONLY_BUILTINS = ("isinstance", "id", "type", "hasattr", "isclass", "callable", "repr", "str", "hash", "bool", "len", "issubclass", "iscoroutine", "isawaitable")


def _param_escapes(a, g: FuncInfo, pname: str, depth: int) -> bool:
    """Can the object passed as `pname` outlive the call through g (stored, returned, captured,
    handed to something unknown)?  Reading attributes, comparing, formatting and the
    read-only builtins do not retain it."""
    parents: dict = {}
    for n in walk_own(g.node):
        for c in ast.iter_child_nodes(n):
            parents[id(c)] = n
    # local aliases (`cls = obj`) are tracked along
    tracked = {pname}
    alias_stores: set = set()
    grew = True
    while grew:
        grew = False
        for n in walk_own(g.node):
            if isinstance(n, ast.Assign) and len(n.targets) == 1 and isinstance(n.targets[0], ast.Name) and isinstance(n.value, ast.Name) and n.value.id in tracked:
                alias_stores.add(id(n.targets[0]))
                alias_stores.add(id(n.value))
                if n.targets[0].id not in tracked:
                    tracked.add(n.targets[0].id)
                    grew = True
    for n in walk_own(g.node):
        if isinstance(n, (ast.Lambda,)):
            if any(isinstance(x, ast.Name) and x.id in tracked for x in ast.walk(n)):
                return True
            continue
        if isinstance(n, ast.Name) and n.id in tracked:
            if id(n) in alias_stores:
                continue
            if not isinstance(n.ctx, ast.Load):
                if n.id == pname:
                    return True
                continue  # the alias is rebound to something else (e.g. `cls = type(obj)`)
            par = parents.get(id(n))
            if isinstance(par, (ast.Compare, ast.FormattedValue)):
                continue
            if isinstance(par, ast.Attribute):
                continue
            if isinstance(par, (ast.If, ast.While, ast.UnaryOp, ast.BoolOp, ast.Assert, ast.Expr)):
                if isinstance(par, ast.BoolOp):
                    return True  # `x or y` yields the object itself
                continue
            if isinstance(par, ast.Call) and n in par.args:
                cn = call_name(par)
                if cn in _READ_ONLY_BUILTINS and isinstance(par.func, ast.Name):
                    continue
                c = a.callee(g, par)
                if depth > 0 and c.kind == "func" and c.func is not g and not c.func.is_generator and not c.func.is_async:
                    idx = par.args.index(n) + (1 if c.func.cls is not None and "staticmethod" not in c.func.decorators else 0)
                    if idx < len(c.func.params) and not _param_escapes(a, c.func, c.func.params[idx], depth - 1):
                        continue
                return True
            return True
    # nested functions capturing it
    for sub in a.p.all_functions():
        if sub.parent is g and any(isinstance(x, ast.Name) and x.id in tracked for x in ast.walk(sub.node)):
            return True
    return False


def _use_context(f: FuncInfo, name_node: ast.Name, weak: set, analysis=None) -> tuple:
    """(ok, description, report_node)"""
    parent = None
    grand = None
    for n in walk_own(f.node):
        for c in ast.iter_child_nodes(n):
            if c is name_node:
                parent = n
    if parent is None:
        return (True, "expression statement", name_node)
    for n in walk_own(f.node):
        for c in ast.iter_child_nodes(n):
            if c is parent:
                grand = n
    if isinstance(parent, ast.Compare):
        return (True, "comparison operand", parent)
    if isinstance(parent, ast.Call):
        cn = call_name(parent)
        if cn == "ref":
            return (True, "weakref.ref() argument", parent)
        if cn in ("get", "setdefault", "pop", "__getitem__") and parent.args and parent.args[0] is name_node:
            base = dotted(parent.func.value) or ""
            if base in weak:
                return (True, f"key of weak table {base}", parent)
            return (False, f"key of {base} which is not a weak-keyed mapping", parent)
        if cn in _READ_ONLY_BUILTINS:
            return (True, f"{cn}() argument", parent)
        if analysis is not None and name_node in parent.args:
            c = analysis.callee(f, parent)
            if c.kind == "func" and not c.func.is_generator and not c.func.is_async:
                idx = parent.args.index(name_node) + (1 if c.func.cls is not None and "staticmethod" not in c.func.decorators else 0)
                if idx < len(c.func.params) and not _param_escapes(analysis, c.func, c.func.params[idx], 2):
                    return (True, f"argument of {c.func.qualname}(), which only inspects it", parent)
        return (False, f"argument of {ast.unparse(parent.func)}()", parent)
    if isinstance(parent, ast.Subscript) and parent.slice is name_node:
        base = dotted(parent.value) or ""
        if base in weak:
            return (True, f"key of weak table {base}", parent)
        # nested: weak[instance] handled above; here e.g. strong dict
        return (False, f"key of {base or ast.unparse(parent.value)} which is not a weak-keyed mapping", parent)
    if isinstance(parent, ast.Tuple) and isinstance(grand, ast.Subscript):
        base = dotted(grand.value) or ""
        return (False, f"part of a tuple key of {base} (a tuple holds a strong reference)", grand)
    if isinstance(parent, ast.Assign):
        return (False, f"assignment to {ast.unparse(parent.targets[0])}", parent)
    if isinstance(parent, (ast.Attribute,)):
        return (True, "attribute access on the instance", parent)
    return (False, f"{type(parent).__name__}", parent)
