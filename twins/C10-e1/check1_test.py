"""
Property C10 checks (events reach exactly the active subscribers, exactly once, in
dispatch order) - written to pass on the unchanged source and with refactor1 applied.

Emphasis of this file: the overflow path of ``Signal.dispatch`` and the
subscribe/unsubscribe bookkeeping, also with DEBUG logging switched on and with
different warning filters installed.
"""

from __future__ import annotations

import logging
import math
import random
import time
import warnings
from collections import deque
from typing import Any, Callable

import pytest
from anyio import create_task_group, fail_after, move_on_after, sleep
from anyio.abc import TaskStatus
from anyio.lowlevel import checkpoint

from asphalt.core import Event, Signal, SignalQueueFull, stream_events, wait_event
from asphalt.core._exceptions import UnboundSignal

pytestmark = pytest.mark.anyio()


@pytest.fixture(params=["asyncio", "trio"])
def anyio_backend(request: pytest.FixtureRequest) -> str:
    return request.param


@pytest.fixture(autouse=True)
def debug_logging() -> Any:
    """Run everything with DEBUG logging enabled so that log calls are really made."""
    logger = logging.getLogger("asphalt.core")
    old_level = logger.level
    logger.setLevel(logging.DEBUG)
    handler = logging.NullHandler()
    logger.addHandler(handler)
    yield
    logger.removeHandler(handler)
    logger.setLevel(old_level)


class NumEvent(Event):
    def __init__(self, num: int):
        self.num = num


class Source:
    alpha = Signal(NumEvent)
    beta = Signal(NumEvent)

    def __init__(self, name: str):
        self.name = name


FILTERS: dict[str, Callable[[NumEvent], bool] | None] = {
    "all": None,
    "even": lambda e: e.num % 2 == 0,
    "mod3": lambda e: e.num % 3 == 0,
    "none": lambda e: False,
}


class ModelSubscriber:
    def __init__(self, signals: list[Any], filter_name: str, cap: float):
        self.signals = signals
        self.filter = FILTERS[filter_name]
        self.cap = cap
        self.queue: deque[NumEvent] = deque()
        self.cm: Any = None
        self.stream: Any = None

    def passes(self, event: NumEvent) -> bool:
        return self.filter is None or bool(self.filter(event))

    def has_match(self) -> bool:
        return any(self.passes(e) for e in self.queue)

    def pop_match(self) -> NumEvent:
        while True:
            event = self.queue.popleft()
            if self.passes(event):
                return event


async def assert_nothing_more(sub: ModelSubscriber) -> None:
    """The stream must not hold any further matching event."""
    while sub.has_match():
        with fail_after(2):
            got = await sub.stream.__anext__()
        assert got is sub.pop_match()

    with move_on_after(0.01) as scope:
        extra = await sub.stream.__anext__()
        pytest.fail(f"unexpected extra event {extra!r}")

    assert scope.cancelled_caught
    sub.queue.clear()


@pytest.mark.parametrize("seed", range(12))
async def test_random_histories_against_model(seed: int) -> None:
    rng = random.Random(seed)
    sources = [Source("s1"), Source("s2")]
    signals = [(src, name) for src in sources for name in ("alpha", "beta")]
    subscribers: list[ModelSubscriber] = []
    counter = 0

    for _step in range(120):
        op = rng.choice(["sub", "dispatch", "dispatch", "dispatch", "consume", "unsub"])
        if op == "sub" and len(subscribers) < 5:
            chosen = rng.sample(signals, rng.randint(1, len(signals)))
            sub = ModelSubscriber(
                chosen,
                rng.choice(list(FILTERS)),
                rng.choice([1, 2, 3, 5, math.inf]),
            )
            bound = [getattr(src, name) for src, name in chosen]
            if len(bound) == 1 and rng.random() < 0.5:
                sub.cm = bound[0].stream_events(sub.filter, max_queue_size=sub.cap)
            else:
                sub.cm = stream_events(bound, sub.filter, max_queue_size=sub.cap)

            sub.stream = await sub.cm.__aenter__()
            subscribers.append(sub)
        elif op == "dispatch":
            src, name = rng.choice(signals)
            counter += 1
            event = NumEvent(counter)
            expected_overflows = 0
            for sub in subscribers:
                if (src, name) in sub.signals:
                    if len(sub.queue) < sub.cap:
                        sub.queue.append(event)
                    else:
                        expected_overflows += 1

            before = time.time()
            with warnings.catch_warnings(record=True) as caught:
                warnings.simplefilter("always")
                getattr(src, name).dispatch(event)

            after = time.time()
            assert [w.category for w in caught] == [SignalQueueFull] * expected_overflows
            assert event.source is src
            assert event.topic == name
            assert isinstance(event.time, float)
            assert before <= event.time <= after
        elif op == "consume":
            ready = [sub for sub in subscribers if sub.has_match()]
            if ready:
                sub = rng.choice(ready)
                with fail_after(2):
                    got = await sub.stream.__anext__()

                assert got is sub.pop_match()
        elif op == "unsub" and subscribers:
            sub = subscribers.pop(rng.randrange(len(subscribers)))
            if rng.random() < 0.5:
                await assert_nothing_more(sub)

            await sub.cm.__aexit__(None, None, None)

    for sub in subscribers:
        await assert_nothing_more(sub)
        await sub.cm.__aexit__(None, None, None)

    # Nobody is subscribed any more: dispatching is silent and harmless
    with warnings.catch_warnings(record=True) as caught:
        warnings.simplefilter("always")
        for src, name in signals:
            getattr(src, name).dispatch(NumEvent(-1))

    assert not caught


@pytest.mark.parametrize("action", ["always", "ignore", "default", "once"])
async def test_overflow_hits_only_the_full_subscriber(action: str) -> None:
    """
    With one small and two large queues, only the small one loses events, regardless
    of which (non-raising) warning filter is active.
    """
    src = Source("s")
    async with src.alpha.stream_events(max_queue_size=100) as big_before:
        async with src.alpha.stream_events(max_queue_size=2) as small:
            async with src.alpha.stream_events(max_queue_size=100) as big_after:
                with warnings.catch_warnings(record=True) as caught:
                    warnings.simplefilter(action)
                    for i in range(10):
                        src.alpha.dispatch(NumEvent(i))

                if action == "always":
                    assert [w.category for w in caught] == [SignalQueueFull] * 8
                    assert all("Queue full (2)" in str(w.message) for w in caught)
                elif action == "ignore":
                    assert not caught

                for stream in (big_before, big_after):
                    got = [(await stream.__anext__()).num for _ in range(10)]
                    assert got == list(range(10))

                assert [(await small.__anext__()).num for _ in range(2)] == [0, 1]
                # The small queue has room again: the next event arrives everywhere
                with warnings.catch_warnings(record=True) as caught:
                    warnings.simplefilter("always")
                    src.alpha.dispatch(NumEvent(10))

                assert not caught
                for stream in (big_before, small, big_after):
                    with fail_after(2):
                        assert (await stream.__anext__()).num == 10


async def test_overflow_warning_points_at_the_dispatch_call() -> None:
    src = Source("s")
    async with src.alpha.stream_events(max_queue_size=1):
        src.alpha.dispatch(NumEvent(1))
        with pytest.warns(SignalQueueFull, match=r"Queue full \(1\)") as record:
            src.alpha.dispatch(NumEvent(2))

    assert len(record) == 1
    assert record[0].filename == __file__


async def test_subscriber_states_never_disturb_dispatch() -> None:
    """Slow, finished, cancelled and garbage collected subscribers."""
    src = Source("s")
    slow_got: list[int] = []
    fast_got: list[int] = []
    cancelled_got: list[int] = []
    finished_got: list[int] = []

    async def slow(task_status: TaskStatus[None]) -> None:
        async with src.alpha.stream_events(max_queue_size=1000) as stream:
            task_status.started()
            async for event in stream:
                slow_got.append(event.num)
                await sleep(0.001)
                if event.num == 59:
                    break

    async def fast(task_status: TaskStatus[None]) -> None:
        async with src.alpha.stream_events(max_queue_size=1000) as stream:
            task_status.started()
            async for event in stream:
                fast_got.append(event.num)
                if event.num == 59:
                    break

    async def finishing(task_status: TaskStatus[None]) -> None:
        async with src.alpha.stream_events() as stream:
            task_status.started()
            async for event in stream:
                finished_got.append(event.num)
                if event.num == 9:
                    break

    async def to_be_cancelled(task_status: TaskStatus[None]) -> None:
        async with src.alpha.stream_events() as stream:
            task_status.started()
            async for event in stream:
                cancelled_got.append(event.num)

    with warnings.catch_warnings():
        warnings.simplefilter("error")
        async with create_task_group() as tg:
            await tg.start(slow)
            async with create_task_group() as inner:
                await inner.start(to_be_cancelled)
                await tg.start(finishing)
                await tg.start(fast)
                for i in range(20):
                    src.alpha.dispatch(NumEvent(i))
                    await checkpoint()

                await sleep(0.01)
                inner.cancel_scope.cancel()

            for i in range(20, 60):
                src.alpha.dispatch(NumEvent(i))
                if i % 7 == 0:
                    await checkpoint()

    assert fast_got == list(range(60))
    assert slow_got == list(range(60))
    assert finished_got == list(range(10))
    assert cancelled_got == list(range(20))


async def test_wait_event_returns_first_match_after_call() -> None:
    src = Source("s")
    src.alpha.dispatch(NumEvent(4))  # before the call: must never be returned
    result: list[NumEvent] = []

    async def waiter(task_status: TaskStatus[None]) -> None:
        task_status.started()
        result.append(await src.alpha.wait_event(lambda e: e.num % 2 == 0))

    async with create_task_group() as tg:
        await tg.start(waiter)
        await sleep(0.01)
        for num in (1, 3, 6, 8):
            src.alpha.dispatch(NumEvent(num))

    assert [e.num for e in result] == [6]
    assert result[0].source is src and result[0].topic == "alpha"

    async def dispatch_on_beta() -> None:
        src.beta.dispatch(NumEvent(11))
        src.alpha.dispatch(NumEvent(12))

    async with create_task_group() as tg:
        tg.start_soon(dispatch_on_beta)
        with fail_after(2):
            event = await wait_event([src.alpha, src.beta])

    assert event.num == 11 and event.topic == "beta"


async def test_unbound_signals_are_rejected() -> None:
    with pytest.raises(UnboundSignal):
        Source.alpha.dispatch(NumEvent(1))

    with pytest.raises(UnboundSignal):
        async with Source.alpha.stream_events():
            pass

    with pytest.raises(UnboundSignal):
        await wait_event([Source.alpha])
