"""C09 - task factories: inherited context, exact handle set, teardown waits, errors kept."""
from __future__ import annotations

import ast

from ..cfg import iter_own
from ..dataflow import ReachingDefs
from ..loader import AnalysisError, ClassInfo, FuncInfo, dotted, walk_own
from .c08 import TaskAnchors, handle_isolation, runner_rules
from .common import Anchors, call_name, names_in, self_attr
from .tables import table_mutations


def run(ctx) -> None:
    rep = ctx.rep
    a = ctx.a
    an = Anchors(a)
    ta = TaskAnchors(ctx, an)
    TF = ctx.p.public("TaskFactory")
    if not isinstance(TF, ClassInfo):
        raise AnalysisError("anchor-missing TaskFactory")
    sbtf = an.ctx_method("start_background_task_factory")
    start_task = TF.methods.get("start_task")
    start_soon = TF.methods.get("start_task_soon")
    if start_task is None or start_soon is None:
        raise AnalysisError("anchor-missing TaskFactory.start_task / start_task_soon")
    # the factory body: what start_background_task_factory hands to start_service_task
    body = None
    sst_call = None
    for call, c in a.func_calls(sbtf):
        if c.kind == "func" and c.func is ta.start_service_task:
            sst_call = call
            if call.args and isinstance(call.args[0], ast.Attribute) and call.args[0].attr in TF.methods:
                body = TF.methods[call.args[0].attr]
    if body is None:
        raise AnalysisError("anchor-missing task factory body started as a service task")
    # wrapper: what both spawn methods hand to the task group
    def spawn_of(f: FuncInfo):
        for call, c in a.func_calls(f):
            if call_name(call) in ("start", "start_soon") and isinstance(call.func, ast.Attribute) and self_attr(call.func.value):
                return call
        return None

    sp1, sp2 = spawn_of(start_task), spawn_of(start_soon)
    if sp1 is None or sp2 is None:
        raise AnalysisError("anchor-missing spawn call in start_task / start_task_soon")
    wrapper = TF.methods.get(sp1.args[0].attr) if sp1.args and isinstance(sp1.args[0], ast.Attribute) else None
    if wrapper is None:
        raise AnalysisError("anchor-missing task wrapper passed to the task group")
    # the live handle set: attribute both spawn methods add to
    set_attr = None
    for n, m in a.func_mutations(start_task):
        if m.kind in ("call:add", "call:append") and len(m.path) == 2 and m.path[0] == "self":
            set_attr = m.path[1]
    if set_attr is None:
        rep.violate("C09.R2", start_task, start_task.node, "start_task never records the task handle in the factory's live set")
        return
    # the context attribute handed to the runner
    rcalls = [(c, cal) for c, cal in a.func_calls(wrapper) if cal.kind == "func" and cal.func is ta.runner]
    if not rcalls:
        raise AnalysisError("anchor-missing call of run_background_task in the task wrapper")
    rcall = rcalls[0][0]
    ctx_arg = rcall.args[1] if len(rcall.args) > 1 else None
    ctx_attr = self_attr(ctx_arg) if ctx_arg is not None else None

    # ------------------------------------------------------------------ R1 context parent
    rep.check("C09.R1", ctx_attr is not None, wrapper, rcall, f"each task's context gets the factory's stored context (self.{ctx_attr}) as explicit parent", f"the task runner receives `{ast.unparse(ctx_arg) if ctx_arg is not None else '?'}` instead of the factory's own stored context")
    if ctx_attr:
        writes = []
        for f in ctx.p.all_functions():
            for n in walk_own(f.node):
                if isinstance(n, (ast.Assign, ast.AnnAssign)):
                    for t in (n.targets if isinstance(n, ast.Assign) else [n.target]):
                        if isinstance(t, ast.Attribute) and t.attr == ctx_attr and (f.owner_class is TF or dotted(t.value) != "self"):
                            writes.append((f, n))
        ok = len(writes) == 1 and writes[0][0] is body and isinstance(writes[0][1].value, ast.Call) and call_name(writes[0][1].value) == "current_context"
        rep.check("C09.R1", ok, writes[0][0] if writes else body, writes[0][1] if writes else body.node, "the stored context is captured once, from current_context() inside the factory's own service task (a snapshot taken when the factory started)", "the factory's context is not (only) the service-task context captured when the factory started")
    for f in (start_task, start_soon, wrapper):
        cc = [c for c, _ in a.func_calls(f) if call_name(c) == "current_context"]
        rep.check("C09.R1", not cc, f, cc[0] if cc else f.node, f"{f.name} does not consult the spawner's current context", f"{f.name} reads current_context(): tasks inherit from whoever spawned them")
    runner_rules(ctx, ta, "C09.R1", handler_rule="C09.R5")

    # ------------------------------------------------------------------ R2 exact handle set
    for f, sp in ((start_task, sp1), (start_soon, sp2)):
        cfg = a.cfg(f)
        adds = [n for n, m in a.func_mutations(f) if m.path == ("self", set_attr) and m.kind in ("call:add", "call:append")]
        spn = cfg.nodes_containing(sp)
        if not adds:
            rep.violate("C09.R2", f, f.node, f"{f.name} does not add the handle to the live set")
            continue
        ok = bool(spn) and cfg.dominates(adds[0].id, spn[0].id)
        if not ok and spn:
            # a synchronous spawn (start_soon) cannot run the task before the spawner's next
            # checkpoint: adding right after it, with no checkpoint in between, is the same
            normal_ = lambda s_, d_, lab: lab not in ("e", "h")  # noqa: E731
            btw = cfg.between([spn[0].id], [adds[0].id], edge_ok=normal_) | {spn[0].id}
            no_cp = not any(a.node_checkpoints(f, cfg, cfg.nodes[i]) for i in btw)
            always = cfg.all_paths_pass(spn[0].id, [cfg.exit], [adds[0].id], edge_ok=normal_)
            ok = no_cp and always
        rep.check("C09.R2", ok, f, adds[0].ast, "the handle is in the live set before the task is spawned", "the handle is added only after the spawn: a task that has not called started() yet is missing from all_task_handles(), and one that finished before the spawner resumed is added after its removal and stays forever")
        if spn:
            btw = cfg.between([adds[0].id], [spn[0].id])
            cps = [r for i in btw for r in a.node_checkpoints(f, cfg, cfg.nodes[i])]
            rep.check("C09.R2", not cps, f, adds[0].ast, "no checkpoint between recording the handle and spawning", "a checkpoint separates recording the handle from spawning the task")
        # the added object is the handle passed to the wrapper
        rd = ReachingDefs(a, f)
        added = [(n, m.node.args[0]) for n, m in a.func_mutations(f) if m.path == ("self", set_attr) and m.kind in ("call:add", "call:append") and m.node.args]
        hv = rd.text(added[0][0].id, added[0][1]) if added else ""
        spn_id = spn[0].id if spn else cfg.entry
        rep.check("C09.R2", hv in [rd.text(spn_id, x) for x in sp.args], f, sp, "the recorded handle is the one given to the task", "the recorded handle is not the one the task uses")
        rets = [n for n in cfg.live_nodes() if n.kind == "stmt" and isinstance(n.ast, ast.Return) and n.ast.value is not None]
        rep.check("C09.R2", all(rd.text(r.id, r.ast.value) == hv for r in rets) and bool(rets), f, rets[0].ast if rets else f.node, "the same handle is returned to the caller", "the returned handle is not the recorded one")
    # the only removal: in a finally covering the whole wrapper
    wcfg = a.cfg(wrapper)
    removals = [(n, m) for n, m in a.func_mutations(wrapper) if m.path == ("self", set_attr) and m.kind in ("call:remove", "call:discard")]
    if not removals:
        rep.violate("C09.R2", wrapper, wrapper.node, "a finished task is never removed from the live set")
    else:
        rm = removals[0][1].node
        tries = [t for t in walk_own(wrapper.node) if isinstance(t, ast.Try) and any(any(x is rm for x in ast.walk(fb)) for fb in t.finalbody)]
        covers = bool(tries) and any(any(x is rcall for b in t.body for x in ast.walk(b)) for t in tries)
        rep.check("C09.R2", covers, wrapper, rm, "the handle is removed in a `finally` around the whole task run (any outcome)", "the handle is not removed in a finally covering the task run: crashed or cancelled tasks stay in the set")
        hp = wrapper.params[2] if len(wrapper.params) > 2 else None
        rep.check("C09.R2", rm.args and isinstance(rm.args[0], ast.Name) and rm.args[0].id == hp, wrapper, rm, "the removed handle is this task's handle", "the wrapper removes another handle")
        rids = [n.id for n, _ in removals]
        rn = wcfg.nodes_containing(rcall)
        if rn:
            rep.check("C09.R2", wcfg.all_paths_pass(rn[0].id, [wcfg.exit, wcfg.raise_exit], rids), wrapper, rm, "every exit after the task ran passes the removal", "some exit of the wrapper skips the removal")
    sites = 0
    for f, n, m, recv in table_mutations(a, set_attr):
        if f.owner_class is not TF and recv[-1:] != ("self",):
            pass
        sites += 1
        ok = (f in (start_task, start_soon) and m.kind in ("call:add",)) or (f is wrapper and m.kind in ("call:remove", "call:discard")) or (m.kind == "rebind" and f.name in ("__init__", "__post_init__"))
        if f.owner_class is TF or recv == ("self",):
            rep.check("C09.R2", ok, f, m.node, "live-set mutation at an expected site", f"unexpected `{m.kind}` on the live handle set in {f.name}")
    rep.floor("C09.R2", sites, 3)
    ath = TF.methods.get("all_task_handles")
    if ath is not None:
        rets = [n for n in walk_own(ath.node) if isinstance(n, ast.Return) and n.value is not None]
        ok = bool(rets) and all(isinstance(r.value, ast.Call) and (call_name(r.value) in ("copy", "set", "frozenset", "list")) and set_attr in ast.unparse(r.value) for r in rets)
        rep.check("C09.R2", ok, ath, rets[0] if rets else ath.node, "all_task_handles() returns a copy of the live set", "all_task_handles() hands out the live set itself (callers can corrupt it) or something else")

    # ------------------------------------------------------------------ R3 sibling agreement
    def norm_args(call: ast.Call) -> tuple:
        return tuple(ast.unparse(x) for x in call.args), tuple(sorted((k.arg or "**", ast.unparse(k.value)) for k in call.keywords))

    rep.check("C09.R3", norm_args(sp1) == norm_args(sp2), start_soon, sp2, "start_task and start_task_soon hand the same wrapper, handle, exception handler and task name to the group", f"start_task passes {norm_args(sp1)} but start_task_soon passes {norm_args(sp2)}")
    rep.check("C09.R3", ast.unparse(sp1.func.value) == ast.unparse(sp2.func.value), start_soon, sp2, "both spawn on the factory's own task group", "the two spawn methods use different task groups")
    handler_arg = [x for x in sp1.args if "exception_handler" in ast.unparse(x)]
    rep.check("C09.R3", bool(handler_arg) and self_attr(handler_arg[0]) is not None, start_task, sp1, "the factory's exception handler is passed along with every task", "tasks are spawned without the factory's exception handler")
    wr = [ast.unparse(x) for x in rcall.args]
    wparams = [p for p in wrapper.params if p != "self"]
    rep.check("C09.R3", len(wr) >= 4 and wr[0] == wparams[0] and wr[2] == wparams[1] and wr[3] == wparams[2], wrapper, rcall, "the wrapper forwards function, handle and handler unchanged to the runner", f"the wrapper calls the runner with ({', '.join(wr)})")

    # ------------------------------------------------------------------ R4 teardown waits, does not cancel
    if sst_call is None:
        rep.violate("C09.R4", sbtf, sbtf.node, "the factory is not started as a service task")
    else:
        act = next((k.value for k in sst_call.keywords if k.arg == "teardown_action"), None)
        if act is not None:
            brd = ReachingDefs(a, sbtf)
            bn = a.cfg(sbtf).nodes_containing(sst_call)
            if bn:
                act = brd.resolve(bn[0].id, act)
        waits = [n for n in walk_own(body.node) if isinstance(n, ast.Await) and isinstance(n.value, ast.Call) and call_name(n.value) == "wait"]
        ev_attr = self_attr(waits[0].value.func.value) if waits else None
        ok = isinstance(act, ast.Attribute) and act.attr == "set" and isinstance(act.value, ast.Attribute) and act.value.attr == ev_attr
        rep.check(
            "C09.R4",
            ok,
            sbtf,
            sst_call,
            f"the factory's teardown action sets the very event its body awaits ({ev_attr}): teardown releases the factory, it does not cancel it",
            f"the factory's teardown_action is `{ast.unparse(act) if act is not None else 'the default (cancel)'}`: tearing down the owning context cancels the running tasks (or never releases the factory) instead of waiting for them",
        )
        tgw = [w for w in walk_own(body.node) if isinstance(w, ast.AsyncWith) and any("create_task_group" in ast.unparse(i.context_expr) for i in w.items)]
        inside = bool(tgw) and bool(waits) and any(x is waits[0] for x in ast.walk(tgw[0]))
        rep.check("C09.R4", inside, body, tgw[0] if tgw else body.node, "the body awaits the release event inside `async with create_task_group()`: leaving it joins every running task", "the release wait is not inside the factory's task group block: teardown does not wait for running tasks")
        if tgw:
            asv = tgw[0].items[0].optional_vars
            same_tg = asv is not None and ast.unparse(asv) == ast.unparse(sp1.func.value)
            if asv is not None and not same_tg and isinstance(asv, ast.Name):
                # async with create_task_group() as tg: self._task_group = tg
                first = tgw[0].body[0] if tgw[0].body else None
                same_tg = isinstance(first, ast.Assign) and isinstance(first.value, ast.Name) and first.value.id == asv.id and any(ast.unparse(t) == ast.unparse(sp1.func.value) for t in first.targets)
            rep.check("C09.R4", bool(same_tg), body, tgw[0], "the joined task group is the one the tasks are spawned on", "tasks are spawned on a different task group than the one the factory joins")
        started = [c for c in walk_own(body.node) if isinstance(c, ast.Call) and call_name(c) == "started"]
        rep.check("C09.R4", bool(started) and bool(tgw) and any(x is started[0] for x in ast.walk(tgw[0])), body, started[0] if started else body.node, "the factory reports started only once its task group exists", "start_background_task_factory can return before the factory's task group exists")
    cancels = [c for f in TF.methods.values() for c in walk_own(f.node) if isinstance(c, ast.Call) and call_name(c) == "cancel"]
    rep.check("C09.R4", not cancels, start_task, cancels[0] if cancels else None, "nothing in TaskFactory cancels its task group", "TaskFactory cancels its own tasks")

    # ------------------------------------------------------------------ R5 see runner_rules (handler) ; R6 per-handle wait/cancel
    hargs = [ast.unparse(x) for x in rcall.args]
    rep.check("C09.R5", len(hargs) > 3 and hargs[3] == (wrapper.params[3] if len(wrapper.params) > 3 else ""), wrapper, rcall, "the factory's exception handler reaches the runner", "the runner is called without the exception handler")
    handle_isolation(ctx, ta, "C09.R6")
    # wait_finished() returns once the task has ended for ANY reason: the finished event is set
    # by the runner's finally, so every way through the wrapper must go through the runner
    rn_nodes = wcfg.nodes_containing(rcall)
    if rn_nodes:
        ok = wcfg.all_paths_pass(wcfg.entry, [wcfg.exit], [rn_nodes[0].id], edge_ok=lambda s_, d_, lab: lab not in ("e", "h"))
        rep.check("C09.R6", ok, wrapper, rcall, "every path through the task wrapper runs the task runner (whose finally sets the finished event)", "the task wrapper can return without running the task runner (e.g. a fast path for already-cancelled handles): the finished event is never set and wait_finished() blocks forever")
    for f_, sp_ in ((start_task, sp1), (start_soon, sp2)):
        fcfg_ = a.cfg(f_)
        spn_ = fcfg_.nodes_containing(sp_)
        if spn_:
            okp = fcfg_.all_paths_pass(fcfg_.entry, [fcfg_.exit], [spn_[0].id], edge_ok=lambda s_, d_, lab: lab not in ("e", "h"))
            rep.check("C09.R6", okp, f_, sp_, f"{f_.name} always spawns the task it returns a handle for", f"{f_.name} can return a handle without spawning the task")
    from .common import include_rules

    include_rules(ctx, "c02", "C09.R1", only=("C02.R5",))
    # the factory itself runs as a service task: teardown "waits for, and does not cancel" its
    # tasks only if the service-task finalizer honours the teardown action on every exit route
    include_rules(ctx, "c08", "C09.R5", only=("C08.R1",))
    rep.assume("anyio: a task group's `async with` exits only after all child tasks finished; cancellation is delivered only to the cancelled scope's task")
