"""
Behaviour check for refactoring 3 (Signal._subscribe() inlined into stream_events()).

Exercises, through the public API only: subscription happens when the stream is entered
(events dispatched right after are not lost), unsubscription on exit (normal, error and
cancellation), unbound signals, several signals per stream, several waiters on one
resource, and a cancelled waiter not disturbing later publications or other waiters.
"""

from __future__ import annotations

import gc
import warnings

import pytest
from anyio import (
    create_task_group,
    fail_after,
    move_on_after,
    wait_all_tasks_blocked,
)

from asphalt.core import (
    Component,
    Context,
    Event,
    ResourceEvent,
    Signal,
    SignalQueueFull,
    UnboundSignal,
    add_resource,
    add_resource_factory,
    get_resource,
    start_component,
    stream_events,
    wait_event,
)

pytestmark = pytest.mark.anyio()


class NumberEvent(Event):
    def __init__(self, number: int) -> None:
        self.number = number


class Source:
    first = Signal(NumberEvent)
    second = Signal(NumberEvent)


async def test_subscription_lifecycle() -> None:
    source = Source()

    # Dispatching without subscribers is a no-op
    source.first.dispatch(NumberEvent(-1))

    async with stream_events([source.first, source.second]) as stream:
        # Subscribed as soon as the block is entered: nothing dispatched now is lost
        source.first.dispatch(NumberEvent(1))
        source.second.dispatch(NumberEvent(2))
        source.first.dispatch(NumberEvent(3))
        with fail_after(3):
            received = [(await stream.__anext__()) for _ in range(3)]

        assert [e.number for e in received] == [1, 2, 3]
        assert [e.topic for e in received] == ["first", "second", "first"]
        assert all(e.source is source for e in received)

    # Unsubscribed after the block: a tiny queue that is never read would otherwise
    # produce SignalQueueFull warnings
    with warnings.catch_warnings():
        warnings.simplefilter("error")
        for i in range(5):
            source.first.dispatch(NumberEvent(i))
            source.second.dispatch(NumberEvent(i))

    # The same when the block is left with an exception
    with pytest.raises(LookupError, match="boom"):
        async with source.first.stream_events(max_queue_size=1):
            raise LookupError("boom")

    with warnings.catch_warnings():
        warnings.simplefilter("error")
        source.first.dispatch(NumberEvent(10))
        source.first.dispatch(NumberEvent(11))

    # While subscribed, an overflowing queue does warn (and keeps the older event)
    async with source.first.stream_events(max_queue_size=1) as stream:
        source.first.dispatch(NumberEvent(20))
        with pytest.warns(SignalQueueFull):
            source.first.dispatch(NumberEvent(21))

        with fail_after(3):
            assert (await stream.__anext__()).number == 20


async def test_unbound_signal_and_partial_subscription() -> None:
    source = Source()
    with pytest.raises(UnboundSignal):
        async with stream_events([Source.first]):
            pytest.fail("should not get here")

    with pytest.raises(UnboundSignal):
        await wait_event([Source.second])

    # A bound signal listed before an unbound one must not stay subscribed
    with pytest.raises(UnboundSignal):
        async with stream_events([source.first, Source.second], max_queue_size=1):
            pytest.fail("should not get here")

    with warnings.catch_warnings():
        warnings.simplefilter("error")
        source.first.dispatch(NumberEvent(1))
        source.first.dispatch(NumberEvent(2))

    # Nothing keeps the owner alive
    import weakref

    ref = weakref.ref(source)
    del source
    gc.collect()
    assert ref() is None


async def test_same_signal_twice_and_two_streams() -> None:
    source = Source()
    async with stream_events([source.first, source.first]) as doubled:
        async with source.first.stream_events(lambda e: e.number % 2 == 0) as even:
            for i in range(4):
                source.first.dispatch(NumberEvent(i))

            with fail_after(3):
                assert [(await even.__anext__()).number for _ in range(2)] == [0, 2]

        # "even" is gone, "doubled" still gets every event twice
        source.first.dispatch(NumberEvent(4))
        with fail_after(3):
            numbers = [(await doubled.__anext__()).number for _ in range(10)]

        assert numbers == [0, 0, 1, 1, 2, 2, 3, 3, 4, 4]


async def test_wait_event_cancellation_unsubscribes() -> None:
    source = Source()
    async with create_task_group() as tg:
        with move_on_after(0.05) as scope:
            await source.first.wait_event(lambda e: e.number == 99)

        assert scope.cancelled_caught

        results: list[int] = []

        async def waiter() -> None:
            with fail_after(3):
                results.append((await wait_event([source.first, source.second])).number)

        tg.start_soon(waiter)
        await wait_all_tasks_blocked()
        source.second.dispatch(NumberEvent(5))

    assert results == [5]
    with warnings.catch_warnings():
        warnings.simplefilter("error")
        for i in range(100):
            source.first.dispatch(NumberEvent(i))


async def test_many_waiters_one_cancelled_one_publisher() -> None:
    results: dict[str, object] = {}
    events: list[ResourceEvent] = []

    def factory() -> bytes:
        return b"product"

    class Parent(Component):
        def __init__(self) -> None:
            for i in range(3):
                self.add_component(f"waiter{i}", Waiter, key=f"w{i}")

            self.add_component("impatient", Impatient)
            self.add_component("factory_waiter", FactoryWaiter)
            self.add_component("publisher", Publisher)

    class Waiter(Component):
        def __init__(self, key: str) -> None:
            self.key = key

        async def start(self) -> None:
            with fail_after(3):
                results[self.key] = await get_resource(str, "shared")

    class Impatient(Component):
        async def start(self) -> None:
            with move_on_after(0.05) as scope:
                await get_resource(str, "shared")

            results["impatient_cancelled"] = scope.cancelled_caught
            # Try again, this time for real
            with fail_after(3):
                results["impatient"] = await get_resource(str, "shared")

    class FactoryWaiter(Component):
        async def start(self) -> None:
            with fail_after(3):
                results["factory"] = await get_resource(bytes, "shared")

    class Publisher(Component):
        async def start(self) -> None:
            await wait_all_tasks_blocked()
            while "impatient_cancelled" not in results:
                await wait_all_tasks_blocked()

            await wait_all_tasks_blocked()
            add_resource(1, "shared")
            await wait_all_tasks_blocked()
            assert set(results) == {"impatient_cancelled"}
            add_resource("the one", "shared")
            add_resource_factory(factory, "shared")

    async with Context() as ctx:
        async with ctx.resource_added.stream_events() as stream:
            await start_component(Parent, timeout=5)
            add_resource(None.__class__, "end", types=[type])
            with fail_after(3):
                async for event in stream:
                    if event.resource_name == "end":
                        break

                    events.append(event)

    assert results == {
        "impatient_cancelled": True,
        "w0": "the one",
        "w1": "the one",
        "w2": "the one",
        "impatient": "the one",
        "factory": b"product",
    }
    assert [(e.resource_types, e.resource_name, e.is_factory) for e in events] == [
        ((int,), "shared", False),
        ((str,), "shared", False),
        ((bytes,), "shared", True),
        ((bytes,), "shared", False),
    ]
