"""Desugaring passes applied to every module before the rules run, so that equivalent
spellings look the same to the rules:

A. conditional expressions in statement position become if/else statements
       x = a if c else b          ->   if c: x = a
       return a if c else b            else: x = b
B. dict comprehensions that are the whole value of an assignment / return become loops
       d = {k: v for t in it if c} ->   d = {}; for t in it: if c: d[k] = v
C. (in inline.py) calls of private single-expression predicate helpers are replaced by the
   expression

These rewrites preserve evaluation order and results; nodes keep their line numbers.
"""
from __future__ import annotations

import ast
import copy
import itertools
import re

_counter = itertools.count(1)
_SYNTHETIC = re.compile(r"_(inl|kl|cmp|c)\d+_")


def _lower_ifexp_stmt(st):
    """-> list of statements replacing st, or None"""
    if isinstance(st, ast.Assign) and isinstance(st.value, ast.IfExp):
        e = st.value
        a_ = ast.copy_location(ast.Assign(targets=copy.deepcopy(st.targets), value=e.body, lineno=st.lineno), st)
        b_ = ast.copy_location(ast.Assign(targets=copy.deepcopy(st.targets), value=e.orelse, lineno=st.lineno), st)
        return [ast.copy_location(ast.If(test=e.test, body=[a_], orelse=[b_]), st)]
    if isinstance(st, ast.AnnAssign) and st.value is not None and isinstance(st.value, ast.IfExp) and isinstance(st.target, (ast.Name, ast.Attribute)):
        e = st.value
        decl = ast.copy_location(ast.AnnAssign(target=copy.deepcopy(st.target), annotation=st.annotation, value=None, simple=st.simple), st)
        a_ = ast.copy_location(ast.Assign(targets=[copy.deepcopy(st.target)], value=e.body, lineno=st.lineno), st)
        b_ = ast.copy_location(ast.Assign(targets=[copy.deepcopy(st.target)], value=e.orelse, lineno=st.lineno), st)
        return [decl, ast.copy_location(ast.If(test=e.test, body=[a_], orelse=[b_]), st)]
    if isinstance(st, ast.Return) and isinstance(st.value, ast.IfExp):
        e = st.value
        return [ast.copy_location(ast.If(test=e.test, body=[ast.copy_location(ast.Return(value=e.body), st)], orelse=[ast.copy_location(ast.Return(value=e.orelse), st)]), st)]
    if isinstance(st, ast.Expr) and isinstance(st.value, ast.IfExp):
        e = st.value
        return [ast.copy_location(ast.If(test=e.test, body=[ast.copy_location(ast.Expr(value=e.body), st)], orelse=[ast.copy_location(ast.Expr(value=e.orelse), st)]), st)]
    return None


class _Rename(ast.NodeTransformer):
    def __init__(self, mapping):
        self.mapping = mapping

    def visit_Name(self, node):
        if node.id in self.mapping:
            return ast.copy_location(ast.Name(id=self.mapping[node.id], ctx=node.ctx), node)
        return node


def _lower_dictcomp_stmt(st):
    target = None
    comp = None
    mode = None
    if isinstance(st, ast.Assign) and len(st.targets) == 1 and isinstance(st.value, ast.DictComp) and isinstance(st.targets[0], (ast.Name, ast.Attribute)):
        target, comp, mode = st.targets[0], st.value, "assign"
    elif isinstance(st, ast.AnnAssign) and isinstance(st.value, ast.DictComp) and isinstance(st.target, (ast.Name, ast.Attribute)):
        target, comp, mode = st.target, st.value, "annassign"
    elif isinstance(st, ast.Return) and isinstance(st.value, ast.DictComp):
        n = next(_counter)
        target, comp, mode = ast.Name(id=f"_cmp{n}", ctx=ast.Store()), st.value, "return"
    if comp is None:
        return None
    if any(g.is_async for g in comp.generators):
        return None
    n = next(_counter)
    names = set()
    for g in comp.generators:
        for x in ast.walk(g.target):
            if isinstance(x, ast.Name):
                names.add(x.id)
    mapping = {v: f"_c{n}_{v}" for v in names}
    ren = _Rename(mapping)
    key = ren.visit(copy.deepcopy(comp.key))
    value = ren.visit(copy.deepcopy(comp.value))
    load_target = copy.deepcopy(target)
    for x in ast.walk(load_target):
        if hasattr(x, "ctx"):
            x.ctx = ast.Load()
    store = ast.Assign(targets=[ast.Subscript(value=load_target, slice=key, ctx=ast.Store())], value=value, lineno=st.lineno)
    body = [ast.copy_location(store, st)]
    for i, g in reversed(list(enumerate(comp.generators))):
        it = copy.deepcopy(g.iter)
        if i > 0:
            it = ren.visit(it)
        tgt = ren.visit(copy.deepcopy(g.target))
        for cond in reversed(g.ifs):
            body = [ast.copy_location(ast.If(test=ren.visit(copy.deepcopy(cond)), body=body, orelse=[]), st)]
        body = [ast.copy_location(ast.For(target=tgt, iter=it, body=body, orelse=[], lineno=st.lineno), st)]
    st_target = copy.deepcopy(target)
    for x in ast.walk(st_target):
        if hasattr(x, "ctx") and x is st_target:
            x.ctx = ast.Store()
    if mode == "annassign":
        init = ast.copy_location(ast.AnnAssign(target=st_target, annotation=st.annotation, value=ast.Dict(keys=[], values=[]), simple=st.simple), st)
    else:
        init = ast.copy_location(ast.Assign(targets=[st_target], value=ast.Dict(keys=[], values=[]), lineno=st.lineno), st)
    out = [init] + body
    if mode == "return":
        out.append(ast.copy_location(ast.Return(value=ast.Name(id=target.id, ctx=ast.Load())), st))
    for s in out:
        ast.fix_missing_locations(s)
    return out


_tmp_counter = [0]


def _lower_idempotent_set(st):
    """`if X is not V: X = V; REST`  ->  `t = X is not V; X = V; if t: REST`
    (assigning a plain attribute / name the value it already has changes nothing, so the
    assignment can be made unconditional; only the bookkeeping stays conditional)."""
    if not isinstance(st, ast.If) or st.orelse or not st.body:
        return None
    t = st.test
    if not (isinstance(t, ast.Compare) and len(t.ops) == 1 and isinstance(t.ops[0], (ast.IsNot, ast.NotEq))):
        return None
    first = st.body[0]
    if not (isinstance(first, ast.Assign) and len(first.targets) == 1 and isinstance(first.targets[0], (ast.Name, ast.Attribute))):
        return None
    tgt, val = ast.unparse(first.targets[0]), ast.unparse(first.value)
    a_, b_ = ast.unparse(t.left), ast.unparse(t.comparators[0])
    if {a_, b_} != {tgt, val} or tgt == val:
        return None
    if not isinstance(first.value, (ast.Name, ast.Attribute, ast.Constant)):
        return None
    rest = st.body[1:]
    if not rest:
        return [first]
    _tmp_counter[0] += 1
    tmp = f"_norm{_tmp_counter[0]}_changed"
    out = [
        ast.copy_location(ast.Assign(targets=[ast.Name(id=tmp, ctx=ast.Store())], value=t, lineno=st.lineno), st),
        first,
        ast.copy_location(ast.If(test=ast.Name(id=tmp, ctx=ast.Load()), body=rest, orelse=[]), st),
    ]
    for s_ in out:
        ast.fix_missing_locations(s_)
    return out


def _leading_walrus(e):
    """The NamedExpr that is evaluated before everything else in `e` (or None), with a setter
    that puts a replacement in its place."""
    parent, field, idx = None, None, None
    cur = e
    while True:
        if isinstance(cur, ast.NamedExpr):
            return cur, parent, field, idx
        if isinstance(cur, ast.UnaryOp):
            parent, field, idx, cur = cur, "operand", None, cur.operand
        elif isinstance(cur, ast.Compare):
            parent, field, idx, cur = cur, "left", None, cur.left
        elif isinstance(cur, ast.BoolOp):
            parent, field, idx, cur = cur, "values", 0, cur.values[0]
        elif isinstance(cur, ast.Await):
            parent, field, idx, cur = cur, "value", None, cur.value
        elif isinstance(cur, ast.Call) and isinstance(cur.func, ast.Name) and cur.args and not isinstance(cur.args[0], ast.Starred):
            parent, field, idx, cur = cur, "args", 0, cur.args[0]
        elif isinstance(cur, ast.Attribute):
            parent, field, idx, cur = cur, "value", None, cur.value
        else:
            return None, None, None, None


def _hoist_walrus_stmt(st):
    """`if f(x := E): ...`  ->  `x = E` / `if f(x): ...` when the binding is the first thing the
    statement evaluates (If tests, not loops: those re-evaluate)."""
    if isinstance(st, ast.If):
        holder, attr = st, "test"
    elif isinstance(st, (ast.Expr, ast.Return, ast.Assign)) and getattr(st, "value", None) is not None:
        holder, attr = st, "value"
    else:
        return None
    e = getattr(holder, attr)
    if isinstance(e, ast.NamedExpr) and not isinstance(st, ast.If):
        return None
    ne, parent, field, idx = _leading_walrus(e)
    if ne is None or not isinstance(ne.target, ast.Name):
        return None
    use = ast.copy_location(ast.Name(id=ne.target.id, ctx=ast.Load()), ne)
    if parent is None:
        setattr(holder, attr, use)
    elif idx is None:
        setattr(parent, field, use)
    else:
        getattr(parent, field)[idx] = use
    bind = ast.copy_location(ast.Assign(targets=[ast.Name(id=ne.target.id, ctx=ast.Store())], value=ne.value, lineno=st.lineno), st)
    return [bind, st]


def _rewrite_blocks(node) -> bool:
    changed = False
    for fld in ("body", "orelse", "finalbody"):
        block = getattr(node, fld, None)
        if not isinstance(block, list) or not block or not isinstance(block[0], ast.stmt):
            continue
        new_block = []
        for st in block:
            rep = _lower_ifexp_stmt(st) or _lower_dictcomp_stmt(st) or _lower_idempotent_set(st) or _hoist_walrus_stmt(st) or _split_tuple_assign(st)
            if rep is not None:
                new_block.extend(rep)
                changed = True
            else:
                new_block.append(st)
        setattr(node, fld, new_block)
        for st in new_block:
            if _rewrite_blocks(st):
                changed = True
    if isinstance(node, ast.Try):
        for h in node.handlers:
            if _rewrite_blocks(h):
                changed = True
    if isinstance(node, ast.Match):  # pragma: no cover
        for c in node.cases:
            if _rewrite_blocks(c):
                changed = True
    return changed


# ---------------------------------------------------------------------------------------------
# F. branch threading.  A helper that reports its outcome through several variables
#    (`container, factory = self._lookup(...)`, `found = True`) leaves, once inlined, an
#    if-chain whose branches set those variables, followed by tests of the same variables:
#        if A: c = x; f = None          the join point only exists to be split again.  The tail
#        elif B: c = None; f = y        is moved into every branch that reaches it and the tests
#        else: c = None; f = None       whose outcome is known there are folded, which gives the
#        if c is not None: return ..    shape the code had before the helper was extracted.
#        if f is None: ...              Accepted only if nothing but miss exits (return / raise)
#        REST                           ends up duplicated.


_TERMINATORS = (ast.Return, ast.Raise, ast.Continue, ast.Break)


def _terminates(stmts) -> bool:
    if not stmts:
        return False
    last = stmts[-1]
    if isinstance(last, _TERMINATORS):
        return True
    if isinstance(last, ast.If):
        return _terminates(last.body) and _terminates(last.orelse)
    return False


def _stored_names(st) -> set:
    out = set()
    for n in ast.walk(st):
        if isinstance(n, ast.Name) and isinstance(n.ctx, (ast.Store, ast.Del)):
            out.add(n.id)
        elif isinstance(n, ast.ExceptHandler) and n.name:
            out.add(n.name)
        elif isinstance(n, (ast.FunctionDef, ast.AsyncFunctionDef, ast.ClassDef)):
            out.add(n.name)
        elif isinstance(n, (ast.Global, ast.Nonlocal)):
            out |= set(n.names)
    return out


def _cond_facts(test, truth: bool, env: dict) -> None:
    """Facts about plain local names implied by `test` evaluating to `truth`."""
    if isinstance(test, ast.UnaryOp) and isinstance(test.op, ast.Not):
        _cond_facts(test.operand, not truth, env)
        return
    if isinstance(test, ast.BoolOp):
        if isinstance(test.op, ast.And) and truth or isinstance(test.op, ast.Or) and not truth:
            for v in test.values:
                _cond_facts(v, truth, env)
        return
    if isinstance(test, ast.Compare) and len(test.ops) == 1 and isinstance(test.ops[0], (ast.Is, ast.IsNot)):
        left, right = test.left, test.comparators[0]
        if isinstance(left, ast.NamedExpr):
            left = left.target
        if isinstance(left, ast.Name) and isinstance(right, ast.Constant) and right.value is None:
            is_none = truth if isinstance(test.ops[0], ast.Is) else not truth
            env[left.id] = "none" if is_none else "notnone"
        return
    if isinstance(test, ast.NamedExpr):
        test = test.target
    if isinstance(test, ast.Name) and truth:
        if env.get(test.id) is None:
            env[test.id] = "notnone"


def _assign_fact(st, env: dict) -> None:
    """Update `env` for one simple statement."""
    if isinstance(st, (ast.Assign, ast.AnnAssign)) and (isinstance(st, ast.AnnAssign) or len(st.targets) == 1):
        tgt = st.target if isinstance(st, ast.AnnAssign) else st.targets[0]
        val = st.value
        if isinstance(tgt, ast.Name) and val is not None:
            for n in ast.walk(val):
                if isinstance(n, ast.NamedExpr):
                    env.pop(n.target.id, None)
            if isinstance(val, ast.Constant):
                env[tgt.id] = "none" if val.value is None else ("true" if val.value is True else "false" if val.value is False else "notnone")
            elif isinstance(val, ast.Name) and env.get(val.id) is not None:
                env[tgt.id] = env[val.id]
            elif isinstance(val, (ast.Tuple, ast.List, ast.Dict, ast.Set, ast.JoinedStr, ast.Lambda)):
                env[tgt.id] = "notnone"
            else:
                env.pop(tgt.id, None)
            return
    for v in _stored_names(st):
        env.pop(v, None)


def _decide(test, env: dict):
    if isinstance(test, ast.UnaryOp) and isinstance(test.op, ast.Not):
        r = _decide(test.operand, env)
        return None if r is None else not r
    if isinstance(test, ast.BoolOp):
        rs = [_decide(v, env) for v in test.values]
        if isinstance(test.op, ast.And):
            for r in rs:
                if r is False:
                    return False
                if r is None:
                    return None
            return True
        for r in rs:
            if r is True:
                return True
            if r is None:
                return None
        return False
    if isinstance(test, ast.Compare) and len(test.ops) == 1 and isinstance(test.ops[0], (ast.Is, ast.IsNot)):
        left, right = test.left, test.comparators[0]
        if isinstance(left, ast.Name) and isinstance(right, ast.Constant) and right.value is None and env.get(left.id) is not None:
            is_none = env[left.id] == "none"
            return is_none if isinstance(test.ops[0], ast.Is) else not is_none
        return None
    if isinstance(test, ast.Name):
        k = env.get(test.id)
        if k in ("none", "false"):
            return False
        if k == "true":
            return True
    return None


def _fold_tail(tail: list, env: dict, stats: dict) -> list:
    out = []
    env = dict(env)
    for i, st in enumerate(tail):
        if isinstance(st, ast.If):
            r = _decide(st.test, env)
            if r is not None and not any(isinstance(n, (ast.NamedExpr, ast.Call, ast.Await)) for n in ast.walk(st.test)):
                stats["folds"] += 1
                chosen = st.body if r else st.orelse
                out.extend(_fold_tail(chosen + tail[i + 1 :], env, stats))
                return out
            benv, oenv = dict(env), dict(env)
            _cond_facts(st.test, True, benv)
            _cond_facts(st.test, False, oenv)
            st.body = _fold_tail(st.body, benv, stats) or [ast.copy_location(ast.Pass(), st)]
            st.orelse = _fold_tail(st.orelse, oenv, stats)
            out.append(st)
            # what holds after the statement: only what both falling-through branches agree on
            after = []
            if not _terminates(st.body):
                e_ = dict(benv)
                for x in st.body:
                    _assign_fact(x, e_) if not isinstance(x, (ast.If, ast.For, ast.While, ast.Try, ast.With, ast.AsyncFor, ast.AsyncWith)) else [e_.pop(v, None) for v in _stored_names(x)]
                after.append(e_)
            if not _terminates(st.orelse):
                e_ = dict(oenv)
                for x in st.orelse:
                    _assign_fact(x, e_) if not isinstance(x, (ast.If, ast.For, ast.While, ast.Try, ast.With, ast.AsyncFor, ast.AsyncWith)) else [e_.pop(v, None) for v in _stored_names(x)]
                after.append(e_)
            if not after:
                return out
            env = {k: v for k, v in after[0].items() if all(a.get(k) == v for a in after[1:])}
            continue
        out.append(st)
        if isinstance(st, _TERMINATORS):
            return out
        if isinstance(st, (ast.For, ast.While, ast.Try, ast.With, ast.AsyncFor, ast.AsyncWith, ast.FunctionDef, ast.AsyncFunctionDef, ast.ClassDef, ast.Match)):
            for v in _stored_names(st):
                env.pop(v, None)
        else:
            _assign_fact(st, env)
    return out


def _duplicable(st) -> bool:
    """Statements that may end up in several branches: miss exits."""
    if isinstance(st, (ast.Pass, ast.Continue, ast.Break)):
        return True
    if isinstance(st, ast.Return):
        return st.value is None or not any(isinstance(n, (ast.Call, ast.Await, ast.NamedExpr)) for n in ast.walk(st.value))
    if isinstance(st, ast.Raise):
        return not any(isinstance(n, (ast.Await, ast.NamedExpr)) for n in ast.walk(st))
    if isinstance(st, ast.If):
        return not any(isinstance(n, (ast.Call, ast.Await, ast.NamedExpr)) for n in ast.walk(st.test)) and all(_duplicable(x) for x in st.body + st.orelse)
    if isinstance(st, ast.Assign):
        return all(isinstance(t, ast.Name) for t in st.targets) and not any(isinstance(n, (ast.Call, ast.Await, ast.NamedExpr)) for n in ast.walk(st.value))
    return False


def _thread_block(block: list) -> bool:
    for i, st in enumerate(block[:-1]):
        if not isinstance(st, ast.If) or not st.orelse or not isinstance(block[i + 1], ast.If):
            continue
        tail = block[i + 1 :]
        if any(isinstance(n, (ast.FunctionDef, ast.AsyncFunctionDef, ast.ClassDef)) for t in tail for n in ast.walk(t)):
            continue
        tested = {n.id for n in ast.walk(block[i + 1].test) if isinstance(n, ast.Name)}
        if not tested & _stored_names(st):
            continue
        for k, t in enumerate(tail):
            for n in ast.walk(t):
                if isinstance(n, ast.stmt):
                    n._thread_tag = id(n)  # type: ignore[attr-defined]
        new_if = copy.deepcopy(st)
        stats = {"folds": 0}
        leaves = 0

        def extend(stmts: list, env: dict) -> list:
            nonlocal leaves
            env = dict(env)
            for x in stmts[:-1]:
                if isinstance(x, (ast.If, ast.For, ast.While, ast.Try, ast.With, ast.AsyncFor, ast.AsyncWith, ast.FunctionDef, ast.AsyncFunctionDef, ast.ClassDef, ast.Match)):
                    for v in _stored_names(x):
                        env.pop(v, None)
                else:
                    _assign_fact(x, env)
            if stmts and isinstance(stmts[-1], ast.If):
                last = stmts[-1]
                benv, oenv = dict(env), dict(env)
                for n in ast.walk(last.test):
                    if isinstance(n, ast.NamedExpr):
                        benv.pop(n.target.id, None)
                        oenv.pop(n.target.id, None)
                _cond_facts(last.test, True, benv)
                _cond_facts(last.test, False, oenv)
                last.body = extend(last.body, benv)
                last.orelse = extend(last.orelse, oenv)
                return stmts
            if stmts:
                x = stmts[-1]
                if isinstance(x, _TERMINATORS):
                    return stmts
                if isinstance(x, (ast.For, ast.While, ast.Try, ast.With, ast.AsyncFor, ast.AsyncWith, ast.FunctionDef, ast.AsyncFunctionDef, ast.ClassDef, ast.Match)):
                    for v in _stored_names(x):
                        env.pop(v, None)
                else:
                    _assign_fact(x, env)
            leaves += 1
            return stmts + _fold_tail(copy.deepcopy(tail), env, stats)

        new_block = extend([new_if], {})
        if stats["folds"] == 0 or leaves < 2:
            continue
        # nothing but miss exits may be duplicated
        seen: dict = {}
        for n in ast.walk(new_block[0]):
            if isinstance(n, ast.stmt) and hasattr(n, "_thread_tag"):
                seen.setdefault(n._thread_tag, []).append(n)
        if any(len(v) > 1 and not _duplicable(v[0]) for v in seen.values()):
            continue
        block[i:] = new_block
        return True
    return False


_COMPOUND = (ast.If, ast.For, ast.While, ast.Try, ast.With, ast.AsyncFor, ast.AsyncWith, ast.FunctionDef, ast.AsyncFunctionDef, ast.ClassDef, ast.Match)


def _scan_facts(stmts, env: dict) -> dict:
    env = dict(env)
    for x in stmts:
        if isinstance(x, _COMPOUND):
            for v in _stored_names(x):
                env.pop(v, None)
        else:
            _assign_fact(x, env)
    return env


def _thread_loop_exits(block: list) -> bool:
    """`for ..: if c: v = x; break` / `else: v = None` followed by `if v is not None: S`: the test
    after the loop only asks again which exit was taken.  When its outcome is known at every
    exit of the loop, the chosen branch moves to the exit and the test goes away."""
    for i, loop in enumerate(block[:-1]):
        nxt = block[i + 1]
        if not isinstance(loop, (ast.For, ast.AsyncFor, ast.While)) or not isinstance(nxt, ast.If):
            continue
        if any(isinstance(n, (ast.NamedExpr, ast.Call, ast.Await)) for n in ast.walk(nxt.test)):
            continue
        tested = {n.id for n in ast.walk(nxt.test) if isinstance(n, ast.Name)}
        if not tested & _stored_names(loop):
            continue
        exits: list = []  # (block, index of the break, env)
        ok = True

        def walk(stmts: list, env: dict) -> None:
            nonlocal ok
            env = dict(env)
            for k, x in enumerate(stmts):
                if isinstance(x, ast.Break):
                    exits.append((stmts, k, dict(env)))
                    return
                if isinstance(x, ast.If):
                    benv, oenv = dict(env), dict(env)
                    for n in ast.walk(x.test):
                        if isinstance(n, ast.NamedExpr):
                            benv.pop(n.target.id, None)
                            oenv.pop(n.target.id, None)
                    _cond_facts(x.test, True, benv)
                    _cond_facts(x.test, False, oenv)
                    walk(x.body, benv)
                    walk(x.orelse, oenv)
                    for v in _stored_names(x):
                        env.pop(v, None)
                elif isinstance(x, (ast.With, ast.AsyncWith)):
                    for v in _stored_names(x):
                        env.pop(v, None)
                    walk(x.body, env)
                elif isinstance(x, (ast.Try, ast.Match)):
                    if any(isinstance(n, ast.Break) for n in ast.walk(x)):
                        ok = False
                    for v in _stored_names(x):
                        env.pop(v, None)
                elif isinstance(x, _COMPOUND):
                    for v in _stored_names(x):
                        env.pop(v, None)
                else:
                    _assign_fact(x, env)

        walk(loop.body, {})
        if not ok or not exits:
            continue
        # the exit without break
        if loop.orelse:
            normal_env = None if _terminates(loop.orelse) else _scan_facts(loop.orelse, {})
        else:
            normal_env = _scan_facts(block[:i], {})
            # a variable survives the loop unchanged if every assignment to it is followed by a
            # break in the same block
            for v in _stored_names(loop):
                if v not in normal_env:
                    continue
                safe = True
                for owner in ast.walk(loop):
                    for fld in ("body", "orelse", "finalbody"):
                        blk = getattr(owner, fld, None)
                        if not isinstance(blk, list):
                            continue
                        for k, x in enumerate(blk):
                            if isinstance(x, ast.stmt) and not isinstance(x, _COMPOUND) and v in _stored_names(x):
                                if not any(isinstance(y, ast.Break) for y in blk[k + 1 :]) or any(isinstance(y, _COMPOUND) for y in blk[k + 1 :]):
                                    safe = False
                            elif isinstance(x, (ast.For, ast.AsyncFor, ast.With, ast.AsyncWith)) and owner is not loop and v in {n.id for t in ([x.target] if hasattr(x, "target") else [it.optional_vars for it in x.items if it.optional_vars is not None]) for n in ast.walk(t) if isinstance(n, ast.Name)}:
                                safe = False
                if isinstance(loop, (ast.For, ast.AsyncFor)) and v in {n.id for n in ast.walk(loop.target) if isinstance(n, ast.Name)}:
                    safe = False
                if not safe:
                    normal_env.pop(v, None)
        decisions = [_decide(nxt.test, env) for _b, _k, env in exits]
        normal_decision = None if normal_env is None else _decide(nxt.test, normal_env)
        if any(d is None for d in decisions) or (normal_env is not None and normal_decision is None):
            continue
        uses: dict = {True: 0, False: 0}
        for d in decisions:
            uses[d] += 1
        if normal_env is not None:
            uses[normal_decision] += 1
        if any(uses[d] > 1 and (nxt.body if d else nxt.orelse) and not all(_duplicable(x) for x in (nxt.body if d else nxt.orelse)) for d in (True, False)):
            continue
        for (blk, k, _env), d in sorted(zip(exits, decisions), key=lambda p_: -p_[0][1]):
            chosen = copy.deepcopy(nxt.body if d else nxt.orelse)
            if _terminates(chosen):
                blk[k:] = chosen
            else:
                blk[k:k] = chosen
        if normal_env is not None:
            chosen = copy.deepcopy(nxt.body if normal_decision else nxt.orelse)
            if chosen:
                loop.orelse = list(loop.orelse) + chosen
        del block[i + 1]
        return True
    return False



def _thread_branches(node) -> bool:
    changed = False
    for fld in ("body", "orelse", "finalbody"):
        block = getattr(node, fld, None)
        if not isinstance(block, list) or not block or not isinstance(block[0], ast.stmt):
            continue
        if not isinstance(node, (ast.Module, ast.ClassDef)):
            for _ in range(4):
                if not (_thread_block(block) or _thread_loop_exits(block)):
                    break
                changed = True
        for st in block:
            if _thread_branches(st):
                changed = True
    if isinstance(node, ast.Try):
        for h in node.handlers:
            if _thread_branches(h):
                changed = True
    return changed



# ---------------------------------------------------------------------------------------------
# G. materialised element lists.  `keys = [(t, name) for t in types]` followed only by
#    `for key in keys:` loops is the same as looping over `types` and forming the element in
#    the loop:   for t in types: ... (t, name) ...
#    Conditions: one generator without filter, a call-free element expression, the list is
#    bound once and used for nothing but plain `for` loops after it, nothing the element or
#    the iterable depend on is rebound afterwards, and the iterable is a local that is used
#    again later (so it is not a one-shot iterator).


def _pure_element(e) -> bool:
    return all(isinstance(n, (ast.Tuple, ast.Name, ast.Constant, ast.Attribute, ast.Subscript, ast.Load, ast.Store)) for n in ast.walk(e))


def _dematerialise_lists(tree: ast.Module) -> bool:
    changed = False
    for fn in ast.walk(tree):
        if not isinstance(fn, (ast.FunctionDef, ast.AsyncFunctionDef)):
            continue
        own = list(_own_walk(fn))
        order: dict = {}

        def _number(node):
            order[id(node)] = len(order)
            for c in ast.iter_child_nodes(node):
                _number(c)

        _number(fn)
        pos = lambda n: order.get(id(n), -1)  # noqa: E731  (document order; line numbers of inlined code are the helper's)
        stores: dict = {}
        for n in own:
            if isinstance(n, ast.Name) and isinstance(n.ctx, (ast.Store, ast.Del)):
                stores.setdefault(n.id, []).append(n)
        captured = {x.id for sub in own if isinstance(sub, (ast.FunctionDef, ast.AsyncFunctionDef, ast.Lambda)) for x in ast.walk(sub) if isinstance(x, ast.Name)}
        params = {a.arg for a in fn.args.posonlyargs + fn.args.args + fn.args.kwonlyargs}
        for st in own:
            if not (isinstance(st, ast.Assign) and len(st.targets) == 1 and isinstance(st.targets[0], ast.Name) and isinstance(st.value, ast.ListComp)):
                continue
            lst = st.targets[0].id
            comp = st.value
            if len(comp.generators) != 1:
                continue
            g = comp.generators[0]
            if g.ifs or g.is_async or not isinstance(g.target, ast.Name) or not isinstance(g.iter, ast.Name) or not _pure_element(comp.elt):
                continue
            if len(stores.get(lst, [])) != 1 or lst in captured or lst in params:
                continue
            src = g.iter.id
            deps = {x.id for x in ast.walk(comp.elt) if isinstance(x, ast.Name)} - {g.target.id} | {src}
            if any(pos(s_) > pos(st) for d in deps for s_ in stores.get(d, [])) or deps & captured - params:
                continue
            loads = [n for n in own if isinstance(n, ast.Name) and n.id == lst and isinstance(n.ctx, ast.Load)]
            loops = [n for n in own if isinstance(n, ast.For) and isinstance(n.iter, ast.Name) and n.iter.id == lst and isinstance(n.target, ast.Name) and pos(n) > pos(st)]
            if not loops or {id(l.iter) for l in loops} != {id(x) for x in loads}:
                continue
            comp_nodes = {id(x) for x in ast.walk(comp)}
            if not any(isinstance(n, ast.Name) and n.id == src and isinstance(n.ctx, ast.Load) and id(n) not in comp_nodes and pos(n) > pos(st) for n in own):
                continue
            ok = True
            for lp in loops:
                k = lp.target.id
                inside = {id(x) for x in ast.walk(lp)}
                if len(stores.get(k, [])) != 1 or k in captured:
                    ok = False
                if any(isinstance(n, ast.Name) and n.id == k and isinstance(n.ctx, ast.Load) and id(n) not in inside for n in own):
                    ok = False
            if not ok:
                continue
            for lp in loops:
                tv = f"_kl{next(_counter)}_{g.target.id}"
                elt = _Rename({g.target.id: tv}).visit(copy.deepcopy(comp.elt))
                k = lp.target.id

                class S(ast.NodeTransformer):
                    def visit_Name(self, node):
                        if node.id == k and isinstance(node.ctx, ast.Load):
                            return ast.copy_location(copy.deepcopy(elt), node)
                        return node

                lp.body = [S().visit(b) for b in lp.body]
                lp.orelse = [S().visit(b) for b in lp.orelse]
                lp.target = ast.copy_location(ast.Name(id=tv, ctx=ast.Store()), lp.target)
                lp.iter = ast.copy_location(ast.Name(id=src, ctx=ast.Load()), lp.iter)
            for owner in ast.walk(fn):
                for fld in ("body", "orelse", "finalbody"):
                    blk = getattr(owner, fld, None)
                    if isinstance(blk, list) and st in blk:
                        kept = [x for x in blk if x is not st]
                        setattr(owner, fld, kept or [ast.copy_location(ast.Pass(), st)])
            changed = True
            break  # indices are stale: the next round picks up further lists
    return changed



def _annotate_raises(tree: ast.Module) -> None:
    """`exc = Cls(...)` ... `raise exc`: remember what the name is bound to (single binding)."""
    for fn in ast.walk(tree):
        if not isinstance(fn, (ast.FunctionDef, ast.AsyncFunctionDef)):
            continue
        binds: dict = {}
        for n in ast.walk(fn):
            if isinstance(n, ast.Assign) and len(n.targets) == 1 and isinstance(n.targets[0], ast.Name):
                binds.setdefault(n.targets[0].id, []).append(n.value)
            elif isinstance(n, (ast.AnnAssign, ast.AugAssign, ast.NamedExpr)) and isinstance(n.target, ast.Name):
                binds.setdefault(n.target.id, []).append(getattr(n, "value", None))
            elif isinstance(n, ast.ExceptHandler) and n.name:
                binds.setdefault(n.name, []).append(None)
            elif isinstance(n, (ast.For, ast.AsyncFor, ast.With, ast.AsyncWith)):
                for x in ast.walk(n.target if isinstance(n, (ast.For, ast.AsyncFor)) else ast.Tuple(elts=[i.optional_vars for i in n.items if i.optional_vars is not None])):
                    if isinstance(x, ast.Name):
                        binds.setdefault(x.id, []).append(None)
        for n in ast.walk(fn):
            if isinstance(n, ast.Raise) and isinstance(n.exc, ast.Name):
                vals = binds.get(n.exc.id, [])
                if len(vals) == 1 and isinstance(vals[0], ast.Call):
                    n._exc_resolved = vals[0]  # type: ignore[attr-defined]


def _chain_text(e):
    """`a.b.c` for an attribute chain rooted at a Name, else None."""
    parts = []
    while isinstance(e, ast.Attribute):
        parts.append(e.attr)
        e = e.value
    if isinstance(e, ast.Name):
        return ".".join([e.id] + list(reversed(parts)))
    return None


def _own_walk(fn):
    """Nodes of a function body without descending into nested defs / lambdas / classes."""
    stack = list(fn.body)
    while stack:
        n = stack.pop()
        yield n
        if isinstance(n, (ast.FunctionDef, ast.AsyncFunctionDef, ast.ClassDef, ast.Lambda)):
            continue
        stack.extend(ast.iter_child_nodes(n))


def _inline_local_aliases(tree: ast.Module) -> bool:
    """`pending = self._hooks` ... `pending.pop()`  ->  `self._hooks.pop()`.

    A local that is bound exactly once, at the top level of the function body, to an attribute
    chain rooted at a parameter, is the same object as the chain for as long as no prefix of the
    chain is rebound in the function; its later uses are replaced by the chain; a binding
    without remaining uses is dropped."""
    changed = False
    for fn in ast.walk(tree):
        if not isinstance(fn, (ast.FunctionDef, ast.AsyncFunctionDef)):
            continue
        params = {a.arg for a in fn.args.posonlyargs + fn.args.args + fn.args.kwonlyargs}
        stores: dict = {}
        rebound_chains = set()
        declared = set()
        for n in _own_walk(fn):
            if isinstance(n, (ast.Global, ast.Nonlocal)):
                declared |= set(n.names)
            elif isinstance(n, ast.Name) and isinstance(n.ctx, (ast.Store, ast.Del)):
                stores[n.id] = stores.get(n.id, 0) + 1
            elif isinstance(n, ast.ExceptHandler) and n.name:
                stores[n.name] = stores.get(n.name, 0) + 1
            elif isinstance(n, ast.Attribute) and isinstance(n.ctx, (ast.Store, ast.Del)):
                c = _chain_text(n)
                if c:
                    rebound_chains.add(c)
        captured = {x.id for sub in _own_walk(fn) if isinstance(sub, (ast.FunctionDef, ast.AsyncFunctionDef, ast.Lambda)) for x in ast.walk(sub) if isinstance(x, ast.Name)}
        aliases = {}
        loop_targets = {n.target.id: n for n in _own_walk(fn) if isinstance(n, (ast.For, ast.AsyncFor)) and isinstance(n.target, ast.Name)}
        for st in _own_walk(fn):
            if isinstance(st, ast.Assign) and len(st.targets) == 1 and isinstance(st.targets[0], ast.Name):
                v = st.targets[0].id
                chain = _chain_text(st.value) if isinstance(st.value, ast.Attribute) else None
                if chain is None or stores.get(v) != 1 or v in declared or v in params or v in captured:
                    continue
                root = chain.split(".")[0]
                if root in loop_targets and stores.get(root) == 1 and root not in params:
                    # rooted at the variable of a `for` loop: good for the rest of the iteration,
                    # i.e. when binding and uses all sit in that loop's body
                    loop = loop_targets[root]
                    if st not in loop.body:
                        continue
                    inside = {id(x) for b in loop.body for x in ast.walk(b)}
                    if any(isinstance(x, ast.Name) and x.id == v and isinstance(x.ctx, ast.Load) and (id(x) not in inside or x.lineno <= st.lineno) for x in ast.walk(fn)):
                        continue
                elif root not in params or stores.get(root):
                    continue
                prefixes = {".".join(chain.split(".")[: i + 1]) for i in range(1, len(chain.split(".")))}
                if prefixes & rebound_chains:
                    continue
                aliases[v] = (st, st.value)
        if not aliases:
            continue

        class R(ast.NodeTransformer):
            def visit_FunctionDef(self, node):
                return node

            visit_AsyncFunctionDef = visit_FunctionDef
            visit_Lambda = visit_FunctionDef
            visit_ClassDef = visit_FunctionDef

            def visit_Name(self, node):
                nonlocal changed
                if isinstance(node.ctx, ast.Load) and node.id in aliases and node.lineno > aliases[node.id][0].lineno:
                    changed = True
                    return ast.copy_location(copy.deepcopy(aliases[node.id][1]), node)
                return node

        r = R()
        for i, st in enumerate(fn.body):
            fn.body[i] = r.visit(st)
        # a binding none of whose uses is left is dropped (reading the chain has no effect)
        left = {x.id for x in ast.walk(fn) if isinstance(x, ast.Name) and isinstance(x.ctx, ast.Load)}
        dead = [st for v, (st, _e) in aliases.items() if v not in left]
        if dead:
            for owner in ast.walk(fn):
                for fld in ("body", "orelse", "finalbody"):
                    blk = getattr(owner, fld, None)
                    if isinstance(blk, list) and any(d in blk for d in dead):
                        kept = [x for x in blk if x not in dead]
                        setattr(owner, fld, kept or [ast.copy_location(ast.Pass(), blk[0])])
                        changed = True
    return changed


def _propagate_name_copies(tree: ast.Module) -> bool:
    """`v = w` where both names are bound exactly once (w: a parameter that is never rebound or
    a local with a single plain assignment) and the copy is not made inside a loop: v is w
    from then on, in the function and in the closures it defines.  Uses of v become w and the
    copy goes away.  (Produced by record scalarisation: `rec__field = arg`.)"""
    changed = False
    for fn in ast.walk(tree):
        if not isinstance(fn, (ast.FunctionDef, ast.AsyncFunctionDef)):
            continue
        own = list(_own_walk(fn))
        params = {a.arg for a in fn.args.posonlyargs + fn.args.args + fn.args.kwonlyargs}
        if fn.args.vararg:
            params.add(fn.args.vararg.arg)
        if fn.args.kwarg:
            params.add(fn.args.kwarg.arg)
        stores: dict = {}
        declared = set()
        for n in own:
            if isinstance(n, ast.Name) and isinstance(n.ctx, (ast.Store, ast.Del)):
                stores[n.id] = stores.get(n.id, 0) + 1
            elif isinstance(n, ast.ExceptHandler) and n.name:
                stores[n.name] = stores.get(n.name, 0) + 1
            elif isinstance(n, (ast.Global, ast.Nonlocal)):
                declared |= set(n.names)
            elif isinstance(n, (ast.FunctionDef, ast.AsyncFunctionDef, ast.ClassDef)):
                stores[n.name] = stores.get(n.name, 0) + 1
            elif isinstance(n, (ast.Import, ast.ImportFrom)):
                for al in n.names:
                    nm = (al.asname or al.name).split(".")[0]
                    stores[nm] = stores.get(nm, 0) + 1
        nested = [n for n in own if isinstance(n, (ast.FunctionDef, ast.AsyncFunctionDef, ast.Lambda))]
        nested_bound = set()  # names a nested scope binds itself or rebinds through nonlocal
        for sub in nested:
            for x in ast.walk(sub):
                if isinstance(x, ast.Name) and isinstance(x.ctx, (ast.Store, ast.Del)):
                    nested_bound.add(x.id)
                elif isinstance(x, ast.arg):
                    nested_bound.add(x.arg)
                elif isinstance(x, (ast.Global, ast.Nonlocal)):
                    nested_bound |= set(x.names)
                elif isinstance(x, ast.ExceptHandler) and x.name:
                    nested_bound.add(x.name)
                elif isinstance(x, (ast.FunctionDef, ast.AsyncFunctionDef, ast.ClassDef)) and x is not sub:
                    nested_bound.add(x.name)
        in_loop = set()
        for n in own:
            if isinstance(n, (ast.For, ast.AsyncFor, ast.While)):
                for x in ast.walk(n):
                    in_loop.add(id(x))
        plain_assigned = {}
        for n in own:
            if isinstance(n, ast.Assign) and len(n.targets) == 1 and isinstance(n.targets[0], ast.Name):
                plain_assigned.setdefault(n.targets[0].id, []).append(n)
            elif isinstance(n, ast.AnnAssign) and isinstance(n.target, ast.Name) and n.value is not None:
                plain_assigned.setdefault(n.target.id, []).append(n)
        copies = {}
        renames_early: dict = {}
        for st in own:
            if not (isinstance(st, ast.Assign) and len(st.targets) == 1 and isinstance(st.targets[0], ast.Name) and isinstance(st.value, ast.Name)):
                continue
            v, w = st.targets[0].id, st.value.id
            if v == w or v in params or v in declared or w in declared or v in nested_bound or w in nested_bound:
                continue
            if stores.get(v) != 1:
                # v is rebound later, but it only comes into being here, from a synthetic
                # temporary that is not looked at again: the temporary was v all along
                if _SYNTHETIC.match(w) and not _SYNTHETIC.match(v) and id(st) not in in_loop and w not in params and st in fn.body:
                    k_ = fn.body.index(st)
                    before = {id(x) for b in fn.body[:k_] for x in ast.walk(b)}
                    after = {id(x) for b in fn.body[k_ + 1 :] for x in ast.walk(b)}
                    v_occ = [x for x in ast.walk(fn) if isinstance(x, ast.Name) and x.id == v and x is not st.targets[0]]
                    w_occ = [x for x in ast.walk(fn) if isinstance(x, ast.Name) and x.id == w and x is not st.value]
                    if all(id(x) in after for x in v_occ) and all(id(x) in before for x in w_occ) and not any(isinstance(x, ast.arg) and x.arg in (v, w) for sub in nested for x in ast.walk(sub)):
                        renames_early[w] = (v, st)
                continue
            if id(st) in in_loop:
                # inside a loop: good for the rest of the iteration when w is (re)bound earlier
                # in the same block, v is only used later in that block, and no closure sees them
                blk = next((b for o in own + [fn] for f_ in ("body", "orelse", "finalbody") for b in [getattr(o, f_, None)] if isinstance(b, list) and st in b), None)
                wdefs = plain_assigned.get(w, [])
                if blk is None or stores.get(w) != 1 or len(wdefs) != 1 or wdefs[0] not in blk or blk.index(wdefs[0]) > blk.index(st):
                    continue
                later = {id(x) for b in blk[blk.index(st) + 1 :] for x in ast.walk(b)}
                if any(isinstance(x, ast.Name) and x.id == v and isinstance(x.ctx, ast.Load) and id(x) not in later for x in ast.walk(fn)):
                    continue
                if any(isinstance(x, ast.Name) and x.id in (v, w) for sub in nested for x in ast.walk(sub)):
                    continue
            elif w in params:
                if stores.get(w):
                    continue
            elif not (stores.get(w) == 1 and len(plain_assigned.get(w, [])) == 1 and id(plain_assigned[w][0]) not in in_loop):
                continue
            if w in copies or v in {c for c, _s in copies.values()}:
                continue  # chains are resolved in the next round
            copies[v] = (w, st)
        if renames_early and not copies:
            w, (v, st) = next(iter(renames_early.items()))

            class RE(ast.NodeTransformer):
                def visit_Name(self, node):
                    if node.id == w:
                        return ast.copy_location(ast.Name(id=v, ctx=node.ctx), node)
                    return node

            fn.body = [RE().visit(b) for b in fn.body if b is not st]
            changed = True
            continue
        if not copies:
            continue

        # keep the name the code uses: a synthetic temporary (from inlining) takes the name of
        # the variable it is copied into, not the other way round
        mapping = {}
        for v, (w, _st) in copies.items():
            if _SYNTHETIC.match(w) and not _SYNTHETIC.match(v) and w not in params and w not in mapping.values():
                mapping[w] = v
            else:
                mapping[v] = w

        class R(ast.NodeTransformer):
            def visit_Name(self, node):
                if node.id in mapping:
                    return ast.copy_location(ast.Name(id=mapping[node.id], ctx=node.ctx), node)
                return node

        dead = [st for _w, st in copies.values()]
        for owner in ast.walk(fn):
            for fld in ("body", "orelse", "finalbody"):
                blk = getattr(owner, fld, None)
                if isinstance(blk, list) and any(d in blk for d in dead):
                    kept = [x for x in blk if x not in dead]
                    setattr(owner, fld, kept or [ast.copy_location(ast.Pass(), blk[0])])
        fn.body = [R().visit(b) for b in fn.body]
        changed = True
    return changed


_CONST_VALUE = (ast.Constant,)


def _is_const_value(e) -> bool:
    if isinstance(e, ast.Constant):
        return not isinstance(e.value, (bytes,)) or True
    if isinstance(e, ast.UnaryOp) and isinstance(e.op, ast.USub) and isinstance(e.operand, ast.Constant):
        return True
    if isinstance(e, ast.Attribute):
        return _chain_text(e) is not None
    if isinstance(e, ast.Tuple):
        return all(_is_const_value(x) or isinstance(x, ast.Name) for x in e.elts)
    return False


def _inline_module_constants(tree: ast.Module) -> bool:
    """A module-level name bound exactly once to a literal (number, string, tuple of such, or a
    dotted name such as `signal.SIGTERM` / `ContextState.closing`) is replaced by the literal
    inside the functions of that module (hoisting a constant out of a function is a no-op)."""
    binds: dict = {}
    counts: dict = {}
    for st in tree.body:
        tg = None
        if isinstance(st, ast.Assign) and len(st.targets) == 1 and isinstance(st.targets[0], ast.Name):
            tg, val = st.targets[0].id, st.value
        elif isinstance(st, ast.AnnAssign) and isinstance(st.target, ast.Name) and st.value is not None:
            tg, val = st.target.id, st.value
        if tg is not None:
            counts[tg] = counts.get(tg, 0) + 1
            if _is_const_value(val):
                binds[tg] = val
    for n in ast.walk(tree):
        if isinstance(n, ast.Global):
            for x in n.names:
                counts[x] = 99
        elif isinstance(n, ast.Name) and isinstance(n.ctx, (ast.Store, ast.Del)) and n.id in binds:
            counts[n.id] = counts.get(n.id, 0) + 1
    # every Store counted twice for the binding itself (once above, once in the walk)
    consts = {k: v for k, v in binds.items() if counts.get(k) == 2 and k != "__all__" and not (k.startswith("__") and k.endswith("__"))}
    if not consts:
        return False
    changed = False
    for fn in ast.walk(tree):
        if not isinstance(fn, (ast.FunctionDef, ast.AsyncFunctionDef)):
            continue
        local = {a.arg for a in fn.args.posonlyargs + fn.args.args + fn.args.kwonlyargs}
        local |= {x.id for x in ast.walk(fn) if isinstance(x, ast.Name) and isinstance(x.ctx, (ast.Store, ast.Del))}

        class R(ast.NodeTransformer):
            def visit_Name(self, node):
                nonlocal changed
                if isinstance(node.ctx, ast.Load) and node.id in consts and node.id not in local:
                    if any(isinstance(x, ast.Name) and x.id in local for x in ast.walk(consts[node.id])):
                        return node  # a name in the constant's value is shadowed here
                    changed = True
                    return ast.copy_location(copy.deepcopy(consts[node.id]), node)
                return node

        r = R()
        fn.body = [r.visit(st) for st in fn.body]
    return changed


def _inline_module_records(tree: ast.Module) -> bool:
    """`_PREPARE = _LifecycleCall("preparing", "...")` at module level (a private NamedTuple /
    frozen dataclass built from literals, bound once): `_PREPARE.error_phase` inside the module's
    functions is the literal."""
    recs: dict = {}
    for st in tree.body:
        if isinstance(st, ast.ClassDef) and st.name.startswith("_"):
            is_nt = any("NamedTuple" in ast.unparse(b) for b in st.bases)
            is_dc = any("dataclass" in ast.unparse(d) and "frozen=True" in ast.unparse(d) for d in st.decorator_list)
            if is_nt or is_dc:
                fields = [x.target.id for x in st.body if isinstance(x, ast.AnnAssign) and isinstance(x.target, ast.Name)]
                if fields:
                    recs[st.name] = fields
    if not recs:
        return False
    consts: dict = {}
    counts: dict = {}
    for st in tree.body:
        if isinstance(st, ast.Assign) and len(st.targets) == 1 and isinstance(st.targets[0], ast.Name):
            nm = st.targets[0].id
            counts[nm] = counts.get(nm, 0) + 1
            v = st.value
            if isinstance(v, ast.Call) and isinstance(v.func, ast.Name) and v.func.id in recs and not any(isinstance(a, ast.Starred) for a in v.args) and all(k.arg for k in v.keywords):
                fields = recs[v.func.id]
                vals = {}
                for i, a in enumerate(v.args):
                    if i < len(fields):
                        vals[fields[i]] = a
                for k in v.keywords:
                    vals[k.arg] = k.value
                if set(vals) == set(fields) and all(_is_const_value(x) for x in vals.values()):
                    consts[nm] = vals
    for n in ast.walk(tree):
        if isinstance(n, ast.Global):
            for x in n.names:
                counts[x] = 99
        elif isinstance(n, ast.Name) and isinstance(n.ctx, (ast.Store, ast.Del)) and n.id in consts:
            counts[n.id] = counts.get(n.id, 0) + 1
    consts = {k: v for k, v in consts.items() if counts.get(k) == 2}
    if not consts:
        return False
    changed = False
    for fn in ast.walk(tree):
        if not isinstance(fn, (ast.FunctionDef, ast.AsyncFunctionDef)):
            continue
        local = {a.arg for a in fn.args.posonlyargs + fn.args.args + fn.args.kwonlyargs}
        local |= {x.id for x in ast.walk(fn) if isinstance(x, ast.Name) and isinstance(x.ctx, (ast.Store, ast.Del))}

        class R(ast.NodeTransformer):
            def visit_Attribute(self, node):
                nonlocal changed
                self.generic_visit(node)
                if isinstance(node.ctx, ast.Load) and isinstance(node.value, ast.Name) and node.value.id in consts and node.value.id not in local and node.attr in consts[node.value.id]:
                    changed = True
                    return ast.copy_location(copy.deepcopy(consts[node.value.id][node.attr]), node)
                return node

        r = R()
        fn.body = [r.visit(st) for st in fn.body]
    return changed


def _flatten_star_tuples(tree: ast.Module) -> bool:
    """`f(*(a, b), c)` -> `f(a, b, c)`"""
    changed = False
    for n in ast.walk(tree):
        if isinstance(n, ast.Call) and any(isinstance(a, ast.Starred) and isinstance(a.value, (ast.Tuple, ast.List)) and not any(isinstance(e, ast.Starred) for e in a.value.elts) for a in n.args):
            new = []
            for a in n.args:
                if isinstance(a, ast.Starred) and isinstance(a.value, (ast.Tuple, ast.List)) and not any(isinstance(e, ast.Starred) for e in a.value.elts):
                    new.extend(a.value.elts)
                    changed = True
                else:
                    new.append(a)
            n.args = new
        # `getattr(x, "name")` (two arguments, literal identifier) is `x.name`
        if isinstance(n, ast.Call) and isinstance(n.func, ast.Name) and n.func.id == "getattr" and len(n.args) == 2 and not n.keywords and isinstance(n.args[1], ast.Constant) and isinstance(n.args[1].value, str) and n.args[1].value.isidentifier() and not n.args[1].value.startswith("__"):
            n.__class__ = ast.Attribute
            n.value, n.attr, n.ctx = n.args[0], n.args[1].value, ast.Load()
            del n.func, n.args, n.keywords
            n._fields = ast.Attribute._fields
            changed = True
            continue
        # `f(**{"k": v})` -> `f(k=v)`, `f(**{})` -> `f()`
        if isinstance(n, ast.Call) and any(k.arg is None and isinstance(k.value, ast.Dict) and all(isinstance(x, ast.Constant) and isinstance(x.value, str) and x.value.isidentifier() for x in k.value.keys) for k in n.keywords):
            newk = []
            for k in n.keywords:
                if k.arg is None and isinstance(k.value, ast.Dict) and all(isinstance(x, ast.Constant) and isinstance(x.value, str) and x.value.isidentifier() for x in k.value.keys):
                    for kk, vv in zip(k.value.keys, k.value.values):
                        newk.append(ast.copy_location(ast.keyword(arg=kk.value, value=vv), k))
                    changed = True
                else:
                    newk.append(k)
            if len({k.arg for k in newk if k.arg}) == len([k for k in newk if k.arg]):
                n.keywords = newk
    return changed


def _literal(e) -> bool:
    return all(isinstance(n, (ast.Dict, ast.Tuple, ast.List, ast.Set, ast.Constant, ast.Name, ast.Attribute, ast.Load)) for n in ast.walk(e))


def _forward_literals(tree: ast.Module) -> bool:
    """`args = (a, b)` ... `f(*args)`: a local bound to a literal display / plain name whose
    only use follows in the same straight-line block (nothing it mentions is rebound in
    between) is replaced by the literal at that use."""
    changed = False
    for fn in ast.walk(tree):
        if not isinstance(fn, (ast.FunctionDef, ast.AsyncFunctionDef)):
            continue
        loads: dict = {}
        stores: dict = {}
        for n in ast.walk(fn):
            if isinstance(n, ast.Name):
                d = loads if isinstance(n.ctx, ast.Load) else stores
                d[n.id] = d.get(n.id, 0) + 1
            elif isinstance(n, (ast.Global, ast.Nonlocal)):
                for x in n.names:
                    stores[x] = stores.get(x, 0) + 100
        params = {a.arg for a in fn.args.posonlyargs + fn.args.args + fn.args.kwonlyargs}
        pairs: dict = {}
        for owner in ast.walk(fn):
            for fld in ("body", "orelse", "finalbody"):
                block = getattr(owner, fld, None)
                if not isinstance(block, list):
                    continue
                for k, st in enumerate(block):
                    if not (isinstance(st, ast.Assign) and len(st.targets) == 1 and isinstance(st.targets[0], ast.Name) and _literal(st.value)):
                        continue
                    v = st.targets[0].id
                    if v in params or isinstance(st.value, ast.Constant):
                        continue
                    read = {n.id for n in ast.walk(st.value) if isinstance(n, ast.Name)} | {v}
                    reads_attrs = any(isinstance(n, ast.Attribute) for n in ast.walk(st.value))
                    for m in range(k + 1, len(block)):
                        x = block[m]
                        if isinstance(x, _COMPOUND):
                            break
                        uses = [n for n in ast.walk(x) if isinstance(n, ast.Name) and n.id == v and isinstance(n.ctx, ast.Load)]
                        if uses:
                            ok = len(uses) == 1 and not any(isinstance(n, (ast.Lambda, ast.ListComp, ast.DictComp, ast.SetComp, ast.GeneratorExp, ast.NamedExpr)) for n in ast.walk(x))
                            if ok and reads_attrs:
                                # an attribute is read later than before: nothing may run in between
                                ok = all(any(y is uses[0] for y in ast.walk(c)) for c in ast.walk(x) if isinstance(c, (ast.Call, ast.Await)))
                            if ok:
                                pairs.setdefault(v, []).append((block, st, x, uses[0]))
                            break
                        if _stored_names(x) & read:
                            break
                        if reads_attrs and any(isinstance(n, (ast.Call, ast.Await)) or (isinstance(n, (ast.Attribute, ast.Subscript)) and isinstance(n.ctx, (ast.Store, ast.Del))) for n in ast.walk(x)):
                            break
        for v, ps in pairs.items():
            if not (stores.get(v) == loads.get(v) == len(ps)):
                continue
            # only worth it for displays that are unpacked / subscripted at the use, or copies
            for block, st, x, use in ps:
                val = st.value

                class S(ast.NodeTransformer):
                    def visit_Name(self, node):
                        if node is use:
                            return ast.copy_location(copy.deepcopy(val), node)
                        return node

                block[block.index(x)] = S().visit(x)
                block.remove(st)
                changed = True
    return changed


def _forward_whole_values(tree: ast.Module) -> bool:
    """`t = E` directly followed by `X[k] = t` / `return t` / `y = t`, t a synthetic temporary
    used nowhere else: the statement takes E as its value (E is evaluated at the same point)."""
    changed = False
    for fn in ast.walk(tree):
        if not isinstance(fn, (ast.FunctionDef, ast.AsyncFunctionDef)):
            continue
        loads: dict = {}
        stores: dict = {}
        for n in ast.walk(fn):
            if isinstance(n, ast.Name):
                d = loads if isinstance(n.ctx, ast.Load) else stores
                d[n.id] = d.get(n.id, 0) + 1
        for owner in ast.walk(fn):
            for fld in ("body", "orelse", "finalbody"):
                blk = getattr(owner, fld, None)
                if not isinstance(blk, list):
                    continue
                i = 0
                while i + 1 < len(blk):
                    st, nxt = blk[i], blk[i + 1]
                    if (
                        isinstance(st, ast.Assign)
                        and len(st.targets) == 1
                        and isinstance(st.targets[0], ast.Name)
                        and _SYNTHETIC.match(st.targets[0].id)
                        and loads.get(st.targets[0].id) == 1
                        and stores.get(st.targets[0].id) == 1
                        and isinstance(nxt, (ast.Assign, ast.Return))
                        and isinstance(nxt.value, ast.Name)
                        and nxt.value.id == st.targets[0].id
                    ):
                        nxt.value = st.value
                        del blk[i]
                        changed = True
                        continue
                    i += 1
    return changed


def _split_tuple_assign(st):
    """`a, b = x, y` -> `a = x` / `b = y` when no target occurs in a value."""
    if not (isinstance(st, ast.Assign) and len(st.targets) == 1 and isinstance(st.targets[0], ast.Tuple) and isinstance(st.value, ast.Tuple)):
        return None
    tg, vals = st.targets[0].elts, st.value.elts
    if len(tg) != len(vals) or not all(isinstance(t, ast.Name) for t in tg) or any(isinstance(v, ast.Starred) for v in vals):
        return None
    tnames = {t.id for t in tg}
    if len(tnames) != len(tg) or any(isinstance(x, ast.Name) and x.id in tnames for v in vals for x in ast.walk(v)):
        return None
    return [ast.copy_location(ast.Assign(targets=[t], value=v, lineno=st.lineno), st) for t, v in zip(tg, vals)]


def _sink_into_branches(tree: ast.Module) -> bool:
    """`if c: t = A` / `else: t = B` followed by one simple statement S that holds the only use
    of t (and t is bound nowhere else): S moves into the branches with the literal in t's
    place.  Undoes the detour an inlined option-building helper leaves behind
    (`f(x, **opts(dep))`, `for name, args, kwargs in lookups(): f(*args, **kwargs)`)."""
    changed = False
    for fn in ast.walk(tree):
        if not isinstance(fn, (ast.FunctionDef, ast.AsyncFunctionDef)):
            continue
        loads: dict = {}
        stores: dict = {}
        for n in ast.walk(fn):
            if isinstance(n, ast.Name):
                d = loads if isinstance(n.ctx, ast.Load) else stores
                d[n.id] = d.get(n.id, 0) + 1
        for owner in list(ast.walk(fn)):
            for fld in ("body", "orelse", "finalbody"):
                block = getattr(owner, fld, None)
                if not isinstance(block, list):
                    continue
                for i, st in enumerate(block[:-1]):
                    nxt = block[i + 1]
                    if not isinstance(st, ast.If) or not st.orelse or not isinstance(nxt, (ast.Assign, ast.Expr, ast.Return, ast.AugAssign, ast.AnnAssign)):
                        continue
                    if any(isinstance(n, (ast.Lambda, ast.ListComp, ast.DictComp, ast.SetComp, ast.GeneratorExp, ast.NamedExpr)) for n in ast.walk(nxt)):
                        continue
                    leaves: list = []  # (block, {name: (assign stmt, value)})

                    def collect(stmts) -> bool:
                        if not stmts:
                            return False
                        last = stmts[-1]
                        if isinstance(last, ast.If):
                            return collect(last.body) and collect(last.orelse)
                        if isinstance(last, _TERMINATORS):
                            return True
                        run: dict = {}
                        for x in reversed(stmts):
                            if isinstance(x, ast.Assign) and len(x.targets) == 1 and isinstance(x.targets[0], ast.Name) and _literal(x.value) and x.targets[0].id not in run:
                                run[x.targets[0].id] = (x, x.value)
                            else:
                                break
                        if not run:
                            return False
                        read = {n.id for _x, v in run.values() for n in ast.walk(v) if isinstance(n, ast.Name)}
                        if read & set(run):
                            return False
                        leaves.append((stmts, run))
                        return True

                    if not collect([st]) or len(leaves) < 2:
                        continue
                    used_in_nxt: dict = {}
                    for n in ast.walk(nxt):
                        if isinstance(n, ast.Name) and isinstance(n.ctx, ast.Load):
                            used_in_nxt[n.id] = used_in_nxt.get(n.id, 0) + 1
                    common = set.intersection(*[set(run) for _b, run in leaves])
                    V = {v for v in common if loads.get(v) == 1 and used_in_nxt.get(v) == 1 and stores.get(v) == len(leaves)}
                    if not V or not any(not isinstance(run[v][1], ast.Name) for _b, run in leaves for v in V):
                        continue
                    if any(isinstance(n, ast.Attribute) for _b, run in leaves for v in V for n in ast.walk(run[v][1])):
                        # attributes would be read later than before: nothing may run in between
                        attr_vars = {v for v in V if any(isinstance(n, ast.Attribute) for _b, run in leaves for n in ast.walk(run[v][1]))}
                        use_nodes = [n for n in ast.walk(nxt) if isinstance(n, ast.Name) and n.id in attr_vars and isinstance(n.ctx, ast.Load)]
                        if not all(all(any(y is u for y in ast.walk(c)) for u in use_nodes) for c in ast.walk(nxt) if isinstance(c, (ast.Call, ast.Await))):
                            continue
                    for blk, run in leaves:
                        class S(ast.NodeTransformer):
                            def visit_Name(self, node, run=run):
                                if node.id in V and isinstance(node.ctx, ast.Load):
                                    return ast.copy_location(copy.deepcopy(run[node.id][1]), node)
                                return node

                        drop = {id(run[v][0]) for v in V}
                        blk[:] = [x for x in blk if id(x) not in drop] + [S().visit(copy.deepcopy(nxt))]
                    del block[i + 1]
                    changed = True
                    break
    return changed


def normalize_tree(tree: ast.Module) -> bool:
    _annotate_raises(tree)
    changed_any = False
    if _flatten_star_tuples(tree):
        changed_any = True
    if not getattr(tree, "_norm_consts_done", False):
        if _inline_module_constants(tree):
            changed_any = True
        tree._norm_consts_done = True  # type: ignore[attr-defined]
    if _inline_module_records(tree):  # every time: inlining exposes new `CONST.field` reads
        changed_any = True
    for _ in range(4):  # aliases of aliases
        if not (_inline_local_aliases(tree) | _propagate_name_copies(tree)):
            break
        changed_any = True
    for _ in range(6):
        if not _rewrite_blocks(tree):
            break
        changed_any = True
    for _ in range(4):
        if not _dematerialise_lists(tree):
            break
        changed_any = True
    for _ in range(3):
        if not (_sink_into_branches(tree) | _forward_literals(tree) | _forward_whole_values(tree)):
            break
        changed_any = True
        _flatten_star_tuples(tree)
        while _rewrite_blocks(tree):
            pass
    if _thread_branches(tree):
        changed_any = True
    if changed_any:
        ast.fix_missing_locations(tree)
    return changed_any
