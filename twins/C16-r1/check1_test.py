"""
Behaviour check for refactoring 1 (``--set`` override handling of ``asphalt run``).

Exercises nested, escaped-dot and YAML-typed overrides, their precedence relative to
the config files and the selected service section, and the error paths.
"""

from __future__ import annotations

from pathlib import Path
from typing import Any
from unittest.mock import patch

import pytest
from click.testing import CliRunner

from asphalt.core import _cli

BASE = """\
---
component:
  type: myproject:Root
  flag: false
  components:
    db:
      url: sqlite:///a.db
      pool: 5
scalar: 1
logging:
  version: 1
  loggers:
    asphalt.core:
      level: INFO
"""


def invoke(
    tmp_path: Path, files: dict[str, str], args: list[str], env: dict[str, str] = {}
) -> tuple[Any, Any]:
    runner = CliRunner()
    paths = []
    for name, content in files.items():
        path = tmp_path / name
        path.write_text(content)
        paths.append(str(path))

    with patch("asphalt.core._cli.run_application") as run_app:
        result = runner.invoke(
            _cli.run, [*paths, *args], env={"ASPHALT_SERVICE": None, **env}
        )

    return result, run_app


def test_nested_escaped_and_typed_overrides(tmp_path: Path) -> None:
    result, run_app = invoke(
        tmp_path,
        {"base.yml": BASE},
        [
            "--set",
            "component.components.db.pool=10",
            "--set",
            "component.components.db.options={echo: true, args: [1, 2.5, null]}",
            "--set",
            r"logging.loggers.asphalt\.core.level=DEBUG",
            "--set",
            r"logging.loggers.my\.app\.sub.level=WARNING",
            "--set",
            "component.flag=yes",
            "--set",
            "component.newsection.deep.deeper=a=b",
            "--set",
            "max_threads=20",
            "--set",
            "component.empty=",
            "--set",
            "scalar='quoted: string'",
        ],
    )
    assert result.exit_code == 0, result.output
    assert run_app.call_count == 1
    args, kwargs = run_app.call_args
    assert args == (
        "myproject:Root",
        {
            "flag": True,
            "components": {
                "db": {
                    "url": "sqlite:///a.db",
                    "pool": 10,
                    "options": {"echo": True, "args": [1, 2.5, None]},
                }
            },
            "newsection": {"deep": {"deeper": "a=b"}},
            "empty": None,
        },
    )
    assert kwargs == {
        "backend": "asyncio",
        "backend_options": {},
        "scalar": "quoted: string",
        "max_threads": 20,
        "logging": {
            "version": 1,
            "loggers": {
                "asphalt.core": {"level": "DEBUG"},
                "my.app.sub": {"level": "WARNING"},
            },
        },
    }
    # Key order of the keyword arguments follows insertion order of the merge
    assert list(kwargs) == [
        "scalar",
        "logging",
        "max_threads",
        "backend",
        "backend_options",
    ]


def test_overrides_apply_in_order_after_files_before_service(tmp_path: Path) -> None:
    first = """\
---
max_threads: 1
services:
  web:
    max_threads: 99
    component:
      type: myproject:Web
      port: 80
  worker:
    component:
      type: myproject:Worker
"""
    second = """\
---
max_threads: 2
services:
  web:
    component:
      port: 8080
"""
    result, run_app = invoke(
        tmp_path,
        {"first.yml": first, "second.yml": second},
        [
            "--set",
            "max_threads=3",
            "--set",
            "max_threads=4",
            "--set",
            "services.web.component.port=9090",
            "--set",
            "services.worker.component.queue=jobs",
            "--service",
            "web",
        ],
    )
    assert result.exit_code == 0, result.output
    args, kwargs = run_app.call_args
    # The service's max_threads (99) beats both the files and the --set overrides
    assert args == ("myproject:Web", {"port": 9090})
    assert kwargs == {"max_threads": 99, "backend": "asyncio", "backend_options": {}}

    result, run_app = invoke(
        tmp_path,
        {"first.yml": first, "second.yml": second},
        [
            "--set",
            "max_threads=3",
            "--set",
            "max_threads=4",
            "--set",
            "services.worker.component.queue=jobs",
        ],
        env={"ASPHALT_SERVICE": "worker"},
    )
    assert result.exit_code == 0, result.output
    args, kwargs = run_app.call_args
    assert args == ("myproject:Worker", {"queue": "jobs"})
    assert kwargs == {"max_threads": 4, "backend": "asyncio", "backend_options": {}}


def test_override_tags_are_resolved(tmp_path: Path) -> None:
    secret = tmp_path / "secret.txt"
    secret.write_bytes(b"s3cr\xc3\xa9t\n")
    result, run_app = invoke(
        tmp_path,
        {"base.yml": BASE},
        [
            "--set",
            "component.envval=!Env C16_CHECK_VAR",
            "--set",
            "component.missing=!Env C16_CHECK_UNSET_VAR",
            "--set",
            f"component.text=!TextFile {secret}",
            "--set",
            f"component.binary=!BinaryFile {secret}",
        ],
        env={"C16_CHECK_VAR": "from env", "C16_CHECK_UNSET_VAR": None},
    )
    assert result.exit_code == 0, result.output
    args, kwargs = run_app.call_args
    assert args[1]["envval"] == "from env"
    assert args[1]["missing"] is None
    assert args[1]["text"] == secret.read_text()
    assert args[1]["binary"] == b"s3cr\xc3\xa9t\n"


@pytest.mark.parametrize(
    "override, message",
    [
        pytest.param(
            "foobar",
            "Error: Configuration must be set with '=', got: foobar\n",
            id="no_equals",
        ),
        pytest.param(
            "scalar.sub=1",
            "Error: Cannot apply override for 'scalar.sub': value at scalar is not a "
            "mapping, but int\n",
            id="scalar_parent",
        ),
        pytest.param(
            "component.components.db.url.scheme.x=1",
            "Error: Cannot apply override for 'component.components.db.url.scheme.x': "
            "value at component ⟶ components ⟶ db ⟶ url is not a mapping, but str\n",
            id="deep_scalar_parent",
        ),
        pytest.param(
            r"logging.loggers.asphalt\.core.level.x=1",
            "Error: Cannot apply override for "
            r"'logging.loggers.asphalt\\.core.level.x': value at logging ⟶ loggers ⟶ "
            "asphalt.core ⟶ level is not a mapping, but str\n",
            id="escaped_scalar_parent",
        ),
    ],
)
def test_override_errors_start_nothing(
    tmp_path: Path, override: str, message: str
) -> None:
    # A valid override before the bad one must not make any difference
    result, run_app = invoke(
        tmp_path, {"base.yml": BASE}, ["--set", "max_threads=2", "--set", override]
    )
    assert result.exit_code == 1
    assert run_app.call_count == 0
    assert result.output == message
