"""
Behaviour checks for refactoring 3 (_runner.py: startup phase and exit code
conversion extracted from ``_run_application_async``; _context.py: shortcut functions
use a local alias / walrus).  Public API only.
"""

from __future__ import annotations

import logging
import platform
import signal
import warnings
from functools import partial
from typing import Any

import anyio
import pytest
from anyio import sleep, wait_all_tasks_blocked

from asphalt.core import (
    CLIApplicationComponent,
    Component,
    Context,
    NoCurrentContext,
    ResourceNotFound,
    add_resource,
    add_teardown_callback,
    current_context,
    get_resource,
    get_resource_nowait,
    run_application,
    start_background_task_factory,
    start_service_task,
)

posix_only = pytest.mark.skipif(
    platform.system() == "Windows", reason="Signals don't work on Windows"
)


def core_messages(caplog: pytest.LogCaptureFixture) -> list[str]:
    return [r.getMessage() for r in caplog.records if r.name == "asphalt.core"]


class MyInt(int):
    pass


class Recorder(CLIApplicationComponent):
    """Records the order of start / run / teardown and what the teardown saw."""

    def __init__(self, events: list[Any], result: Any = None, fail: bool = False):
        super().__init__()
        self.events = events
        self.result = result
        self.fail = fail

    def teardown(self, exception: BaseException | None) -> None:
        self.events.append(("teardown", type(exception).__name__))

    async def start(self) -> None:
        self.events.append("start")
        add_teardown_callback(self.teardown, pass_exception=True)
        add_resource("a string resource")

    async def run(self) -> Any:
        self.events.append(("run", await get_resource(str)))
        if self.fail:
            raise LookupError("run() failed")

        return self.result


@pytest.mark.parametrize(
    "result, code",
    [
        (None, None),
        (0, None),
        (MyInt(0), None),
        (1, 1),
        (127, 127),
        (MyInt(42), 42),
    ],
)
def test_valid_exit_codes(
    result: Any, code: int | None, caplog: pytest.LogCaptureFixture
) -> None:
    caplog.set_level(logging.INFO, "asphalt.core")
    events: list[Any] = []
    with warnings.catch_warnings():
        warnings.simplefilter("error")
        if code is None:
            run_application(Recorder, {"events": events, "result": result}, logging=None)
        else:
            with pytest.raises(SystemExit) as exc:
                run_application(
                    Recorder, {"events": events, "result": result}, logging=None
                )

            assert exc.value.code == code
            assert exc.value.code is result

    assert events == ["start", ("run", "a string resource"), ("teardown", "NoneType")]
    assert core_messages(caplog) == [
        "Running in development mode",
        "Starting application",
        "Application started",
        "Application stopped",
    ]


@pytest.mark.parametrize(
    "result, message",
    [
        (128, "exit code out of range: 128"),
        (-1, "exit code out of range: -1"),
        (MyInt(1000), "exit code out of range: 1000"),
        (1.0, "run() must return an integer or None, not float"),
        ("0", "run() must return an integer or None, not str"),
        ([], "run() must return an integer or None, not list"),
        (Recorder, "run() must return an integer or None, not abc.ABCMeta"),
    ],
)
def test_invalid_exit_codes(result: Any, message: str) -> None:
    events: list[Any] = []
    with pytest.raises(SystemExit) as exc, pytest.warns(UserWarning) as record:
        run_application(Recorder, {"events": events, "result": result}, logging=None)

    assert exc.value.code == 1
    assert [str(w.message) for w in record] == [message]
    assert record[0].category is UserWarning
    assert record[0].filename.endswith("_runner.py")
    # The warning is issued while the context is still open, without an exception
    assert events == ["start", ("run", "a string resource"), ("teardown", "NoneType")]


def test_exit_code_warning_as_error_reaches_teardown_and_caller(
    caplog: pytest.LogCaptureFixture,
) -> None:
    caplog.set_level(logging.INFO, "asphalt.core")
    events: list[Any] = []
    with warnings.catch_warnings():
        warnings.simplefilter("error")
        with pytest.raises(UserWarning, match="exit code out of range: 500"):
            run_application(Recorder, {"events": events, "result": 500}, logging=None)

    assert events[-1] == ("teardown", "UserWarning")
    assert core_messages(caplog)[-1] == "Application stopped"


def test_run_exception_propagates(caplog: pytest.LogCaptureFixture) -> None:
    caplog.set_level(logging.INFO, "asphalt.core")
    events: list[Any] = []
    with pytest.raises(LookupError, match=r"run\(\) failed"):
        run_application(Recorder, {"events": events, "fail": True}, logging=None)

    assert events == ["start", ("run", "a string resource"), ("teardown", "LookupError")]
    assert core_messages(caplog) == [
        "Running in development mode",
        "Starting application",
        "Application started",
        "Application stopped",
    ]


class SlowStart(Component):
    def __init__(self, events: list[Any]):
        self.events = events

    async def start(self) -> None:
        add_teardown_callback(lambda: self.events.append("teardown"))
        try:
            await sleep(10)
        except BaseException as exc:
            self.events.append(type(exc).__name__)
            raise


def test_start_timeout(caplog: pytest.LogCaptureFixture) -> None:
    caplog.set_level(logging.INFO, "asphalt.core")
    events: list[Any] = []
    with pytest.raises(SystemExit) as exc:
        run_application(SlowStart, {"events": events}, logging=None, start_timeout=0.1)

    assert exc.value.code == 1
    assert events == ["CancelledError", "teardown"]
    messages = core_messages(caplog)
    assert messages[:2] == ["Running in development mode", "Starting application"]
    assert messages[-1] == "Application stopped"
    assert "Application started" not in messages
    assert "Error during application startup" not in messages


class StartErrors(Component):
    def __init__(self, exc_class: type[BaseException], events: list[Any]):
        self.exc_class = exc_class
        self.events = events

    async def start(self) -> None:
        add_teardown_callback(
            lambda exc: self.events.append(type(exc).__name__), pass_exception=True
        )
        raise self.exc_class("startup failure")


@pytest.mark.parametrize("exc_class", [RuntimeError, ValueError, KeyError])
def test_start_error(
    exc_class: type[BaseException], caplog: pytest.LogCaptureFixture
) -> None:
    caplog.set_level(logging.INFO, "asphalt.core")
    events: list[Any] = []
    with pytest.raises(SystemExit) as exc:
        run_application(
            StartErrors, {"exc_class": exc_class, "events": events}, logging=None
        )

    assert exc.value.code == 1
    # The failure is swallowed by the runner, so the context is closed cleanly
    assert events == ["NoneType"]
    records = [r for r in caplog.records if r.name == "asphalt.core"]
    assert [r.getMessage() for r in records] == [
        "Running in development mode",
        "Starting application",
        "Error during application startup",
        "Application stopped",
    ]
    assert isinstance(records[2].exc_info[1].__cause__, exc_class)


def test_bad_component_reference_and_config(caplog: pytest.LogCaptureFixture) -> None:
    caplog.set_level(logging.INFO, "asphalt.core")
    with pytest.raises(SystemExit) as exc:
        run_application("no.such.module:Component", logging=None)

    assert exc.value.code == 1
    with pytest.raises(SystemExit) as exc:
        run_application(Recorder, ["not", "a", "mapping"], logging=None)  # type: ignore[arg-type]

    assert exc.value.code == 1
    assert core_messages(caplog).count("Error during application startup") == 2
    assert "Application started" not in core_messages(caplog)


class ServiceApp(Component):
    """A non-CLI application that is terminated by a signal."""

    def __init__(self, events: list[Any], signum: int):
        self.events = events
        self.signum = signum

    async def service(self) -> None:
        self.events.append("service running")
        try:
            await sleep(10)
        finally:
            self.events.append("service stopped")

    async def killer(self) -> None:
        await wait_all_tasks_blocked()
        self.events.append("signal")
        signal.raise_signal(self.signum)

    async def start(self) -> None:
        add_teardown_callback(lambda: self.events.append("first callback"))
        await start_service_task(self.service, "service")
        add_teardown_callback(lambda: self.events.append("last callback"))
        await start_service_task(self.killer, "killer", teardown_action=None)


@posix_only
@pytest.mark.parametrize("signum", [signal.SIGINT, signal.SIGTERM])
def test_signal_after_startup(signum: int, caplog: pytest.LogCaptureFixture) -> None:
    caplog.set_level(logging.INFO, "asphalt.core")
    events: list[Any] = []
    run_application(ServiceApp, {"events": events, "signum": signum}, logging=None)
    assert events == [
        "service running",
        "signal",
        "last callback",
        "service stopped",
        "first callback",
    ]
    messages = core_messages(caplog)
    assert messages[2] == "Application started"
    assert messages[3].startswith("Received signal (")
    assert messages[4:] == ["Application stopped"]


class SignalInStart(Component):
    def __init__(self, events: list[Any]):
        self.events = events

    async def start(self) -> None:
        add_teardown_callback(
            lambda exc: self.events.append(("teardown", type(exc).__name__)),
            pass_exception=True,
        )
        signal.raise_signal(signal.SIGTERM)
        try:
            await sleep(10)
        except BaseException as exc:
            self.events.append(type(exc).__name__)
            raise


@posix_only
def test_signal_during_startup(caplog: pytest.LogCaptureFixture) -> None:
    caplog.set_level(logging.INFO, "asphalt.core")
    events: list[Any] = []
    with pytest.raises(SystemExit) as exc:
        run_application(SignalInStart, {"events": events}, logging=None)

    assert exc.value.code == 1
    assert events == ["CancelledError", ("teardown", "NoneType")]
    messages = core_messages(caplog)
    assert "Application started" not in messages
    assert "Error during application startup" not in messages
    assert messages[-1] == "Application stopped"


def test_max_threads_applied_before_start() -> None:
    seen: list[float] = []

    class Threads(CLIApplicationComponent):
        async def start(self) -> None:
            seen.append(anyio.to_thread.current_default_thread_limiter().total_tokens)

        async def run(self) -> None:
            return None

    run_application(Threads, max_threads=7, logging=None)
    assert seen == [7]


# --- module level shortcut functions -------------------------------------------------


def test_shortcuts_without_context() -> None:
    with pytest.raises(NoCurrentContext):
        current_context()

    with pytest.raises(NoCurrentContext):
        add_resource(1)

    with pytest.raises(NoCurrentContext):
        get_resource_nowait(int)

    async def main() -> None:
        with pytest.raises(NoCurrentContext):
            await get_resource(int)

        with pytest.raises(NoCurrentContext):
            await start_service_task(sleep, "never started")

        with pytest.raises(NoCurrentContext):
            await start_background_task_factory()

    anyio.run(main)


def test_shortcuts_use_the_innermost_context() -> None:
    events: list[Any] = []

    async def service(*, task_status: anyio.abc.TaskStatus[str]) -> None:
        task_status.started("started value")
        events.append(("service ctx is inner", current_context() is not None))
        try:
            await sleep(10)
        finally:
            events.append("service cancelled")

    async def background(value: int) -> None:
        events.append(("background", value, await get_resource(int, "inner")))

    def handler(exc: Exception) -> bool:
        events.append(("handled", str(exc)))
        return True

    async def failing() -> None:
        raise RuntimeError("background failure")

    async def main() -> None:
        async with Context() as outer:
            add_resource(1, "outer")
            async with Context() as inner:
                assert current_context() is inner
                add_resource(2, "inner")
                assert await get_resource(int, "outer") == 1
                assert await get_resource(int, "inner") == 2
                assert await get_resource(str, optional=True) is None
                with pytest.raises(ResourceNotFound):
                    await get_resource(str)

                assert await start_service_task(service, "svc") == "started value"
                factory = await start_background_task_factory(
                    exception_handler=handler
                )
                handle = await factory.start_task(partial(background, 5), "bg")
                await handle.wait_finished()
                factory.start_task_soon(failing, "failing")
                await wait_all_tasks_blocked()
                events.append("leaving inner")

            assert current_context() is outer
            assert get_resource_nowait(int, "inner", optional=True) is None
            events.append("left inner")

    anyio.run(main)
    assert ("handled", "background failure") in events
    assert ("background", 5, 2) in events
    assert events.index("leaving inner") < events.index("service cancelled")
    assert events.index("service cancelled") < events.index("left inner")
