"""
Behaviour checks for refactoring 1 (lookup via ``.get()``, no walrus, loop in
``get_resources``).

Everything goes through the public API of ``asphalt.core``.
"""

from __future__ import annotations

import gc
import warnings
from typing import Any, Union

import pytest
from anyio import create_task_group, wait_all_tasks_blocked

from asphalt.core import (
    AsyncResourceError,
    Context,
    ResourceEvent,
    ResourceNotFound,
    get_resource,
    get_resource_nowait,
    get_resources,
)

pytestmark = pytest.mark.anyio()


@pytest.fixture
def anyio_backend() -> str:
    return "asyncio"


async def collect_events(ctx: Context, events: list[ResourceEvent], count: int) -> None:
    async with ctx.resource_added.stream_events() as stream:
        async for event in stream:
            events.append(event)
            if len(events) == count:
                break


class TestExistingResource:
    async def test_plain_resource_sync_and_async(self) -> None:
        async with Context() as ctx:
            ctx.add_resource("hello")
            ctx.add_resource("other", "named")
            assert ctx.get_resource_nowait(str) == "hello"
            assert ctx.get_resource_nowait(str, "named") == "other"
            assert await ctx.get_resource(str) == "hello"
            assert await ctx.get_resource(str, "named") == "other"
            assert ctx.get_resource_nowait(str, optional=True) == "hello"
            assert await ctx.get_resource(str, optional=True) == "hello"

    async def test_falsy_resource_value_is_returned(self) -> None:
        """A falsy (but not None) value must still count as "found"."""
        calls: list[str] = []

        def factory() -> int:
            calls.append("factory")
            return 7

        async with Context() as ctx:
            ctx.add_resource(0)
            ctx.add_resource("", "empty")
            ctx.add_resource_factory(factory, "unused")
            assert ctx.get_resource_nowait(int) == 0
            assert await ctx.get_resource(int) == 0
            assert ctx.get_resource_nowait(str, "empty") == ""
            assert await ctx.get_resource(str, "empty") == ""
            assert calls == []

    async def test_existing_resource_wins_over_factory(self) -> None:
        calls: list[str] = []

        def factory() -> str:
            calls.append("factory")
            return "generated"

        async with Context() as ctx:
            ctx.add_resource_factory(factory)
            ctx.add_resource("static")
            assert ctx.get_resource_nowait(str) == "static"
            assert await ctx.get_resource(str) == "static"
            assert calls == []

    async def test_inherited_from_parent(self) -> None:
        async with Context() as parent:
            parent.add_resource(5)
            async with Context() as child:
                assert child.get_resource_nowait(int) == 5
                assert await child.get_resource(int) == 5
                assert get_resource_nowait(int) == 5
                assert await get_resource(int) == 5


class TestFactories:
    async def test_sync_factory_generates_once_per_context(self) -> None:
        calls: list[int] = []

        def factory() -> list:  # type: ignore[type-arg]
            calls.append(len(calls))
            return [len(calls)]

        async with Context() as parent:
            parent.add_resource_factory(factory)
            first = parent.get_resource_nowait(list)
            assert first == [1]
            assert parent.get_resource_nowait(list) is first
            assert await parent.get_resource(list) is first
            async with Context() as child:
                # generated resources are not inherited
                second = await child.get_resource(list)
                assert second == [2]
                assert child.get_resource_nowait(list) is second
                assert parent.get_resource_nowait(list) is first

            assert calls == [0, 1]

    async def test_async_factory(self) -> None:
        async def factory() -> str:
            return "async-generated"

        async with Context() as ctx:
            ctx.add_resource_factory(factory)
            with pytest.raises(AsyncResourceError):
                ctx.get_resource_nowait(str)

            # The failed sync lookup must not have stored anything
            assert ctx.get_resources(str) == {}
            assert await ctx.get_resource(str) == "async-generated"
            # now it is cached and the sync variant works too
            assert ctx.get_resource_nowait(str) == "async-generated"

    async def test_async_factory_coroutine_is_closed(self) -> None:
        async def factory() -> str:
            return "never"

        async with Context() as ctx:
            ctx.add_resource_factory(factory)
            with warnings.catch_warnings(record=True) as caught:
                warnings.simplefilter("always")
                with pytest.raises(AsyncResourceError):
                    ctx.get_resource_nowait(str, optional=True)

                gc.collect()

            # the coroutine object was closed, so no "never awaited" warning
            assert [w for w in caught if w.category is RuntimeWarning] == []

    async def test_factory_multiple_types_and_events(self) -> None:
        def factory() -> Union[int, float]:
            return 3

        events: list[ResourceEvent] = []
        async with Context() as ctx, create_task_group() as tg:
            tg.start_soon(collect_events, ctx, events, 2)
            await wait_all_tasks_blocked()
            ctx.add_resource_factory(factory, "num", description="a number")
            assert ctx.get_resource_nowait(float, "num") == 3
            assert ctx.get_resource_nowait(int, "num") == 3
            assert await ctx.get_resource(int, "num") == 3

        assert len(events) == 2
        assert events[0].is_factory is True
        assert events[0].resource_types == (int, float)
        assert events[1].is_factory is False
        assert events[1].resource_types == (int, float)
        assert events[1].resource_name == "num"
        assert events[1].resource_description == "a number"
        assert events[1].source is ctx

    async def test_factory_does_not_replace_existing_sibling_type(self) -> None:
        def factory() -> Union[int, float]:
            return 3

        async with Context() as ctx:
            ctx.add_resource_factory(factory)
            ctx.add_resource(1.5)
            assert await ctx.get_resource(int) == 3
            assert ctx.get_resource_nowait(float) == 1.5
            assert await ctx.get_resource(float) == 1.5

    async def test_factory_exception_propagates_and_nothing_is_stored(self) -> None:
        attempts: list[int] = []

        def factory() -> str:
            attempts.append(1)
            if len(attempts) < 3:
                raise KeyError("boom %d" % len(attempts))

            return "ok"

        async with Context() as ctx:
            ctx.add_resource_factory(factory)
            with pytest.raises(KeyError, match="boom 1"):
                ctx.get_resource_nowait(str)

            with pytest.raises(KeyError, match="boom 2"):
                await ctx.get_resource(str, optional=True)

            assert ctx.get_resources(str) == {}
            assert ctx.get_resource_nowait(str) == "ok"
            assert len(attempts) == 3

    async def test_factory_returning_none_is_called_again(self) -> None:
        calls: list[int] = []

        def factory() -> Any:
            calls.append(1)
            return None

        async with Context() as ctx:
            ctx.add_resource_factory(factory, types=[str])
            assert ctx.get_resource_nowait(str) is None
            assert await ctx.get_resource(str) is None
            assert len(calls) == 1


class TestNotFound:
    async def test_missing(self) -> None:
        async with Context() as ctx:
            ctx.add_resource(1)
            assert ctx.get_resource_nowait(str, optional=True) is None
            assert await ctx.get_resource(str, optional=True) is None
            assert ctx.get_resource_nowait(int, "nope", optional=True) is None
            with pytest.raises(ResourceNotFound) as exc:
                ctx.get_resource_nowait(str, "foo")

            assert exc.value.type is str
            assert exc.value.name == "foo"
            assert str(exc.value) == (
                "no matching resource was found for type=str name='foo'"
            )
            with pytest.raises(ResourceNotFound) as exc2:
                await ctx.get_resource(int, "bar")

            assert exc2.value.args == (int, "bar")

    async def test_state_checks_come_first(self) -> None:
        ctx = Context()
        with pytest.raises(RuntimeError, match="has not been entered yet"):
            ctx.get_resource_nowait(str, optional=True)

        with pytest.raises(RuntimeError, match="has not been entered yet"):
            await ctx.get_resource(str, optional=True)

        # get_resources() has no state check
        assert ctx.get_resources(str) == {}

        async with ctx:
            ctx.add_resource("x")

        with pytest.raises(RuntimeError, match="has already been closed"):
            ctx.get_resource_nowait(str)

        with pytest.raises(RuntimeError, match="has already been closed"):
            await ctx.get_resource(str)

        assert ctx.get_resources(str) == {"default": "x"}

    async def test_lookup_while_closing(self) -> None:
        seen: list[Any] = []

        def factory() -> float:
            return 2.5

        async def teardown() -> None:
            seen.append(get_resource_nowait(str))
            seen.append(await get_resource(float))
            seen.append(get_resource_nowait(int, optional=True))

        async with Context() as ctx:
            ctx.add_resource("x")
            ctx.add_resource_factory(factory)
            ctx.add_teardown_callback(teardown)

        assert seen == ["x", 2.5, None]


class TestGetResources:
    async def test_names_and_types(self) -> None:
        async with Context() as ctx:
            ctx.add_resource("a", "first")
            ctx.add_resource("b", "second")
            ctx.add_resource(3, "third", [int, float])
            ctx.add_resource(4)
            strs = ctx.get_resources(str)
            assert strs == {"first": "a", "second": "b"}
            assert list(strs) == ["first", "second"]
            assert ctx.get_resources(float) == {"third": 3}
            ints = get_resources(int)
            assert list(ints.items()) == [("third", 3), ("default", 4)]
            assert ctx.get_resources(bytes) == {}
            assert isinstance(ctx.get_resources(bytes), dict)

    async def test_does_not_trigger_factories_but_sees_generated(self) -> None:
        calls: list[int] = []

        def factory() -> str:
            calls.append(1)
            return "generated"

        async with Context() as ctx:
            ctx.add_resource_factory(factory, "gen")
            ctx.add_resource("static")
            assert ctx.get_resources(str) == {"default": "static"}
            assert calls == []
            ctx.get_resource_nowait(str, "gen")
            assert ctx.get_resources(str) == {"default": "static", "gen": "generated"}
            async with Context() as child:
                assert child.get_resources(str) == {"default": "static"}

    async def test_result_is_a_fresh_mapping(self) -> None:
        async with Context() as ctx:
            ctx.add_resource("a")
            first = ctx.get_resources(str)
            second = ctx.get_resources(str)
            assert first == second
            assert first is not second
            ctx.add_resource("b", "later")
            assert first == {"default": "a"}
