"""C17 - merge_config is a pure, right-biased deep merge."""
from __future__ import annotations

import ast

from ..cfg import iter_own
from ..dataflow import ReachingDefs
from ..facts import Facts
from ..loader import AnalysisError, FuncInfo, walk_own
from ..ownership import BORROWED, FRESH, NAMES, SHALLOW, Ownership
from .common import call_name, names_in


def merge_func(ctx) -> FuncInfo:
    f = ctx.p.public("merge_config")
    if not isinstance(f, FuncInfo):
        raise AnalysisError("anchor-missing merge_config")
    if len(f.params) < 2:
        raise AnalysisError("anchor-missing merge_config(original, overrides) parameters")
    return f


def _is_copy_of(expr, p0: str) -> bool:
    """dict(p0) / p0.copy() / {**p0} / dict(p0 or {}) / copy.copy(p0)"""
    if isinstance(expr, ast.Call):
        if call_name(expr) in ("dict", "copy", "OrderedDict") and len(expr.args) == 1 and isinstance(expr.func, ast.Name):
            a0 = expr.args[0]
            if isinstance(a0, ast.Name) and a0.id == p0:
                return True
            if isinstance(a0, ast.BoolOp) and isinstance(a0.op, ast.Or) and isinstance(a0.values[0], ast.Name) and a0.values[0].id == p0:
                return True
        if isinstance(expr.func, ast.Attribute) and expr.func.attr == "copy" and isinstance(expr.func.value, ast.Name) and expr.func.value.id == p0 and not expr.args:
            return True
    if isinstance(expr, ast.Dict) and len(expr.keys) == 1 and expr.keys[0] is None and isinstance(expr.values[0], ast.Name) and expr.values[0].id == p0:
        return True
    return False


def _is_empty_dict(expr) -> bool:
    return (isinstance(expr, ast.Dict) and not expr.keys) or (isinstance(expr, ast.Call) and call_name(expr) == "dict" and not expr.args and not expr.keywords)


def _none_safe(expr) -> bool:
    """the expression contains `<x> or {}`"""
    return any(isinstance(x, ast.BoolOp) and isinstance(x.op, ast.Or) and len(x.values) == 2 and _is_empty_dict(x.values[1]) for x in ast.walk(expr))


def _isdict(expr_text: str):
    return ast.parse(f"isinstance({expr_text}, dict)", mode="eval").body


def run(ctx) -> None:
    rep = ctx.rep
    a = ctx.a
    f = merge_func(ctx)
    public = f
    p0, p1 = f.params[0], f.params[1]
    # a thin public wrapper `return _worker(original, overrides, ...)` (e.g. a recursive
    # worker that carries extra bookkeeping arguments): the worker is the merge
    body = [st for st in f.node.body if not (isinstance(st, ast.Expr) and isinstance(st.value, ast.Constant) and isinstance(st.value.value, str))]
    if len(body) == 1 and isinstance(body[0], ast.Return) and isinstance(body[0].value, ast.Call):
        fw = body[0].value
        cal = a.callee(f, fw)
        if cal.kind == "func" and cal.func is not f and len(fw.args) >= 2 and isinstance(fw.args[0], ast.Name) and fw.args[0].id == p0 and isinstance(fw.args[1], ast.Name) and fw.args[1].id == p1 and len(cal.func.params) >= 2 and cal.func.cls is None:
            f = cal.func
            p0, p1 = f.params[0], f.params[1]
            rep.note(f"merge_config forwards to {f.qualname}: the worker is analysed as the merge")
    cfg = a.cfg(f)
    rd = ReachingDefs(a, f)
    facts = Facts(a, f, rd)
    normal = lambda s, d, lab: lab not in ("e", "h")  # noqa: E731

    # ------------------------------------------------------------ R1 purity
    own = Ownership(a)
    res = own.analyse(f, {p0: BORROWED, p1: BORROWED})
    for v in res.violations:
        rep.violate("C17.R1", v.func, v.node, f"{v.what}: merge_config modifies an argument", path=v.chain)
    if not res.violations:
        rep.hold("C17.R1", f, f.node, f"none of the {res.mutation_sites} mutation sites targets a value derived from `{p0}` or `{p1}` (both Borrowed; recursive call analysed to a fixpoint, {own.calls_followed} contexts)")
    returns = [n for n in cfg.live_nodes() if n.kind == "stmt" and isinstance(n.ast, ast.Return)]
    if res.return_level is None or res.return_level == BORROWED:
        rep.violate("C17.R1", f, returns[0].ast if returns else f.node, f"the returned dictionary is {NAMES[res.return_level]}: it is (or may be) one of the arguments rather than a new dictionary")
    else:
        rep.hold("C17.R1", f, returns[0].ast if returns else f.node, f"every return yields a new dictionary ({NAMES[res.return_level]}; un-merged nested values are shared with the inputs, which the statement allows)")
    for note in res.notes:
        rep.note(note)
    rep.floor("C17.R1", res.mutation_sites, 1)

    # ------------------------------------------------------------ result variable
    def _unwrap_copy(v):
        # `return deepcopy(result)` / `dict(result)` / `result.copy()`: still the result
        while True:
            if isinstance(v, ast.Call) and call_name(v) in ("deepcopy", "copy", "dict") and len(v.args) == 1 and not v.keywords and isinstance(v.func, (ast.Name, ast.Attribute)) and isinstance(v.args[0], ast.Name):
                v = v.args[0]
            elif isinstance(v, ast.Call) and isinstance(v.func, ast.Attribute) and v.func.attr == "copy" and not v.args and isinstance(v.func.value, ast.Name):
                v = v.func.value
            else:
                return v

    # guard-clause fast paths: `if not original: return dict(overrides)` - a copy of one side
    # is the merge when the other side is known to be None / empty there, and the copied side
    # must not be None itself (None behaves like an empty dictionary)
    def _fast_path(n) -> bool:
        v = n.ast.value
        if v is None:
            return False
        if _is_empty_dict(v):
            side, other = None, (p0, p1)
        elif _is_copy_of(v, p0):
            side, other = p0, (p1,)
        elif _is_copy_of(v, p1):
            side, other = p1, (p0,)
        else:
            return False
        empty_other = all(facts.implied(n.id, ast.Name(id=o, ctx=ast.Load()), False) for o in other)
        rep.check("C17.R2", empty_other, f, n.ast, f"`{ast.unparse(n.ast)}` is taken only where the other side is None or empty", f"`{ast.unparse(n.ast)}` returns a copy of one side although the other side may have content there: its keys are lost")
        if side is not None:
            safe = _none_safe(v) or facts.implied(n.id, ast.Name(id=side, ctx=ast.Load()), True) or facts.implied(n.id, ast.parse(f"{side} is not None", mode="eval").body, True)
            rep.check("C17.R2", safe, f, n.ast, f"`{side}` cannot be None where it is copied", f"`{ast.unparse(v)}` is reached with `{side}` possibly None (both arguments None / the other one empty): merge_config raises TypeError instead of treating None as an empty dictionary")
        return True

    fast = [n for n in returns if n.ast.value is not None and not isinstance(_unwrap_copy(n.ast.value), ast.Name) and _fast_path(n)]
    fast += [n for n in returns if n.ast.value is not None and isinstance(n.ast.value, ast.Call) and n not in fast and any(rd.text(m.id, _unwrap_copy(m.ast.value)) != rd.text(n.id, _unwrap_copy(n.ast.value)) for m in returns if m is not n and m.ast.value is not None and isinstance(m.ast.value, ast.Name)) and (_is_copy_of(n.ast.value, p0) or _is_copy_of(n.ast.value, p1)) and _fast_path(n)]
    returns = [n for n in returns if n not in fast]
    rvars = {rd.text(n.id, _unwrap_copy(n.ast.value)) for n in returns if n.ast.value is not None}
    if len(rvars) != 1 or not all(isinstance(_unwrap_copy(n.ast.value), ast.Name) for n in returns if n.ast.value is not None):
        rep.unrecognised("C17.R2", f, f.node, f"merge_config does not return a single result variable ({sorted(rvars)})")
        return
    R = rvars.pop()

    # ------------------------------------------------------------ the override loop
    loops = [n for n in walk_own(f.node) if isinstance(n, ast.For)]
    # `for layer in (overrides, *more): ... for k, v in layer.items()`: with the two documented
    # arguments the only layer is `overrides`, so the layer variable stands for it
    for lp in loops:
        if isinstance(lp.target, ast.Name) and isinstance(lp.iter, (ast.Tuple, ast.List)) and lp.iter.elts and isinstance(lp.iter.elts[0], ast.Name) and lp.iter.elts[0].id == p1:
            extra = lp.iter.elts[1:]
            varargs = {f.node.args.vararg.arg} if f.node.args.vararg else set()
            if all(isinstance(e, ast.Starred) and isinstance(e.value, ast.Name) and e.value.id in varargs for e in extra):
                rep.note(f"override layers: `{lp.target.id}` iterates ({p1}, *{sorted(varargs)}); analysed for the documented two-argument call")
                p1 = lp.target.id
    loop = None
    for lp in loops:
        it = lp.iter
        if isinstance(it, ast.Call) and isinstance(it.func, ast.Attribute) and it.func.attr == "items" and p1 in names_in(it.func.value):
            loop = lp
    if loop is None:
        rep.violate("C17.R2", f, f.node, f"no loop over all items of `{p1}`: keys of the overrides are not all applied")
        return
    if not (isinstance(loop.target, ast.Tuple) and len(loop.target.elts) == 2 and all(isinstance(e, ast.Name) for e in loop.target.elts)):
        rep.unrecognised("C17.R2", f, loop, "override loop does not unpack (key, value)")
        return
    K, V = loop.target.elts[0].id, loop.target.elts[1].id
    head = [n for n in cfg.live_nodes() if n.kind == "for_next" and n.ast is loop]
    it_nodes = [n for n in cfg.live_nodes() if n.kind == "for_iter" and n.ast is loop.iter]
    if not head or not it_nodes:
        rep.unrecognised("C17.R2", f, loop, "override loop is unreachable")
        return
    head, itn = head[0], it_nodes[0]
    body_entry = [d for d, lab in head.succ if lab == "t"]
    in_loop = cfg.reach(body_entry, avoid=[head.id], edge_ok=normal)

    # ------------------------------------------------------------ R2 / R4 base of the result
    base_defs = [n for n in cfg.live_nodes() if n.id not in in_loop and n.kind == "stmt" and isinstance(n.ast, (ast.Assign, ast.AnnAssign)) and getattr(n.ast, "value", None) is not None and any(isinstance(t, ast.Name) and t.id == R for t in (n.ast.targets if isinstance(n.ast, ast.Assign) else [n.ast.target]))]
    copy_nodes = []
    for n in cfg.live_nodes():
        if n.id in in_loop:
            continue
        if n in base_defs and _is_copy_of(n.ast.value, p0):
            copy_nodes.append(n)
        for c, _ in a.node_calls(f, cfg, n):
            if call_name(c) == "update" and isinstance(c.func, ast.Attribute) and isinstance(c.func.value, ast.Name) and c.func.value.id == R and len(c.args) == 1 and isinstance(c.args[0], ast.Name) and c.args[0].id == p0:
                copy_nodes.append(n)
    if not base_defs:
        rep.unrecognised("C17.R2", f, f.node, f"result variable {R} is never initialised before the loop")
        return
    for n in base_defs:
        v = n.ast.value
        if isinstance(v, ast.Name) and v.id == p0:
            rep.violate("C17.R2", f, n.ast, f"result is bound to the argument `{p0}` itself, not to a copy")
        elif not (_is_copy_of(v, p0) or _is_empty_dict(v)):
            if isinstance(v, (ast.Name, ast.Attribute)) or (isinstance(v, ast.BoolOp) and any(isinstance(x, ast.Name) and x.id == p0 for x in v.values)):
                rep.violate("C17.R2", f, n.ast, f"result base `{ast.unparse(v)}` aliases an argument instead of copying it")
            else:
                rep.unrecognised("C17.R2", f, n.ast, f"unrecognised base expression `{ast.unparse(v)}` for the result")
    # every key of the original is in the result whenever the original is non-empty:
    # from entry to the loop (and to every return) a copy-all node is passed, except on
    # paths on which `original` is known to be falsy/None
    def not_p0_falsy_edge(src, dst, lab):
        if lab in ("e", "h"):
            return False
        if src.kind == "test":
            fm = facts.formula(src.id, src.ast)
            pos = ("atom", p0)
            isn = ("atom", f"{p0} is None")
            if fm == pos and lab == "f":
                return False
            if fm == ("not", pos) and lab == "t":
                return False
            if fm == isn and lab == "t":
                return False
            if fm == ("not", isn) and lab == "f":
                return False
        return True

    goals = [head.id] + [r.id for r in returns]
    ok_base = bool(copy_nodes) and cfg.all_paths_pass(cfg.entry, goals, [c.id for c in copy_nodes], edge_ok=not_p0_falsy_edge)
    rep.check("C17.R2", ok_base, f, base_defs[0].ast, f"whenever `{p0}` is non-empty the result starts as a copy of all of its keys", f"some path reaches the merge loop / a return with a result that does not contain every key of a non-empty `{p0}`")
    # None-safety of the copies
    for c in copy_nodes:
        expr = c.ast.value if c in base_defs else c.ast
        safe = _none_safe(expr) or facts.implied(c.id, ast.Name(id=p0, ctx=ast.Load()), True) or facts.implied(c.id, ast.parse(f"{p0} is None", mode="eval").body, False)
        rep.check("C17.R4", safe, f, c.ast, f"`{p0}` is only copied when it is not None/empty (None behaves like an empty dictionary)", f"`{ast.unparse(expr)[:60]}` is evaluated even when `{p0}` is None")
    empties = [n for n in base_defs if _is_empty_dict(n.ast.value)]
    if empties or any(_none_safe(c.ast.value) for c in copy_nodes if c in base_defs):
        rep.hold("C17.R4", f, (empties or copy_nodes)[0].ast, f"a falsy/None `{p0}` yields an empty base")
    elif any(facts.implied(n.id, ast.Name(id=p0, ctx=ast.Load()), False) for n in fast) and all(facts.implied(c.id, ast.Name(id=p0, ctx=ast.Load()), True) for c in copy_nodes):
        rep.hold("C17.R4", f, fast[0].ast, f"a falsy/None `{p0}` is answered by a fast path; the base copy is only reached with a non-empty `{p0}`")
    else:
        rep.violate("C17.R4", f, base_defs[0].ast, f"no empty base for a None `{p0}`")

    # R4: None-safety of the loop
    safe_loop = _none_safe(loop.iter) or facts.implied(itn.id, ast.Name(id=p1, ctx=ast.Load()), True) or facts.implied(itn.id, ast.parse(f"{p1} is None", mode="eval").body, False)
    rep.check("C17.R4", safe_loop, f, loop, f"the loop is skipped when `{p1}` is None/falsy", f"`{p1}.items()` is evaluated even when `{p1}` is None")

    # ------------------------------------------------------------ stores R[K] = ...
    stores = []
    for n, m in a.func_mutations(f):
        if n.id in in_loop and m.path == (R,) and m.kind == "store" and m.depth_key and isinstance(m.node, ast.Assign):
            tgt = [t for t in m.node.targets if isinstance(t, ast.Subscript)]
            if tgt and rd.text(n.id, tgt[0].slice) == K:
                stores.append((n, m))
    ok_all = bool(stores) and bool(body_entry) and cfg.all_paths_pass(body_entry[0], [head.id], [n.id for n, _ in stores], edge_ok=normal)
    rep.check("C17.R2", ok_all, f, loop, f"every path through the loop body assigns {R}[{K}]", f"some path through the override loop does not assign {R}[{K}]: that override key is lost")
    rep.floor("C17.R2", len(stores), 1)

    # ------------------------------------------------------------ R3 right bias and recursion
    rec_nodes = []  # (cfg node, call)
    for nid in sorted(in_loop):
        n = cfg.nodes[nid]
        for c, cal in a.node_calls(f, cfg, n):
            if cal.kind == "func" and cal.func is f:
                rec_nodes.append((n, c))
    if not rec_nodes:
        rep.violate("C17.R3", f, loop, "no recursive merge for dict/dict collisions")
    orig_val_text = None
    for n, call in rec_nodes:
        if len(call.args) < 2 or (f is public and len(call.args) != 2):
            rep.unrecognised("C17.R3", f, call, "recursive call does not pass two positional arguments")
            continue
        a0, a1 = call.args[0], call.args[1]
        cl0 = rd.closure_at(n.id, a0)
        first_ok = (R in cl0.names or p0 in cl0.names or any(isinstance(e, ast.Name) and e.id == R for ex in cl0.exprs for e in ast.walk(ex))) and any(isinstance(e, ast.Name) and e.id == K for ex in cl0.exprs for e in ast.walk(ex))
        first_ok = first_ok and not any(isinstance(e, ast.Name) and e.id == V for ex in cl0.exprs for e in ast.walk(ex))
        second_ok = rd.text(n.id, a1) == V or (isinstance(a1, ast.Name) and all(d == head.id or d == n.id for d in rd.at(n.id, a1.id)))
        rep.check("C17.R3", first_ok and second_ok, f, call, "recursive merge receives (original's value, override's value) in that order", f"recursive merge arguments `{ast.unparse(a0)}`, `{ast.unparse(a1)}` are not (original's value, override's value): nested precedence is reversed or wrong")
        orig_val_text = rd.text(n.id, a0)
        g0, g1 = _isdict(ast.unparse(a0)), _isdict(ast.unparse(a1))
        both = facts.implied(n.id, g0, True, within=[head.id]) and facts.implied(n.id, g1, True, within=[head.id])
        if not both:
            # also accept Mapping
            both = all(facts.implied(n.id, ast.parse(f"isinstance({ast.unparse(x)}, Mapping)", mode="eval").body, True, within=[head.id]) for x in (a0, a1))
        one = facts.implied(n.id, g0, True, within=[head.id]) or facts.implied(n.id, g1, True, within=[head.id])
        rep.check("C17.R3", both, f, call, "the recursive merge runs only when both values are dictionaries", "the recursive merge " + ("is guarded by only one of the two isinstance tests (or by their disjunction)" if one else "is unconditional") + ": a dict/scalar collision would recurse into a non-dict / drop the override")
        # the result of the recursion is what gets stored
        flows = False
        for sn, m in stores:
            val = m.node.value
            if val is call:
                flows = True
            elif isinstance(val, ast.Name) and isinstance(n.ast, ast.Assign) and any(isinstance(t, ast.Name) and t.id == val.id for t in n.ast.targets) and n.id in rd.at(sn.id, val.id):
                flows = True
        rep.check("C17.R3", flows, f, call, "the merged value is what is stored under the key", "the result of the recursive merge is not stored")
    # plain stores: on every path that does not take the recursion, the override's value is stored,
    # and that path is only taken when NOT both values are dictionaries
    rec_ids = [n.id for n, _ in rec_nodes]
    plain_ok = False
    for sn, m in stores:
        val = m.node.value
        if any(val is c for _, c in rec_nodes):
            continue
        if isinstance(val, ast.Name):
            defs = rd.at(sn.id, val.id)
            src_ok = all(d == head.id or d in rec_ids for d in defs) and (head.id in defs) and rd.def_info(head.id, val.id) is not None and val.id == V or (rd.text(sn.id, val) == V)
            if not src_ok:
                rep.violate("C17.R3", f, m.node, f"the value assigned for an override key is `{ast.unparse(val)}`, neither the override's value nor the recursive merge")
                continue
            plain_ok = True
            if rec_nodes and orig_val_text is not None:
                conj = ast.parse(f"isinstance({orig_val_text}, dict) and isinstance({V}, dict)", mode="eval").body
                could = facts.possible(sn.id, conj, True, within=[head.id], avoid=rec_ids)
                reach_without = sn.id in cfg.reach(body_entry, avoid=[head.id] + rec_ids, edge_ok=normal)
                if reach_without:
                    rep.check("C17.R3", not could, f, m.node, "the override's value is stored as-is only when NOT both values are dictionaries", "the plain override can be stored although both values are dictionaries (the nested merge is skipped): not a deep merge")
        else:
            rep.violate("C17.R3", f, m.node, f"the value assigned for an override key is `{ast.unparse(val)}`, neither the override's value nor the recursive merge")
    if not plain_ok:
        rep.violate("C17.R3", f, loop, "no path assigns the override's value: the merge is not right-biased")

    # ------------------------------------------------------------ R5 dotted keys are ordinary
    bad = []
    uses = 0
    for n in walk_own(f.node):
        if isinstance(n, ast.Attribute) and isinstance(n.value, ast.Name) and n.value.id == K:
            bad.append((n, f"`{K}.{n.attr}`"))
        elif isinstance(n, ast.Compare) and any(isinstance(c, ast.Name) and c.id == K for c in n.comparators) and any(isinstance(o, (ast.In, ast.NotIn)) for o in n.ops):
            bad.append((n, f"`{ast.unparse(n)}`"))
        elif isinstance(n, ast.Call) and call_name(n) in ("split", "partition", "rpartition", "str") and any(isinstance(x, ast.Name) and x.id == K for x in n.args):
            bad.append((n, f"`{ast.unparse(n)}`"))
        elif isinstance(n, ast.Name) and n.id == K and isinstance(n.ctx, ast.Load):
            uses += 1
    for n, what in bad:
        rep.violate("C17.R5", f, n, f"the key is inspected as a string ({what}): dotted keys are not ordinary keys")
    if not bad:
        rep.hold("C17.R5", f, loop, f"the {uses} uses of the key are subscripts / get arguments only")
    rep.exhaustive = True
