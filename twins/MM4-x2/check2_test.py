"""
Behaviour checks for refactoring 2 (control flow restructuring: add_component() local
alias + separate duplicate check, conditional expression in ComponentContext.__init__,
resource description built from parts with a guard-clause helper, the waiting phase of
ComponentContext.get_resource() split into its own coroutine method).

Everything here goes through the public API only and must pass both on the unchanged
source and with refactor2.diff applied.
"""

from __future__ import annotations

import logging
from typing import Any

import pytest
from anyio import Event, fail_after, sleep
from pytest import LogCaptureFixture

from asphalt.core import (
    Component,
    ComponentStartError,
    Context,
    ResourceNotFound,
    add_resource,
    add_resource_factory,
    current_context,
    get_resource,
    get_resource_nowait,
    get_resources,
    start_component,
)

pytestmark = pytest.mark.anyio()


@pytest.fixture(params=["asyncio", "trio"])
def anyio_backend(request: Any) -> str:
    return request.param


def component_messages(caplog: LogCaptureFixture) -> list[str]:
    return [
        record.getMessage()
        for record in caplog.records
        if record.name == "asphalt.core"
        and (
            " added a resource" in record.getMessage()
            or " is waiting for " in record.getMessage()
            or " got the resource " in record.getMessage()
        )
    ]


class Leaf(Component):
    def __init__(self, **kwargs: Any) -> None:
        self.kwargs = kwargs
        created.append(self)


created: list[Leaf] = []


@pytest.fixture(autouse=True)
def clear_created() -> None:
    created.clear()


class TestAddComponent:
    async def test_children_and_overrides(self) -> None:
        class Container(Component):
            def __init__(self, components: Any = None) -> None:
                self.add_component("first", Leaf, a=1, nested={"x": 1, "y": 2})
                self.add_component("second", Leaf)
                self.add_component("third", type=Leaf, b=2)

        async with Context():
            container = await start_component(
                Container,
                {
                    "components": {
                        "first": {"a": 5, "nested": {"y": 3}, "c": None},
                        "second": {},
                        "fourth": {"type": Leaf, "d": 4},
                    }
                },
            )

        assert isinstance(container, Container)
        assert [leaf.kwargs for leaf in created] == [
            {"a": 5, "nested": {"x": 1, "y": 3}, "c": None},
            {},
            {"b": 2},
            {"d": 4},
        ]

    async def test_instances_do_not_share_children(self) -> None:
        class Container(Component):
            def __init__(self, aliases: list[str]) -> None:
                for alias in aliases:
                    self.add_component(alias, Leaf, alias=alias)

        async with Context():
            await start_component(Container, {"aliases": ["a", "b"]})
            await start_component(Container, {"aliases": ["b", "c"]})
            await start_component(Container, {"aliases": []})

        assert [leaf.kwargs["alias"] for leaf in created] == ["a", "b", "b", "c"]

    @pytest.mark.parametrize(
        "alias, type_, expected_type, message",
        [
            pytest.param(
                "dup",
                Leaf,
                ValueError,
                'there is already a child component named "dup"',
                id="duplicate",
            ),
            pytest.param(
                "", Leaf, TypeError, "alias must be a nonempty string", id="empty"
            ),
            pytest.param(
                None, Leaf, TypeError, "alias must be a nonempty string", id="none"
            ),
            pytest.param(
                b"dup", Leaf, TypeError, "alias must be a nonempty string", id="bytes"
            ),
        ],
    )
    async def test_errors(
        self, alias: Any, type_: Any, expected_type: type[Exception], message: str
    ) -> None:
        class Container(Component):
            def __init__(self) -> None:
                self.add_component("dup", Leaf, original=True)
                try:
                    self.add_component(alias, type_, original=False)
                except Exception as exc:
                    errors.append(exc)

        errors: list[Exception] = []
        async with Context():
            await start_component(Container)

        assert [(type(exc), str(exc)) for exc in errors] == [(expected_type, message)]
        # The failed call must not have modified or replaced the first child
        assert [leaf.kwargs for leaf in created] == [{"original": True}]

    async def test_first_call_errors_leave_no_children(self) -> None:
        class Container(Component):
            def __init__(self) -> None:
                with pytest.raises(TypeError, match="alias must be a nonempty string"):
                    self.add_component("")

        async with Context():
            await start_component(Container)

        assert created == []

    async def test_add_after_start(self) -> None:
        class Container(Component):
            async def prepare(self) -> None:
                # The "started" check comes before the alias validation
                for alias in ("late", "", "early"):
                    try:
                        self.add_component(alias, Leaf)
                    except Exception as exc:
                        errors.append(exc)

        errors: list[Exception] = []
        container = Container()
        container.add_component("early", Leaf)
        async with Context():
            with pytest.raises(RuntimeError, match="child components cannot be added"):
                (await start_component(Container)).add_component("x", Leaf)

        assert [type(exc) for exc in errors] == [RuntimeError] * 3
        assert {str(exc) for exc in errors} == {
            "child components cannot be added once start_component() has been called "
            "on the component"
        }
        assert created == []

    async def test_alias_used_as_type(self) -> None:
        class Container(Component):
            def __init__(self) -> None:
                self.add_component(f"{__name__}:Leaf", marker=1)
                self.add_component(f"{__name__}:Leaf/second", marker=2)
                self.add_component("third", "", marker=3)

        async with Context():
            with pytest.raises(LookupError):
                await start_component(Container)

        assert [leaf.kwargs for leaf in created] == [{"marker": 1}, {"marker": 2}]


async def test_component_context_targets_enclosing_plain_context() -> None:
    """
    Resources added from any depth end up in the plain context surrounding
    start_component(), and contexts created within components get that as their parent.
    """

    class Root(Component):
        def __init__(self) -> None:
            self.add_component("mid", Mid)

        async def start(self) -> None:
            add_resource("root")

    class Mid(Component):
        def __init__(self) -> None:
            self.add_component("leaf/deep", Deep)

        async def prepare(self) -> None:
            add_resource(1)

    class Deep(Component):
        async def start(self) -> None:
            component_ctx = current_context()
            parents.append(component_ctx.parent)
            assert get_resource_nowait(int) == 1
            add_resource(2.5)
            async with Context() as subcontext:
                parents.append(subcontext.parent)
                add_resource("only in subcontext", "sub")
                assert get_resource_nowait(float, "deep") == 2.5

            assert current_context() is component_ctx

    parents: list[Context | None] = []
    async with Context() as outer:
        async with Context() as inner:
            await start_component(Root)
            assert inner.get_resource_nowait(float, "deep") == 2.5
            assert get_resources(str) == {"default": "root"}
            assert current_context() is inner

        assert outer.get_resource_nowait(float, "deep", optional=True) is None

    assert parents == [inner, inner]


async def test_description_formats(caplog: LogCaptureFixture) -> None:
    class Base:
        pass

    class Derived(Base):
        pass

    class Root(Component):
        async def start(self) -> None:
            add_resource(Derived(), "multi", [Base, Derived], description="two types")
            add_resource(Derived(), "single", Base, description="")
            add_resource(Derived(), "empty_tuple", ())
            add_resource(Derived(), "tup", (Derived,), description="it's")
            add_resource_factory(lambda: 1.0, "f", types=[float, complex])
            add_resource_factory(lambda: 1.0, "g", types=float, description="d")

    caplog.set_level(logging.DEBUG, "asphalt.core")
    async with Context():
        await start_component(Root)

    prefix = f"{__name__}.test_description_formats.<locals>."
    assert component_messages(caplog) == [
        f"The root component added a resource (types=[{prefix}Base, {prefix}Derived], "
        f"name='multi', description='two types')",
        f"The root component added a resource (type={prefix}Base, name='single')",
        f"The root component added a resource (type={prefix}Derived, "
        f"name='empty_tuple')",
        f"The root component added a resource (types=[{prefix}Derived], name='tup', "
        f'description="it\'s")',
        "The root component added a resource factory (types=[float, complex], "
        "name='f')",
        "The root component added a resource factory (type=float, name='g', "
        "description='d')",
    ]


class TestWaitForResource:
    async def test_burst_of_unrelated_events(self, caplog: LogCaptureFixture) -> None:
        class Root(Component):
            def __init__(self) -> None:
                self.add_component("provider", Provider)
                self.add_component("consumer", Consumer)

        class Provider(Component):
            async def start(self) -> None:
                await waiting.wait()
                # None of these must satisfy or push out the awaited event
                for i in range(120):
                    add_resource(i, f"wanted{i}")

                add_resource(b"wrong type", "wanted")
                add_resource("wrong name", "unwanted")
                add_resource_factory(make_str, "wanted")
                add_resource("right but too late", "wanted")

        class Consumer(Component):
            async def start(self) -> None:
                waiting.set()
                assert await get_resource(str, "wanted", optional=True) is None
                with fail_after(3):
                    results.append(await get_resource(str, "wanted"))

                results.append(await get_resource(str, "wanted"))

        def make_str() -> str:
            return "from factory"

        caplog.set_level(logging.DEBUG, "asphalt.core")
        waiting = Event()
        results: list[str] = []
        async with Context():
            await start_component(Root)

        # The factory was added first, but by the time the consumer gets to run, the
        # regular resource is in place and takes precedence
        assert results == ["right but too late", "right but too late"]
        messages = [
            msg for msg in component_messages(caplog) if "Component 'consumer'" in msg
        ]
        assert messages == [
            "Component 'consumer' is waiting for another component to provide a "
            "resource (type=str, name='wanted')",
            "Component 'consumer' got the resource it was waiting for (type=str, "
            "name='wanted')",
        ]

    async def test_error_after_wakeup_keeps_exception_context(
        self, caplog: LogCaptureFixture
    ) -> None:
        class Root(Component):
            def __init__(self) -> None:
                self.add_component("provider", Provider)
                self.add_component("consumer", Consumer)

        class Provider(Component):
            async def start(self) -> None:
                await waiting.wait()
                add_resource_factory(failing_factory, "broken")

        class Consumer(Component):
            async def start(self) -> None:
                waiting.set()
                await get_resource(int, "broken")

        def failing_factory() -> int:
            raise RuntimeError("factory failure")

        caplog.set_level(logging.DEBUG, "asphalt.core")
        waiting = Event()
        async with Context():
            with pytest.raises(ComponentStartError) as exc_info:
                await start_component(Root)

        assert exc_info.value.path == "consumer"
        cause = exc_info.value.__cause__
        assert isinstance(cause, RuntimeError)
        assert str(cause) == "factory failure"
        assert isinstance(cause.__context__, ResourceNotFound)
        assert (cause.__context__.type, cause.__context__.name) == (int, "broken")
        assert component_messages(caplog) == [
            "Component 'consumer' is waiting for another component to provide a "
            "resource (type=int, name='broken')",
            "Component 'provider' added a resource factory (type=int, name='broken')",
        ]

    async def test_timeout_while_waiting(self, caplog: LogCaptureFixture) -> None:
        class Root(Component):
            def __init__(self) -> None:
                self.add_component("consumer", Consumer)
                self.add_component("bystander", Bystander)

        class Consumer(Component):
            async def start(self) -> None:
                try:
                    await get_resource(int, "never")
                except BaseException as exc:
                    cancellations.append(exc)
                    raise

        class Bystander(Component):
            async def start(self) -> None:
                await sleep(0)
                add_resource(5, "other")

        caplog.set_level(logging.DEBUG, "asphalt.core")
        cancellations: list[BaseException] = []
        async with Context():
            with pytest.raises(TimeoutError, match="timeout starting component tree"):
                await start_component(Root, timeout=0.2)

            assert get_resource_nowait(int, "other") == 5

        assert len(cancellations) == 1
        assert not isinstance(cancellations[0], Exception)
        # The wait happens while the ResourceNotFound from the first lookup is still
        # being handled
        contexts = []
        exc: BaseException | None = cancellations[0]
        while exc is not None:
            contexts.append(exc)
            exc = exc.__context__

        assert isinstance(contexts[-1], ResourceNotFound)
        assert component_messages(caplog) == [
            "Component 'consumer' is waiting for another component to provide a "
            "resource (type=int, name='never')",
            "Component 'bystander' added a resource (type=int, name='other')",
        ]
        error_messages = [
            record.getMessage()
            for record in caplog.records
            if record.levelno == logging.ERROR
        ]
        assert len(error_messages) == 1
        assert error_messages[0].startswith(
            "Timeout waiting for the component tree to start\n\n"
            "Current status of the components still waiting to finish startup\n"
            "----------------------------------------------------------------\n\n"
            "(root): starting children\n"
            "  consumer: starting\n\n"
            "Stack summaries of components still waiting to start\n"
            "----------------------------------------------------\n\n"
            f"consumer ({__name__}.TestWaitForResource.test_timeout_while_waiting."
            f"<locals>.Consumer):\n"
        )

    async def test_resource_already_present_does_not_wait(
        self, caplog: LogCaptureFixture
    ) -> None:
        class Root(Component):
            async def prepare(self) -> None:
                add_resource("present")
                add_resource_factory(lambda: 7, "made", types=int)

            async def start(self) -> None:
                assert await get_resource(str) == "present"
                assert await get_resource(int, "made") == 7
                assert await get_resource(int, "made", optional=True) == 7
                assert await get_resource(bytes, optional=True) is None

        caplog.set_level(logging.DEBUG, "asphalt.core")
        async with Context():
            await start_component(Root)

        assert not [msg for msg in component_messages(caplog) if "wait" in msg]
