"""C07 - a failing or stalling component aborts startup cleanly with a precise error."""
from __future__ import annotations

import ast

from ..cfg import handler_names, iter_own
from ..loader import exc_expr, AnalysisError, ClassInfo, FuncInfo, dotted, walk_own
from .c05 import StarterFacts
from .common import Anchors, call_name, include_rules, is_const, names_in, self_attr
from .discharge import controlling_tests


def wrap_site(ctx, rule, f: FuncInfo, target: ast.AST, phase: str, path_ok, cls_ok) -> None:
    """`target` (the constructor call / the await of the phase) is covered by `except Exception`
    raising ComponentStartError(<phase>, <path>, <class>) from the caught exception."""
    rep = ctx.rep
    a = ctx.a
    hs = a.covering_handlers(f, target)
    if not hs:
        rep.violate(rule, f, target, f"the '{phase}' site is not wrapped: a failure there surfaces as a bare exception instead of ComponentStartError('{phase}', ...)")
        return
    # innermost try
    tries = [t for t in walk_own(f.node) if isinstance(t, ast.Try) and hs[0] in t.handlers]
    t = tries[0]
    inner = list(t.handlers)
    base = [h for h in inner if h.type is None or "BaseException" in handler_names(h.type)]
    for h in base:
        raises = [r for r in ast.walk(h) if isinstance(r, ast.Raise)]
        bare_reraise = raises and all(r.exc is None for r in raises)
        if not bare_reraise:
            rep.violate(rule, f, h, f"the '{phase}' wrapper catches BaseException: cancellation of a component that is still starting is turned into (or swallowed as) a start error instead of passing through")
    swallow = [h for h in inner if not any(isinstance(r, ast.Raise) for r in ast.walk(h))]
    for h in swallow:
        rep.violate(rule, f, h, f"`except {ast.unparse(h.type) if h.type else ''}` around the '{phase}' site does not re-raise: the component carries on with its next phases although it failed or was cancelled")
    exc_h = [h for h in inner if h.type is not None and handler_names(h.type) == {"Exception"}]
    if not exc_h:
        rep.violate(rule, f, t, f"no `except Exception` handler around the '{phase}' site")
        return
    h = exc_h[0]
    # every Exception is wrapped: a narrower handler in front of the wrapper lets that class of
    # failures through as itself (ordinary exception classes only - cancellation is BaseException)
    narrower = [x for x in inner[: inner.index(h)] if x.type is not None and not (handler_names(x.type) & {"BaseException"}) and "Cancel" not in ast.unparse(x.type)]
    for x in narrower:
        rep.violate(rule, f, x, f"`except {ast.unparse(x.type)}` in front of the '{phase}' wrapper: a component failing with that exception is not reported as ComponentStartError('{phase}', path, class) with the original as its cause")
    raises = [r for r in ast.walk(h) if isinstance(r, ast.Raise) and r.exc is not None]
    if not raises or not isinstance(raises[0].exc, ast.Call) or call_name(raises[0].exc) != "ComponentStartError":
        rep.violate(rule, f, h, f"the '{phase}' handler does not raise ComponentStartError")
        return
    r = raises[0]
    args = r.exc.args
    ok_phase = len(args) == 3 and is_const(args[0], phase)
    rep.check(rule, ok_phase, f, r, f"raises ComponentStartError('{phase}', ...)", f"the '{phase}' site reports phase `{ast.unparse(args[0]) if args else '?'}`")
    if len(args) == 3:
        rep.check(rule, path_ok(args[1]), f, r, "with this component's path", f"the reported path `{ast.unparse(args[1])}` is not this component's path")
        rep.check(rule, cls_ok(args[2]), f, r, "and this component's class", f"the reported class `{ast.unparse(args[2])}` is not this component's class")
    rep.check(rule, isinstance(r.cause, ast.Name) and r.cause.id == h.name, f, r, "with the original exception as __cause__", "the original exception is not chained as the cause")
    # nothing else in the try body that could be mis-attributed
    others = []
    for st in t.body:
        for e in ast.walk(st):
            if isinstance(e, (ast.Call, ast.Await)) and e is not target and not any(x is e for x in ast.walk(target)):
                if isinstance(e, ast.Call) and (call_name(e) in ("debug", "info") or any(x is target for x in ast.walk(e))):
                    continue
                if isinstance(e, ast.Await) and any(x is target for x in ast.walk(e)):
                    continue
                others.append(e)
    rep.check(rule, not others, f, t, f"only the '{phase}' operation itself is inside the try", f"`{ast.unparse(others[0])[:60] if others else ''}` is also inside the '{phase}' try: its failure would be attributed to the wrong phase")


def run(ctx) -> None:
    rep = ctx.rep
    a = ctx.a
    an = Anchors(a)
    init, starter, SC = an.init_component, an.starter, an.start_component
    icfg = a.cfg(init)
    sf = StarterFacts(ctx, an)
    scfg = sf.cfg
    cp = starter.params[0]
    normal = lambda s, d, lab: lab not in ("e", "h")  # noqa: E731

    # ------------------------------------------------------------------ R1 three wrap sites
    ctor = None
    for call, c in a.func_calls(init):
        if isinstance(call.func, ast.Name) and any(k.arg is None for k in call.keywords) and c.kind in ("local", "param", "unknown", "global"):
            ctor = call
    sites = 0
    path_param = init.params[0]
    if ctor is None:
        rep.unrecognised("C07.R1", init, init.node, "component constructor call `cls(**config)` not found")
    else:
        sites += 1
        cls_var = ctor.func.id
        wrap_site(ctx, "C07.R1", init, ctor, "creating", lambda e: isinstance(e, ast.Name) and e.id == path_param, lambda e: isinstance(e, ast.Name) and e.id == cls_var)
    comp_cls_vars = set()
    for n in walk_own(starter.node):
        if isinstance(n, ast.Assign) and isinstance(n.value, ast.Call) and call_name(n.value) == "type" and isinstance(n.targets[0], ast.Name):
            comp_cls_vars.add(n.targets[0].id)
    path_ok = lambda e: isinstance(e, ast.Attribute) and e.attr == "path" and dotted(e.value) == cp  # noqa: E731
    cls_ok = lambda e: (isinstance(e, ast.Name) and e.id in comp_cls_vars) or (isinstance(e, ast.Call) and call_name(e) == "type")  # noqa: E731
    for ph, lit in (("prepare", "preparing"), ("start", "starting")):
        aws = sf.phase_awaits[ph]
        if not aws:
            rep.violate("C07.R1", starter, starter.node, f"{ph}() is never awaited")
            continue
        sites += 1
        aw_expr = [e for e in iter_own(scfg.own_ast(aws[0])) if isinstance(e, ast.Await)][0]
        wrap_site(ctx, "C07.R1", starter, aw_expr, lit, path_ok, cls_ok)
    rep.floor("C07.R1", sites, 3)
    # literals agree with the exception class
    cse = ctx.p.classes.get("ComponentStartError")
    if cse is None:
        raise AnalysisError("anchor-missing ComponentStartError")
    cinit = cse.methods.get("__init__")
    ann = cinit.param_annotation(cinit.params[1]) if cinit else None
    lits = {x.value for x in ast.walk(ann) if isinstance(x, ast.Constant) and isinstance(x.value, str)} if ann is not None else set()
    rep.check("C07.R1", lits == {"creating", "preparing", "starting"}, cinit, None, "ComponentStartError documents exactly the three phases", f"ComponentStartError's phase annotation lists {sorted(lits)}")
    stored = {self_attr(t) for n in walk_own(cinit.node) if isinstance(n, ast.Assign) for t in n.targets if self_attr(t)}
    assigned_ok = all(any(isinstance(n, ast.Assign) and self_attr(n.targets[0]) == fld and isinstance(n.value, ast.Name) and n.value.id == prm for n in walk_own(cinit.node)) for fld, prm in (("phase", cinit.params[1]), ("path", cinit.params[2]), ("component_type", cinit.params[3])))
    rep.check("C07.R1", assigned_ok, cinit, cinit.node, "ComponentStartError stores phase, path and component_type", f"ComponentStartError does not store its three fields correctly (stores {sorted(stored)})")

    # ------------------------------------------------------------------ R2 single failure is unwrapped
    co = ctx.p.modules["_utils"].functions.get("coalesce_exceptions") if "_utils" in ctx.p.modules else None
    if co is None:
        for m in ctx.p.modules.values():
            if "coalesce_exceptions" in m.functions:
                co = m.functions["coalesce_exceptions"]
    if co is None:
        raise AnalysisError("anchor-missing coalesce_exceptions")
    groups = 0
    for f in (starter, SC):
        cfg = a.cfg(f)
        tg_sites = []
        for n in cfg.live_nodes():
            if n.kind == "with_enter" and "create_task_group" in ast.unparse(n.item.context_expr):
                tg_sites.append((n, n.item.context_expr, "with"))
            else:
                root = cfg.own_ast(n)
                if root is not None and n.kind != "with_enter":
                    for e in iter_own(root):
                        if isinstance(e, ast.Call) and call_name(e) == "enter_async_context" and e.args and "create_task_group" in ast.unparse(e.args[0]):
                            tg_sites.append((n, e, "stack"))
        for n, expr, how in tg_sites:
            groups += 1
            # a coalesce_exceptions enter must dominate it and lie outside (entered earlier)
            cos = []
            for m in cfg.live_nodes():
                if m.kind == "with_enter" and "coalesce_exceptions" in ast.unparse(m.item.context_expr):
                    cos.append(m)
                else:
                    root = cfg.own_ast(m)
                    if root is not None and m.kind != "with_enter" and any(isinstance(e, ast.Call) and call_name(e) == "enter_async_context" and e.args and "coalesce_exceptions" in ast.unparse(e.args[0]) for e in iter_own(root)):
                        cos.append(m)
            ok = any(cfg.dominates(c.id, n.id) and c.id != n.id for c in cos)
            # guarded the same way (e.g. both under `if timeout:`) is fine: dominance covers it
            rep.check("C07.R2", ok, f, expr, "the startup task group is entered inside coalesce_exceptions(): a single failure is re-raised as itself", "a startup task group is not wrapped in coalesce_exceptions(): a single failing component surfaces as ExceptionGroup([ComponentStartError]) instead of the precise error")
            for c in cos:
                cexpr = c.item.context_expr if c.kind == "with_enter" else [e.args[0] for e in iter_own(cfg.own_ast(c)) if isinstance(e, ast.Call) and call_name(e) == "enter_async_context"][0]
                if isinstance(cexpr, ast.Call) and (cexpr.args or cexpr.keywords):
                    rep.unrecognised("C07.R2", f, cexpr, "coalesce_exceptions is called with arguments (unknown variant)")
    rep.floor("C07.R2", groups, 2)
    # coalesce_exceptions itself
    ccfg = a.cfg(co)
    hs = [h for h in walk_own(co.node) if isinstance(h, ast.ExceptHandler)]
    ok = False
    if hs and hs[0].type is not None and handler_names(hs[0].type) & {"ExceptionGroup", "BaseExceptionGroup"}:
        h = hs[0]
        raises = [r for r in ast.walk(h) if isinstance(r, ast.Raise)]
        unwrap = [r for r in raises if r.exc is not None and isinstance(r.exc, ast.Subscript) and is_const(r.exc.slice, 0)]
        rer = [r for r in raises if r.exc is None]
        tests = [t for t in ast.walk(h) if isinstance(t, ast.If)]
        cond = ast.unparse(tests[0].test) if tests else ""
        ok = bool(unwrap) and bool(rer) and "len(" in cond and "== 1" in cond and "isinstance" in cond
        if unwrap:
            r = unwrap[0]
            rep.check("C07.R2", r.cause is not None and "__cause__" in ast.unparse(r.cause), co, r, "the sole member is re-raised with its original cause", "the unwrapped exception loses its cause (ComponentStartError.__cause__)")
    rep.check("C07.R2", ok, co, co.node, "coalesce_exceptions re-raises the sole member of a one-element, non-nested group and re-raises other groups unchanged", "coalesce_exceptions does not unwrap exactly the single-failure case")

    # ------------------------------------------------------------------ R3 ancestors' start() is skipped
    if sf.tg_enter and sf.phase_calls["start"]:
        stc = sf.phase_calls["start"][0][0]
        exc_exits = [n for n in scfg.live_nodes() if n.kind == "with_exit" and n.exc_path and n.ast is sf.tg_with[0]]
        reach = scfg.reach([x.id for x in exc_exits], edge_ok=lambda s, d, lab: True)
        rep.check("C07.R3", stc.id not in reach, starter, stc.ast, "no path leads from a failed child block to this component's start()", "after a child failed the parent's start() can still run (a handler swallows the failure)")
        # prepare failing also skips children and start
        for ph in ("prepare",):
            for pa in sf.phase_awaits[ph]:
                exc = scfg.reach([d for d, lab in pa.succ if lab == "e"], edge_ok=lambda s, d, lab: True)
                bad = [x for x in (sf.tg_enter[0].id, stc.id) if x in exc]
                rep.check("C07.R3", not bad, starter, pa.ast, "a failing or cancelled prepare() reaches neither the children nor start()", "after prepare() failed or was cancelled the component goes on to start its children / itself")
        for sa_ in sf.phase_awaits["start"]:
            exc = scfg.reach([d for d, lab in sa_.succ if lab == "e"], edge_ok=lambda s, d, lab: True)
            rep.check("C07.R3", scfg.exit not in exc, starter, sa_.ast, "a failing start() never ends the starter normally", "a failing or cancelled start() lets the starter return normally")
    else:
        rep.unrecognised("C07.R3", starter, starter.node, "child block / start() site not found")

    # ------------------------------------------------------------------ R4 nothing keeps running (structured concurrency)
    spawns = 0
    for f in ctx.p.all_functions():
        if f.module is not starter.module:
            continue
        cfg = a.cfg(f)
        for call, c in a.func_calls(f):
            if call_name(call) in ("start_soon", "create_task", "ensure_future") or (call_name(call) == "start" and isinstance(call.func, ast.Attribute) and "tg" in ast.unparse(call.func.value)):
                if f.owner_class is an.ComponentContext:
                    continue
                spawns += 1
                recv = ast.unparse(call.func.value) if isinstance(call.func, ast.Attribute) else ""
                # the receiver must be bound by an `async with` (directly or through an exit stack that is itself an async-with subject) in the same function
                local_ok = False
                for w in walk_own(f.node):
                    if isinstance(w, ast.AsyncWith):
                        for it in w.items:
                            if it.optional_vars is not None and ast.unparse(it.optional_vars) == recv and "create_task_group" in ast.unparse(it.context_expr):
                                local_ok = any(x is call for x in ast.walk(w))
                            if "ExitStack" in ast.unparse(it.context_expr) and it.optional_vars is not None:
                                stack = ast.unparse(it.optional_vars)
                                for st in ast.walk(w):
                                    if isinstance(st, (ast.Assign, ast.AnnAssign)) and st.value is not None and recv in [ast.unparse(t) for t in (st.targets if isinstance(st, ast.Assign) else [st.target])] and stack in ast.unparse(st.value) and "create_task_group" in ast.unparse(st.value):
                                        local_ok = local_ok or any(x is call for x in ast.walk(w))
                rep.check("C07.R4", local_ok, f, call, "startup work is spawned on a task group scoped by an `async with` of the same function: when it raises, every task it spawned has finished", f"startup work is spawned on `{recv}`, which is not scoped to this function's `async with`: it keeps running after start_component raised")
    rep.floor("C07.R4", spawns, 2)
    # component contexts are entered with async with in the starter
    include_rules(ctx, "c12", "C07.R4", only=("C12.R6",))
    # nothing on the startup path may be shielded from cancellation: a timeout / a sibling's
    # failure could not stop it ("no startup work continues afterwards")
    shielded = []
    # the startup path: what start_component reaches through calls, spawns, context-manager
    # entries and nested functions - but not the teardown side (__aexit__ / __exit__ and the
    # callbacks they run), where shielding is legitimate
    seen: dict = {}
    TEARDOWN_REGISTRATION = {"callback", "push", "push_async_callback", "push_async_exit", "add_teardown_callback"}
    work = [SC]
    # what a component's start() calls to start work that belongs to the startup
    for nm_ in ("start_service_task", "start_background_task_factory"):
        for cls_ in (an.Context, an.ComponentContext):
            m_ = cls_.methods.get(nm_) or ctx.p.method(cls_, nm_)
            if m_ is not None:
                work.append(m_)
        # ... and the module-level forwarders of the same name
        for g_ in ctx.p.all_functions():
            if g_.cls is None and g_.parent is None and g_.name == nm_:
                work.append(g_)
    while work:
        f = work.pop()
        if id(f) in seen:
            continue
        seen[id(f)] = f
        for call, c in a.func_calls(f):
            if call_name(call) in TEARDOWN_REGISTRATION:
                continue
            tg_ = None
            if c.kind in ("func", "method") and getattr(c, "func", None) is not None:
                tg_ = [c.func]
            elif c.kind == "class" and c.cls is not None:
                tg_ = [m for nm in ("__init__", "__post_init__", "__aenter__", "__enter__") for m in [ctx.p.method(c.cls, nm)] if m is not None]
            for t_ in tg_ or []:
                if t_.name not in ("__aexit__", "__exit__"):
                    work.append(t_)
            # function values handed to a spawn / call (tg.start_soon(f, ...), partial(f, ...))
            for arg in list(call.args) + [k.value for k in call.keywords]:
                if isinstance(arg, (ast.Name, ast.Attribute)):
                    t2 = a.r.resolve_call(f, ast.Call(func=arg, args=[], keywords=[]))
                    if t2.kind in ("func", "method") and getattr(t2, "func", None) is not None and t2.func.name not in ("__aexit__", "__exit__"):
                        work.append(t2.func)
    startup_funcs = list(seen.values())
    rep.extra["startup_path_functions"] = sorted(f.qualname for f in startup_funcs)
    for f in startup_funcs:
        for n in walk_own(f.node):
            if isinstance(n, ast.Call) and any(k.arg == "shield" and not (isinstance(k.value, ast.Constant) and k.value.value is False) for k in n.keywords):
                shielded.append((f, n))
            elif isinstance(n, ast.Assign) and any(isinstance(t, ast.Attribute) and t.attr == "shield" for t in n.targets) and not (isinstance(n.value, ast.Constant) and n.value.value is False):
                shielded.append((f, n))
    for f, n in shielded:
        rep.violate("C07.R4", f, n, "a cancel scope is shielded: work started through it cannot be stopped by the startup timeout or by a sibling's failure, so startup work continues (or start_component does not return) after the error")
    if not shielded:
        rep.hold("C07.R4", starter, None, f"no shielded cancel scope in the {len(startup_funcs)} functions of the startup path", nontrivial=False)

    # ------------------------------------------------------------------ R5 watchdog
    sccfg = a.cfg(SC)
    wd = None
    wd_call = None
    for call, c in a.func_calls(SC):
        if call_name(call) == "start_soon" and call.args and isinstance(call.args[0], ast.Name):
            r = a.r.resolve_name(SC, call.args[0].id)
            if isinstance(r, FuncInfo):
                wd, wd_call = r, call
    tparam = "timeout"
    if wd is None:
        rep.violate("C07.R5", SC, SC.node, "no watchdog task: a stalling component is never timed out")
    else:
        wn = sccfg.nodes_containing(wd_call)[0]
        cts = controlling_tests(sccfg, wn)
        from .discharge import implied_at

        rep.check("C07.R5", implied_at(sccfg, wn.id, ast.Name(id=tparam, ctx=ast.Load()), "t"), SC, wd_call, "the watchdog is spawned only when a timeout is given", "the watchdog is spawned regardless of `timeout`")
        targ = [x for x in wd_call.args[1:] if isinstance(x, ast.Name) and x.id == tparam]
        rep.check("C07.R5", bool(targ), SC, wd_call, "the watchdog receives the caller's timeout", "the watchdog does not get the caller's timeout value")
        wcfg = a.cfg(wd)
        sleeps = [n for n in wcfg.live_nodes() if any(call_name(c) == "sleep" for c, _ in a.node_calls(wd, wcfg, n))]
        wt = wd.params[wd_call.args.index(targ[0])-1] if targ else None
        if sleeps:
            sc = [c for c, _ in a.node_calls(wd, wcfg, sleeps[0]) if call_name(c) == "sleep"][0]
            rep.check("C07.R5", len(sc.args) == 1 and isinstance(sc.args[0], ast.Name) and sc.args[0].id == wt, wd, sc, "the watchdog sleeps for exactly the timeout", f"the watchdog sleeps for `{ast.unparse(sc.args[0]) if sc.args else '?'}`")
            after = wcfg.reach([sleeps[0].id], edge_ok=normal)
            rep.check("C07.R5", wcfg.exit not in after, wd, wd.node, "after the sleep every path raises", "the watchdog can return normally after the timeout elapsed (no TimeoutError)")
            raises = [wcfg.nodes[i] for i in after if wcfg.nodes[i].kind == "stmt" and isinstance(wcfg.nodes[i].ast, ast.Raise)]
            rep.check("C07.R5", bool(raises) and all("TimeoutError" in ast.unparse(exc_expr(r.ast)) for r in raises if r.ast.exc is not None), wd, raises[0].ast if raises else wd.node, "it raises TimeoutError", "the watchdog raises something other than TimeoutError")
            before = [n for n in wcfg.live_nodes() if sleeps[0].id in wcfg.reach([n.id], edge_ok=normal) and n.id != sleeps[0].id and a.node_checkpoints(wd, wcfg, n)]
            rep.check("C07.R5", not before, wd, sleeps[0].ast, "nothing else is awaited before the sleep", "the watchdog awaits something before sleeping")
        else:
            rep.violate("C07.R5", wd, wd.node, "the watchdog never sleeps for the timeout")
        cancels = [n for n in sccfg.live_nodes() if any(call_name(c) == "cancel" for c, _ in a.node_calls(SC, sccfg, n))]
        st_nodes = [n for n in sccfg.live_nodes() if any(c.kind == "func" and c.func is starter for _, c in a.node_calls(SC, sccfg, n))]
        ok_cancel = len(cancels) == 1 and bool(st_nodes) and sccfg.all_paths_pass(sccfg.entry, [cancels[0].id], [x.id for x in st_nodes], edge_ok=normal) and all(cancels[0].id not in sccfg.reach([d for d, lab in x.succ if lab == "e"], edge_ok=lambda s, d, lab: lab in ("e", "h")) for x in st_nodes)
        if cancels:
            # the watchdog's group exists only when a timeout was given: the cancel must be
            # guarded accordingly, or a startup without timeout crashes after it succeeded
            from .discharge import controlling_conditions as _cc5

            recv_names = {x.id for c_ in walk_own(SC.node) if isinstance(c_, ast.Call) and call_name(c_) == "cancel" for x in ast.walk(c_.func) if isinstance(x, ast.Name)}
            conds5 = _cc5(sccfg, cancels[0])
            guarded5 = any((truth and isinstance(e_, ast.Name) and e_.id in recv_names | {tparam}) or (not truth and isinstance(e_, ast.Compare) and isinstance(e_.ops[0], ast.Is) and isinstance(e_.left, ast.Name) and e_.left.id in recv_names | {tparam}) for e_, truth, _t in conds5)
            unconditional_group = not any(isinstance(e_, ast.Name) and e_.id == tparam for e_, _tr, _t in _cc5(sccfg, wn))
            rep.check("C07.R5", guarded5 or unconditional_group, SC, cancels[0].ast, "the watchdog scope is cancelled only when it exists (a timeout was given)", "the watchdog's task group is cancelled even when no timeout was given (it is None then): a startup without timeout fails after it has succeeded")
        rep.check("C07.R5", ok_cancel, SC, cancels[0].ast if cancels else SC.node, "the watchdog's scope is cancelled only after the starter completed (a startup that finished is never timed out, one that has not is never cancelled by anything else)", "the watchdog scope is cancelled on some other path, or never")
    # ------------------------------------------------------------------ R6 registrations survive
    include_rules(ctx, "c02", "C07.R6", only=("C02.R4",))
    # a service task started by a component is owned by the surrounding context only if
    # nothing can interrupt start_service_task between the start and the finalizer's registration
    include_rules(ctx, "c08", "C07.R6", only=("C08.R3",))
    # "exactly what was registered before the failure": a registration that fails leaves nothing
    # behind (C03.R1)
    include_rules(ctx, "c03", "C07.R6", only=("C03.R1",))
    rep.assume("anyio: when a child task raises, the task group cancels the remaining children and re-raises at its exit; cancellation is not an Exception subclass")
