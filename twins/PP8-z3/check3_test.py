"""
Behaviour checks for refactoring 3 (``_runner.py``: ``_configure_logging()`` and
``_exit_code_from_result()`` extracted, the two startup failure handlers merged into
one, locals renamed, termination signals hoisted to a module level constant).

Everything goes through the public ``run_application()``, on both backends.
"""

from __future__ import annotations

import logging
import platform
import signal
import warnings
from typing import Any
from unittest.mock import patch

import anyio
import pytest
from _pytest.logging import LogCaptureFixture
from anyio import sleep, to_thread, wait_all_tasks_blocked

from asphalt.core import (
    CLIApplicationComponent,
    Component,
    add_teardown_callback,
    get_resource,
    run_application,
    start_service_task,
)

not_windows = pytest.mark.skipif(
    platform.system() == "Windows", reason="Signals don't work on Windows"
)

STARTED = [
    "Running in development mode",
    "Starting application",
    "Application started",
]
STOPPED = "Application stopped"

events: list[Any] = []


@pytest.fixture(autouse=True)
def clear_events() -> None:
    events.clear()


@pytest.fixture(params=["asyncio", "trio"])
def backend(request: Any) -> str:
    return request.param


def teardown(exception: BaseException | None) -> None:
    events.append(("teardown", type(exception).__name__))


class ResultApp(CLIApplicationComponent):
    def __init__(self, result: Any = None) -> None:
        super().__init__()
        self.result = result

    async def start(self) -> None:
        add_teardown_callback(teardown, pass_exception=True)

    async def run(self) -> Any:
        events.append("run")
        return self.result


class Weird:
    pass


def exit_code_of(component: Any, config: dict[str, Any], **kwargs: Any) -> Any:
    try:
        run_application(component, config, logging=None, **kwargs)
    except SystemExit as exc:
        return exc.code

    return "no exit"


# --- the result of run() ---------------------------------------------------------


@pytest.mark.parametrize(
    "result, expected",
    [(None, "no exit"), (0, "no exit"), (False, "no exit"), (1, 1), (True, True)]
    + [(127, 127), (64, 64)],
    ids=repr,
)
def test_acceptable_results(
    backend: str, caplog: LogCaptureFixture, result: Any, expected: Any
) -> None:
    caplog.set_level(logging.INFO, "asphalt.core")
    with warnings.catch_warnings():
        warnings.simplefilter("error")
        code = exit_code_of(ResultApp, {"result": result}, backend=backend)

    assert code == expected and type(code) is type(expected)
    assert events == ["run", ("teardown", "NoneType")]
    assert caplog.messages == [*STARTED, STOPPED]


@pytest.mark.parametrize(
    "result, message",
    [
        (128, "exit code out of range: 128"),
        (-1, "exit code out of range: -1"),
        (10**30, f"exit code out of range: {10**30}"),
        ("1", "run() must return an integer or None, not str"),
        (0.0, "run() must return an integer or None, not float"),
        ((), "run() must return an integer or None, not tuple"),
        (
            Weird(),
            f"run() must return an integer or None, not {__name__}.Weird",
        ),
    ],
    ids=["128", "-1", "huge", "str", "float", "tuple", "object"],
)
def test_unacceptable_results(
    backend: str, caplog: LogCaptureFixture, result: Any, message: str
) -> None:
    caplog.set_level(logging.INFO, "asphalt.core")
    with pytest.warns(UserWarning) as record:
        code = exit_code_of(ResultApp, {"result": result}, backend=backend)

    assert code == 1 and type(code) is int
    assert [(str(w.message), w.category) for w in record] == [(message, UserWarning)]
    assert record[0].filename.endswith("_runner.py")
    # The context was torn down without an error, after the warning
    assert events == ["run", ("teardown", "NoneType")]
    assert caplog.messages == [*STARTED, STOPPED]


def test_warning_as_error_propagates(backend: str) -> None:
    """If warnings are errors, the warning comes out of run_application()."""
    with warnings.catch_warnings():
        warnings.simplefilter("error")
        with pytest.raises(UserWarning, match="exit code out of range: 300"):
            run_application(ResultApp, {"result": 300}, logging=None, backend=backend)

    assert events == ["run", ("teardown", "UserWarning")]


def test_run_raises_base_exception(backend: str, caplog: LogCaptureFixture) -> None:
    class Quitter(ResultApp):
        async def run(self) -> Any:
            raise SystemExit(42)

    caplog.set_level(logging.INFO, "asphalt.core")
    with pytest.raises(BaseException) as exc_info:
        run_application(Quitter, logging=None, backend=backend)

    exc = exc_info.value
    while isinstance(exc, BaseExceptionGroup) and len(exc.exceptions) == 1:
        exc = exc.exceptions[0]

    assert isinstance(exc, SystemExit)
    assert exc.code == 42
    assert events == [("teardown", "SystemExit")]
    assert caplog.messages == [*STARTED, STOPPED]


# --- startup failures --------------------------------------------------------------


class FailingStart(Component):
    def __init__(self, exception: Any) -> None:
        self.exception = exception

    async def start(self) -> None:
        add_teardown_callback(teardown, pass_exception=True)
        raise self.exception


@pytest.mark.parametrize(
    "exception",
    [RuntimeError("boom"), KeyError("key"), TimeoutError("not that timeout")],
    ids=["runtimeerror", "keyerror", "timeouterror"],
)
def test_startup_exception_is_logged(
    backend: str, caplog: LogCaptureFixture, exception: Exception
) -> None:
    """
    Exceptions from start() arrive wrapped in ComponentStartError (even a
    TimeoutError), so they are logged with a traceback.
    """
    caplog.set_level(logging.INFO, "asphalt.core")
    code = exit_code_of(FailingStart, {"exception": exception}, backend=backend)
    assert code == 1
    assert caplog.messages == [
        "Running in development mode",
        "Starting application",
        "Error during application startup",
        STOPPED,
    ]
    record = caplog.records[2]
    assert record.levelno == logging.ERROR
    assert record.exc_info is not None
    assert type(record.exc_info[1]).__name__ == "ComponentStartError"
    assert record.exc_info[1].__cause__ is exception
    assert events == [("teardown", "NoneType")]


def test_startup_bad_component_reference(
    backend: str, caplog: LogCaptureFixture
) -> None:
    caplog.set_level(logging.INFO, "asphalt.core")
    code = exit_code_of("nonexistent.module:Component", {}, backend=backend)
    assert code == 1
    assert caplog.messages[2] == "Error during application startup"
    assert caplog.records[2].exc_info is not None
    assert isinstance(caplog.records[2].exc_info[1], LookupError)
    assert caplog.messages[3:] == [STOPPED]


def test_startup_timeout_is_not_logged_as_error(
    backend: str, caplog: LogCaptureFixture
) -> None:
    class Staller(Component):
        async def start(self) -> None:
            add_teardown_callback(teardown, pass_exception=True)
            await get_resource(float)

    caplog.set_level(logging.INFO, "asphalt.core")
    code = exit_code_of(Staller, {}, backend=backend, start_timeout=0.1)
    assert code == 1
    assert len(caplog.messages) == 4
    assert caplog.messages[:2] == STARTED[:2]
    assert caplog.messages[2].startswith(
        "Timeout waiting for the component tree to start"
    )
    assert caplog.messages[3] == STOPPED
    assert "Error during application startup" not in caplog.messages
    assert [event[0] for event in events] == ["teardown"]


class SignalComponent(Component):
    def __init__(self, signum: int, during_start: bool) -> None:
        self.signum = signum
        self.during_start = during_start

    async def raise_later(self) -> None:
        await wait_all_tasks_blocked()
        events.append("raising")
        signal.raise_signal(self.signum)

    async def start(self) -> None:
        add_teardown_callback(teardown, pass_exception=True)
        if self.during_start:
            signal.raise_signal(self.signum)
            await sleep(3)
            events.append("not reached")
        else:
            await start_service_task(self.raise_later, "raiser")


@not_windows
@pytest.mark.parametrize(
    "signum, name",
    [(signal.SIGINT, "Interrupt"), (signal.SIGTERM, "Terminated")],
    ids=["sigint", "sigterm"],
)
def test_signal_cancels_startup(
    backend: str, caplog: LogCaptureFixture, signum: int, name: str
) -> None:
    caplog.set_level(logging.INFO, "asphalt.core")
    code = exit_code_of(
        SignalComponent, {"signum": signum, "during_start": True}, backend=backend
    )
    assert code == 1
    assert caplog.messages == [
        "Running in development mode",
        "Starting application",
        f"Received signal ({name}) – terminating application",
        STOPPED,
    ]
    assert events == [("teardown", "NoneType")]


@not_windows
@pytest.mark.parametrize(
    "signum, name",
    [(signal.SIGINT, "Interrupt"), (signal.SIGTERM, "Terminated")],
    ids=["sigint", "sigterm"],
)
def test_signal_stops_running_application(
    backend: str, caplog: LogCaptureFixture, signum: int, name: str
) -> None:
    caplog.set_level(logging.INFO, "asphalt.core")
    code = exit_code_of(
        SignalComponent, {"signum": signum, "during_start": False}, backend=backend
    )
    assert code == "no exit"
    assert caplog.messages == [
        *STARTED,
        f"Received signal ({name}) – terminating application",
        STOPPED,
    ]
    assert events == ["raising", ("teardown", "NoneType")]


@not_windows
def test_other_signals_are_not_handled(backend: str) -> None:
    """Only SIGTERM and SIGINT are received by the signal handler task."""
    received = []
    previous = signal.signal(signal.SIGUSR1, lambda *args: received.append(args[0]))

    class Usr1Component(Component):
        async def stopper(self) -> None:
            await wait_all_tasks_blocked()
            signal.raise_signal(signal.SIGUSR1)
            await sleep(0.05)
            signal.raise_signal(signal.SIGTERM)

        async def start(self) -> None:
            await start_service_task(self.stopper, "stopper")

    try:
        assert exit_code_of(Usr1Component, {}, backend=backend) == "no exit"
    finally:
        signal.signal(signal.SIGUSR1, previous)

    assert received == [signal.SIGUSR1]


def test_service_task_crash_while_running(
    backend: str, caplog: LogCaptureFixture
) -> None:
    class Crasher(Component):
        async def crash(self) -> None:
            await wait_all_tasks_blocked()
            raise RuntimeError("service task crashed")

        async def start(self) -> None:
            add_teardown_callback(teardown, pass_exception=True)
            await start_service_task(self.crash, "crasher")

    caplog.set_level(logging.INFO, "asphalt.core")
    with pytest.raises(BaseException) as exc_info:
        run_application(Crasher, logging=None, backend=backend)

    exc = exc_info.value
    while isinstance(exc, BaseExceptionGroup) and len(exc.exceptions) == 1:
        exc = exc.exceptions[0]

    assert isinstance(exc, RuntimeError)
    assert str(exc) == "service task crashed"
    assert caplog.messages[:3] == STARTED
    assert caplog.messages[-1] == STOPPED
    assert [event[0] for event in events] == ["teardown"]


# --- logging and thread limit ------------------------------------------------------


@pytest.mark.parametrize(
    "config, basic_calls, dict_calls",
    [
        (None, 0, 0),
        (logging.WARNING, 1, 0),
        (0, 1, 0),
        (True, 1, 0),
        ({}, 0, 1),
        ({"version": 1}, 0, 1),
        ("INFO", 0, 0),
    ],
    ids=["none", "level", "zero", "bool", "emptydict", "dict", "str"],
)
def test_logging_configuration(
    config: Any, basic_calls: int, dict_calls: int, caplog: LogCaptureFixture
) -> None:
    caplog.set_level(logging.INFO, "asphalt.core")
    with (
        patch("asphalt.core._runner.basicConfig") as basic_config,
        patch("asphalt.core._runner.dictConfig") as dict_config,
    ):
        run_application(ResultApp, logging=config)

    assert basic_config.call_count == basic_calls
    assert dict_config.call_count == dict_calls
    if basic_calls:
        basic_config.assert_called_once_with(level=config)
    if dict_calls:
        dict_config.assert_called_once_with(config)

    # Logging is configured before the first message is logged
    assert caplog.messages == [*STARTED, STOPPED]


def test_logging_configuration_error_prevents_startup(
    caplog: LogCaptureFixture,
) -> None:
    caplog.set_level(logging.INFO, "asphalt.core")
    with pytest.raises(ValueError):
        run_application(ResultApp, logging={"version": 99})

    assert caplog.messages == []
    assert events == []


@pytest.mark.parametrize("max_threads", [None, 7])
def test_max_threads(backend: str, max_threads: int | None) -> None:
    observed: list[float] = []

    class LimiterApp(CLIApplicationComponent):
        async def start(self) -> None:
            observed.append(to_thread.current_default_thread_limiter().total_tokens)

        async def run(self) -> None:
            observed.append(to_thread.current_default_thread_limiter().total_tokens)

    async def default_tokens() -> float:
        return to_thread.current_default_thread_limiter().total_tokens

    expected = max_threads or anyio.run(default_tokens, backend=backend)
    run_application(LimiterApp, logging=None, max_threads=max_threads, backend=backend)
    assert observed == [expected, expected]
