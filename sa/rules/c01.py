"""C01 - context teardown runs every callback exactly once, LIFO, one at a time."""
from __future__ import annotations

import ast

from .. import extern
from ..cfg import CFG, Node, handler_names, iter_own
from ..dataflow import PARAM, ReachingDefs
from ..loader import AnalysisError, FuncInfo, dotted, walk_own
from .common import Anchors, call_name, enum_member, is_const, names_in, self_attr
from .discharge import controlling_tests
from .tables import table_mutations

REGISTRATIONS = {"callback", "push", "push_async_callback", "push_async_exit", "enter_context", "enter_async_context"}


def exit_stack_registrations(ctx, f: FuncInfo) -> list:
    """[(cfg node, call, method name)] of registrations on an exit stack inside f, source order."""
    a = ctx.a
    cfg = a.cfg(f)
    out = []
    for n in cfg.live_nodes():
        for call, c in a.node_calls(f, cfg, n):
            nm = call_name(call)
            if nm in REGISTRATIONS and isinstance(call.func, ast.Attribute):
                t = a.r.expr_type(f, call.func.value)
                if (isinstance(t, str) and "ExitStack" in t) or "stack" in ast.unparse(call.func.value).lower():
                    out.append((n, call, nm))
    out.sort(key=lambda x: (x[1].lineno, x[1].col_offset))
    return out


def runner_of(ctx, an: Anchors):
    """(runner FuncInfo, registration node, call, method) - the coroutine that drains the teardown stack."""
    aenter = an.ctx_method("__aenter__")
    regs = exit_stack_registrations(ctx, aenter)
    cands = []
    for n, call, nm in regs:
        if nm in ("push_async_callback", "push_async_exit", "callback", "push") and call.args:
            tgt = call.args[0]
            if isinstance(tgt, ast.Attribute) and isinstance(tgt.value, ast.Name) and tgt.value.id == "self":
                m = ctx.p.method(an.Context, tgt.attr)
                if m is not None:
                    # does it pop / iterate the teardown stack?
                    touches = any(isinstance(x, ast.Attribute) and x.attr == an.teardown_stack for x in walk_own(m.node))
                    if not touches:
                        # ... or hands the draining to a helper method of the context
                        for x in walk_own(m.node):
                            if isinstance(x, ast.Call) and isinstance(x.func, ast.Attribute) and isinstance(x.func.value, ast.Name) and x.func.value.id == "self":
                                h = ctx.p.method(an.Context, x.func.attr)
                                if h is not None and any(isinstance(y, ast.Attribute) and y.attr == an.teardown_stack for y in walk_own(h.node)):
                                    touches = True
                    if touches:
                        cands.append((m, n, call, nm))
    if not cands:
        raise AnalysisError("anchor-missing teardown runner (no exit-stack registration in Context.__aenter__ that touches the teardown stack)")
    return cands[-1], regs


def run(ctx) -> None:
    rep = ctx.rep
    a = ctx.a
    an = Anchors(a)
    stack = an.teardown_stack
    aexit = an.ctx_method("__aexit__")
    try:
        (runner, reg_node, reg_call, reg_kind), regs = runner_of(ctx, an)
    except AnalysisError:
        # the drain is not registered on the exit stack.  One thing can be decided all the same
        # when __aexit__ calls it directly: whatever the drain raises (the exception group) must
        # leave __aexit__ - a handler around the call that does not re-raise swallows it.
        swallowed = False
        from ..loader import exc_expr as _exc_expr

        sources = []  # (node the group comes out of, description)
        for call, c in a.func_calls(aexit):
            if c.kind == "func" and c.func.cls is an.Context and any(isinstance(x, ast.Attribute) and x.attr == stack for x in walk_own(c.func.node)):
                sources.append((call, f"{c.func.name}()"))
        if any(isinstance(x, ast.Attribute) and x.attr == stack for x in walk_own(aexit.node)):
            # the drain itself has been folded into __aexit__
            for r_ in walk_own(aexit.node):
                if isinstance(r_, ast.Raise) and r_.exc is not None and "ExceptionGroup" in ast.unparse(_exc_expr(r_)):
                    sources.append((r_, "the teardown loop"))
        for call, what in sources:
            for h in a.covering_handlers(aexit, call):
                catches = h.type is None or any(nm in ast.unparse(h.type) for nm in ("BaseException", "Exception", "ExceptionGroup"))
                reraises = any(isinstance(x, ast.Raise) for x in ast.walk(h))
                if catches and not reraises:
                    rep.violate("C01.R5", aexit, h, f"the exception group raised by {what} is caught in __aexit__ (`except {ast.unparse(h.type) if h.type is not None else ''}`) and not re-raised: where nothing else raises it again (any context that is not the root) the callbacks' exceptions are dropped and the caller sees the block's own outcome")
                    swallowed = True
        if swallowed:
            return
        raise
    aenter = an.ctx_method("__aenter__")
    register = an.ctx_method("add_teardown_callback")
    cfg = a.cfg(runner)
    rd = ReachingDefs(a, runner)

    # ------------------------------------------------------------------ R1 drain loop
    pops = [(n, m) for n, m in a.func_mutations(runner) if m.path == ("self", stack) and m.kind == "call:pop"]
    def _iterates_stack(lp) -> bool:
        if any(isinstance(x, ast.Attribute) and x.attr == stack for x in ast.walk(lp.iter)):
            return True
        for nd in cfg.live_nodes():
            if nd.kind == "for_iter" and nd.ast is lp:
                cl = rd.closure_at(nd.id, lp.iter)
                if any(x.endswith("." + stack) for x in cl.attrs):
                    return True
                for c_ in cl.calls:
                    cal = a.callee(runner, c_)
                    if cal.kind == "func" and cal.func.cls is an.Context and any(isinstance(y, ast.Attribute) and y.attr == stack for y in walk_own(cal.func.node)):
                        return True
        return False

    for_loops = [n for n in walk_own(runner.node) if isinstance(n, (ast.For, ast.AsyncFor)) and _iterates_stack(n)]
    for lp in for_loops:
        rep.violate("C01.R1", runner, lp, f"teardown iterates `{ast.unparse(lp.iter)}` (a snapshot / the list itself) instead of draining the live stack: callbacks registered during teardown are dropped (or order is wrong)")
    head = None
    loop_nodes: set = set()
    if not pops:
        if not for_loops:
            rep.violate("C01.R1", runner, runner.node, "the teardown runner never pops from the callback stack")
    else:
        pn, pm = pops[0]
        pargs = pm.node.args
        lifo = not pargs or (len(pargs) == 1 and isinstance(pargs[0], ast.UnaryOp) and isinstance(pargs[0].op, ast.USub) and is_const(pargs[0].operand, 1)) or (len(pargs) == 1 and is_const(pargs[0], -1))
        rep.check("C01.R1", lifo, runner, pm.node, "one element is removed from the END of the stack per iteration (LIFO)", f"`{ast.unparse(pm.node)}` does not remove the most recently registered callback: order is not reverse registration order")
        # the enclosing while loop
        whiles = [w for w in walk_own(runner.node) if isinstance(w, ast.While) and any(x is pm.node for x in ast.walk(w))]
        if not whiles:
            rep.violate("C01.R1", runner, pm.node, "the pop is not inside a loop: only one callback runs")
        else:
            w = whiles[-1]
            heads = [n for n in cfg.live_nodes() if n.kind == "test" and n.ast is w.test]
            if heads:
                head = heads[0]
                loop_nodes = cfg.reach([d for d, lab in head.succ if lab == "t"], avoid=[head.id]) & cfg.reach_back([head.id], include_start=False)
                loop_nodes |= {d for d, lab in head.succ if lab == "t"}
            live_test = any(isinstance(x, ast.Attribute) and x.attr == stack for x in ast.walk(w.test))
            if not live_test and isinstance(w.test, ast.Constant) and w.test.value is True:
                # while True: accept "if not stack: break" or "try: pop() except IndexError: break"
                brk_tests = [s for s in ast.walk(w) if isinstance(s, ast.If) and any(isinstance(b, ast.Break) for b in s.body) and any(isinstance(x, ast.Attribute) and x.attr == stack for x in ast.walk(s.test))]
                idx = [h for t in ast.walk(w) if isinstance(t, ast.Try) for h in t.handlers if h.type is not None and "IndexError" in ast.unparse(h.type) and any(isinstance(b, ast.Break) for b in h.body) and any(x is pm.node for x in ast.walk(t))]
                live_test = bool(brk_tests or idx)
            rep.check("C01.R1", live_test, runner, w, "the loop continues while the LIVE stack is non-empty: callbacks registered during teardown are run too", f"the loop condition `{ast.unparse(w.test)}` does not re-read the live callback stack")
            # exactly one pop per iteration
            inner = [x for x in ast.walk(w) if isinstance(x, (ast.For, ast.While, ast.AsyncFor)) and x is not w and any(y is pm.node for y in ast.walk(x))]
            rep.check("C01.R1", not inner and len(pops) == len({id(m.node) for _, m in pops}) and len({id(m.node) for _, m in pops}) == 1, runner, pm.node, "exactly one pop per iteration", "several pops per iteration / nested loop: callbacks are skipped")
    rep.floor("C01.R1", len(pops) + len(for_loops), 1)

    # ------------------------------------------------------------------ callback invocations
    cb_calls = []  # (cfg node, call, nargs)
    popped_vars: dict = {}
    for n in walk_own(runner.node):
        if isinstance(n, ast.Assign) and isinstance(n.value, ast.Call) and call_name(n.value) == "pop" and isinstance(n.value.func, ast.Attribute) and self_attr(n.value.func.value) == stack:
            t = n.targets[0]
            if isinstance(t, ast.Tuple) and len(t.elts) == 2 and all(isinstance(e, ast.Name) for e in t.elts):
                popped_vars = {"cb": t.elts[0].id, "flag": t.elts[1].id}
            elif isinstance(t, ast.Name):
                popped_vars = {"entry": t.id}
        if isinstance(n, (ast.For, ast.AsyncFor)) and n in for_loops and isinstance(n.target, ast.Tuple) and len(n.target.elts) == 2:
            popped_vars = {"cb": n.target.elts[0].id, "flag": n.target.elts[1].id}
    cbv = popped_vars.get("cb")
    for n in cfg.live_nodes():
        for call, c in a.node_calls(runner, cfg, n):
            f_ = call.func
            target = None
            if isinstance(f_, ast.Name):
                target = f_.id
            elif isinstance(f_, ast.Call) and call_name(f_) == "cast" and len(f_.args) == 2 and isinstance(f_.args[1], ast.Name):
                target = f_.args[1].id
            if target is not None and target == cbv:
                cb_calls.append((n, call))
    if not cb_calls:
        rep.unrecognised("C01.R2", runner, runner.node, "cannot find where the popped callback is invoked")
        return
    rep.floor("C01.R2", len(cb_calls), 1)

    # ------------------------------------------------------------------ R2 isolation
    for n, call in cb_calls:
        hs = a.covering_handlers(runner, call)
        catch_all = [h for h in hs if h.type is None or "BaseException" in handler_names(h.type)]
        if not catch_all:
            kinds = [ast.unparse(h.type) for h in hs if h.type is not None]
            rep.violate("C01.R2", runner, call, f"the callback call is covered only by handlers for {kinds or 'nothing'}: a BaseException (e.g. cancellation, KeyboardInterrupt) from one callback skips all remaining callbacks")
            continue
        # every handler of the protecting try statement (not only the catch-all one) must
        # lead back to the loop: `except Cancelled: raise` in front of it skips the rest
        first_try = [t for t in walk_own(runner.node) if isinstance(t, ast.Try) and catch_all[0] in t.handlers]
        same_try = list(first_try[0].handlers) if first_try else [catch_all[0]]
        inner_hs = hs[: hs.index(catch_all[0]) + 1]
        for h in dict.fromkeys(list(inner_hs) + same_try):
            hn = [x for x in cfg.live_nodes() if x.kind == "handler" and x.ast is h]
            ok = True
            why = ""
            if head is not None and hn:

                def edge_ok(src: Node, dst: int, lab: str) -> bool:
                    if lab == "e":
                        return bool(a.node_may_raise(runner, cfg, src))
                    return True

                r = cfg.reach([hn[0].id], avoid=[head.id], edge_ok=edge_ok)
                after_loop = cfg.reach([d for d, lab in head.succ if lab == "f"], avoid=[head.id])
                leaves = (r & {cfg.exit, cfg.raise_exit}) | (r & after_loop)
                if leaves:
                    ok = False
                    why = f"the `except {ast.unparse(h.type) if h.type is not None else ''}` handler can leave the loop (raise / return / break): the remaining callbacks are skipped and collected exceptions are lost"
            rep.check("C01.R2", ok, runner, h, "an exception from a callback is caught and the loop continues with the next callback", why)
    # the await of the callback's result is inside the same protection
    awaits = []
    for n in cfg.live_nodes():
        root = cfg.own_ast(n)
        if root is None:
            continue
        for e in iter_own(root):
            if isinstance(e, ast.Await):
                awaits.append((n, e))
    ret_awaits = []
    for n, e in awaits:
        if isinstance(e.value, ast.Name):
            defs = rd.at(n.id, e.value.id)
            if any(d in [cn.id for cn, _ in cb_calls] for d in defs):
                ret_awaits.append((n, e))
        elif isinstance(e.value, ast.Call) and any(e.value is c for _, c in cb_calls):
            ret_awaits.append((n, e))
    if not ret_awaits:
        rep.violate("C01.R3", runner, cb_calls[0][1], "an awaitable returned by a callback is never awaited: async callbacks do not complete (or overlap) before the next one starts")
    for n, e in ret_awaits:
        hs = a.covering_handlers(runner, e)
        ok = any(h.type is None or "BaseException" in handler_names(h.type) for h in hs)
        rep.check("C01.R2", ok, runner, e, "the await of the callback's result is covered by the BaseException handler", "an exception raised while awaiting the callback's result escapes the loop")

    # ------------------------------------------------------------------ R3 sequential
    if head is not None and ret_awaits:
        aw_ids = {n.id for n, _ in ret_awaits}
        tests = [t for t in cfg.live_nodes() if t.kind == "test" and any(isinstance(x, ast.Call) and call_name(x) in ("isawaitable", "iscoroutine", "isfuture") for x in ast.walk(t.ast))]
        for cn, call in cb_calls:
            if cn.id in aw_ids:
                rep.hold("C01.R3", runner, call, "callback result awaited in the same statement")
                continue

            def edge_ok(src: Node, dst: int, lab: str) -> bool:
                return lab != "e" and lab != "h"

            r = cfg.reach([cn.id], avoid=list(aw_ids) + [t.id for t in tests], edge_ok=edge_ok)
            ok = head.id not in r
            for t in tests:
                tside = [d for d, lab in t.succ if lab == "t"]
                if head.id in cfg.reach(tside, avoid=list(aw_ids) + [t.id], edge_ok=edge_ok):
                    ok = False
            rep.check("C01.R3", ok, runner, call, "every awaitable result is awaited in the same iteration, before the next callback is popped", "the loop can proceed to the next callback without awaiting the previous callback's awaitable")
    spawned = [c for n in loop_nodes for c, cal in a.node_calls(runner, cfg, cfg.nodes[n]) if call_name(c) in extern.SPAWN_METHODS]
    for c in spawned:
        rep.violate("C01.R3", runner, c, f"`{ast.unparse(c.func)}` inside the teardown loop runs callbacks concurrently")
    if not spawned:
        rep.hold("C01.R3", runner, runner.node, "no spawn primitive in the teardown loop")

    # ------------------------------------------------------------------ R4 exception argument
    # argument sites: (cfg node at which the argument tuple is decided, report node, exception expr or None)
    from ..facts import Facts

    facts = Facts(a, runner, rd)
    sites = []
    for n, c in cb_calls:
        if c.keywords:
            rep.unrecognised("C01.R4", runner, c, "callback invoked with keyword arguments")
        elif len(c.args) == 1 and isinstance(c.args[0], ast.Starred) and isinstance(c.args[0].value, ast.Name):
            av = c.args[0].value.id
            for d in rd.at(n.id, av):
                info = rd.def_info(d, av)
                v = info[1] if info else None
                if isinstance(v, ast.Tuple) and len(v.elts) <= 1:
                    sites.append((cfg.nodes[d], c, v.elts[0] if v.elts else None))
                else:
                    rep.unrecognised("C01.R4", runner, c, f"cannot tell what `*{av}` passes to the callback")
        elif len(c.args) == 1 and not isinstance(c.args[0], ast.Starred):
            sites.append((n, c, c.args[0]))
        elif not c.args:
            sites.append((n, c, None))
        else:
            rep.unrecognised("C01.R4", runner, c, "callback invoked with an unexpected argument list")
    with_arg = [(n, c, e) for n, c, e in sites if e is not None]
    no_arg = [(n, c, e) for n, c, e in sites if e is None]
    if not with_arg or not no_arg:
        rep.violate("C01.R4", runner, cb_calls[0][1], "callbacks are not invoked in the two documented ways (with the exception when pass_exception is set, without arguments otherwise)")
    flag = popped_vars.get("flag")
    within = [head.id] if head is not None else None
    for n, c, e in no_arg:
        if flag:
            rep.check("C01.R4", facts.implied(n.id, ast.Name(id=flag, ctx=ast.Load()), False, within=within), runner, c, "no argument is passed iff the callback was registered without pass_exception", "a callback registered with pass_exception can be called without the exception")
    for n, c, arg in with_arg:
        # branch condition = the flag popped together with the callback
        rep.check("C01.R4", bool(flag) and facts.implied(n.id, ast.Name(id=flag, ctx=ast.Load()), True, within=within), runner, c, "the exception is passed iff the flag registered with this callback is set", "the with-exception call is not selected by the callback's own pass_exception flag")
        if not isinstance(arg, ast.Name):
            cl = rd.closure_at(n.id, arg)
        else:
            cl = rd.closure_at(n.id, arg)
            defs = rd.at(n.id, arg.id)
            in_loop = [d for d in defs if d in loop_nodes]
            rep.check("C01.R4", not in_loop and len(defs) == 1, runner, c, "the exception argument has a single definition outside the loop", "the exception argument is (re)assigned inside the loop: a later callback can receive an earlier callback's exception")
        ambient = [x for x in cl.calls if call_name(x) in ("exc_info", "exception")]
        if ambient:
            rep.violate("C01.R4", runner, ambient[0], "the exception handed to pass_exception callbacks comes from sys.exc_info() (whatever exception the surrounding code is handling), not from what __aexit__ received: a clean exit inside an except block passes the outer exception instead of None")
            continue
        # must flow from the runner's exit-callback parameters or from an attribute set from exc_val in __aexit__
        params = [p_ for p_ in runner.params if p_ != "self"]
        from_param = [p_ for p_ in params if p_ in cl.names]
        if from_param and reg_kind in ("push_async_exit", "push"):
            idx = params.index(from_param[0])
            rep.check("C01.R4", idx == 1, runner, c, "the argument is the exception value the exit stack passes to the runner (__aexit__'s exc_val)", f"the argument is exit-callback parameter #{idx} ({from_param[0]}), not the exception value")
        elif any(x.startswith("self.") for x in cl.attrs):
            attr = [x for x in cl.attrs if x.startswith("self.")][0].split(".", 1)[1]
            ok = False
            for node in walk_own(aexit.node):
                if isinstance(node, ast.Assign) and any(self_attr(t) == attr for t in node.targets) and isinstance(node.value, ast.Name) and node.value.id in aexit.params[2:3]:
                    ok = True
            rep.check("C01.R4", ok, runner, c, f"the argument is self.{attr}, stored from __aexit__'s exception value", f"self.{attr} is not stored from the exception __aexit__ received")
        else:
            rep.violate("C01.R4", runner, c, f"the exception argument `{ast.unparse(arg)}` does not come from the exception __aexit__ received for this block")

    # ------------------------------------------------------------------ R5 aggregation
    coll = None
    for n, m in a.func_mutations(runner):
        if m.kind in ("call:append", "call:insert", "call:add") and len(m.path) == 1 and m.path[0] != "self":
            hs = [h for h in walk_own(runner.node) if isinstance(h, ast.ExceptHandler) and any(x is m.node for x in ast.walk(h))]
            # (the order of the exceptions inside the group is not part of the statement)
            if hs and hs[0].name and m.node.args and isinstance(m.node.args[-1], ast.Name) and m.node.args[-1].id == hs[0].name:
                coll = m.path[0]
    if coll is None:
        rep.violate("C01.R5", runner, runner.node, "exceptions raised by callbacks are not collected")
    else:
        raises = [n for n in cfg.live_nodes() if n.kind == "stmt" and isinstance(n.ast, ast.Raise) and n.ast.exc is not None and n.id not in loop_nodes]
        grp = None
        for rn in raises:
            cl = rd.closure_at(rn.id, rn.ast.exc)
            ctor = [x for x in cl.calls if call_name(x) in ("BaseExceptionGroup", "ExceptionGroup")]
            if ctor:
                grp = (rn, ctor[0], cl)
        if grp is None:
            rep.violate("C01.R5", runner, runner.node, "collected exceptions are never re-raised as a group")
        else:
            rn, ctor, cl = grp
            rep.check("C01.R5", call_name(ctor) == "BaseExceptionGroup", runner, ctor, "exceptions are re-raised together in one BaseExceptionGroup", "ExceptionGroup cannot hold BaseException members: a callback raising a BaseException breaks the aggregation")
            rep.check("C01.R5", len(ctor.args) == 2 and coll in names_in(ctor.args[1]), runner, ctor, "the group contains every collected exception", "the group is not built from the collected exceptions")
            if head is not None:
                rep.check("C01.R5", rn.id not in loop_nodes, runner, rn.ast, "the group is raised after the last callback has finished", "the group is raised inside the loop")
            ct = [(t, lab) for t, lab in controlling_tests(cfg, rn) if coll in names_in(t.ast)]
            rep.check("C01.R5", bool(ct), runner, rn.ast, "the group is raised only when some callback raised (otherwise the block's own outcome propagates)", "the group is raised even when no callback raised")

    # ------------------------------------------------------------------ R6 innermost exit callback
    ecfg = a.cfg(aenter)
    after = ecfg.reach([d for d, lab in reg_node.succ if lab != "e"])
    later = [(n, c, nm) for n, c, nm in regs if n.id in after and n.id != reg_node.id]
    for n, c, nm in later:
        rep.violate("C01.R6", aenter, c, f"`{ast.unparse(c.func)}` is registered on the exit stack after the teardown runner, so it unwinds BEFORE teardown callbacks run")
    if not later:
        rep.hold("C01.R6", aenter, reg_call, f"the teardown runner is the last of {len(regs)} registrations on the exit stack: it runs first at exit")
    rep.floor("C01.R6", len(regs), 4)
    rep.check("C01.R6", reg_kind in ("push_async_callback", "push_async_exit"), aenter, reg_call, "the runner is registered as an async exit callback", f"the (async) runner is registered with `{reg_kind}`: it would never be awaited")
    # pop_all into an attribute awaited by __aexit__ with its three arguments
    popall = [n for n in walk_own(aenter.node) if isinstance(n, ast.Assign) and isinstance(n.value, ast.Call) and call_name(n.value) == "pop_all"]
    es_attr = self_attr(popall[0].targets[0]) if popall else None
    rep.check("C01.R6", es_attr is not None, aenter, popall[0] if popall else aenter.node, "the exit stack is moved out with pop_all() into the context", "the exit stack is not preserved for __aexit__")
    if es_attr:
        aw = [n for n in walk_own(aexit.node) if isinstance(n, ast.Await) and isinstance(n.value, ast.Call) and call_name(n.value) in ("__aexit__", "aclose") and self_attr(n.value.func.value) == es_attr]
        ok = bool(aw) and call_name(aw[0].value) == "__aexit__" and [ast.unparse(x) for x in aw[0].value.args] == aexit.params[1:4]
        rep.check("C01.R6", ok, aexit, aw[0] if aw else aexit.node, "__aexit__ awaits that stack's __aexit__ with the three exception arguments it received", "__aexit__ does not forward (exc_type, exc_val, exc_tb) to the saved exit stack: the runner cannot know how the block ended")
    # coalesce before task group (root)
    co = [(n, c) for n, c, nm in regs if "coalesce" in ast.unparse(c)]
    tg = [(n, c) for n, c, nm in regs if "create_task_group" in ast.unparse(c)]
    if co and tg:
        rep.check("C01.R6", ecfg.dominates(co[0][0].id, tg[0][0].id) and co[0][0].id not in ecfg.reach([tg[0][0].id], include_start=False), aenter, tg[0][1], "coalesce_exceptions is entered outside the root task group: a single ordinary exception is unwrapped again", "the root task group is entered outside coalesce_exceptions: the block's own exception reaches the caller wrapped in a group")
    elif tg:
        rep.violate("C01.R6", aenter, tg[0][1], "the root task group's exception groups are never coalesced: an ordinary exception ending the block reaches the caller wrapped in a group")

    # ------------------------------------------------------------------ R7 single append-only writer
    sites = 0
    for f, n, m, recv in table_mutations(a, stack):
        sites += 1
        if f is register and m.kind == "call:append":
            arg = m.node.args[0] if m.node.args else None
            ok = isinstance(arg, ast.Tuple) and len(arg.elts) == 2 and [ast.unparse(x) for x in arg.elts] == register.params[1:3]
            rep.check("C01.R7", ok and recv == ("self",), f, m.node, "registration appends (callback, pass_exception) at the end of the own stack", f"registration stores `{ast.unparse(arg) if arg is not None else ''}` (flag or callback lost / wrong context)")
        elif f is runner and m.kind == "call:pop":
            rep.hold("C01.R7", f, m.node, "the runner's pop")
        elif m.kind == "rebind" and f.name == "__init__" and f.cls is an.Context:
            rep.check("C01.R7", isinstance(getattr(m.node, "value", None), ast.List) and not m.node.value.elts, f, m.node, "each context starts with its own empty stack", "the callback stack is not initialised to a fresh empty list")
        else:
            rep.violate("C01.R7", f, m.node, f"`{m.kind}` on the teardown callback stack outside the append-only registration / the runner's pop: order or exactly-once is no longer guaranteed")
    rep.floor("C01.R7", sites, 3)
    for f in ctx.p.all_functions():
        if f.owner_class is an.Context:
            continue
        for x in walk_own(f.node):
            if isinstance(x, ast.Attribute) and x.attr == stack:
                rep.violate("C01.R7", f, x, "the teardown stack is accessed from outside the Context class")

    # the runner is registered as an exit callback: returning a truthy value from it would tell the
    # exit stack to SUPPRESS the exception that ended the block
    truthy_rets = [r for r in walk_own(runner.node) if isinstance(r, ast.Return) and r.value is not None and not (isinstance(r.value, ast.Constant) and not r.value.value)]
    rep.check("C01.R6", not truthy_rets, runner, truthy_rets[0] if truthy_rets else runner.node, "the teardown runner returns nothing: the block's own exception is never suppressed by it", f"the teardown runner can return `{ast.unparse(truthy_rets[0].value) if truthy_rets else ''}`: as an exit-stack callback a truthy result swallows the exception that ended the block (the caller observes a normal exit)")

    # ------------------------------------------------------------------ R8 routes funnel
    routes = 0

    def forwards(f: FuncInfo, call: ast.Call, expect_flag) -> bool:
        if expect_flag is None:
            return True
        flagarg = call.args[1] if len(call.args) >= 2 else next((k.value for k in call.keywords if k.arg == register.params[2]), None)
        if expect_flag is True:
            return flagarg is not None and is_const(flagarg, True)
        return isinstance(flagarg, ast.Name) and flagarg.id == expect_flag

    def route(f: FuncInfo, what: str, expect_flag=None, cb_pred=None) -> None:
        nonlocal routes
        hits = [(call, c) for call, c in a.func_calls(f) if c.kind == "func" and c.func is register]
        if not hits:
            rep.violate("C01.R8", f, f.node, f"{what} does not register through Context.add_teardown_callback")
            return
        routes += 1
        call = hits[0][0]
        ok = forwards(f, call, expect_flag) and (cb_pred is None or cb_pred(call))
        rep.check("C01.R8", ok, f, call, f"{what} registers through the single append-only route", f"{what} registers with a wrong / missing pass_exception flag or callback")

    add_res = an.ctx_method("add_resource")
    route(add_res, "add_resource(teardown_callback=)", cb_pred=lambda c: c.args and isinstance(c.args[0], ast.Name) and c.args[0].id == "teardown_callback")
    # ... whenever a callback was given: the registration depends on nothing but `<cb> is not None`
    from .discharge import controlling_conditions as _cc

    arcfg = a.cfg(add_res)
    for call_, c_ in a.func_calls(add_res):
        if c_.kind == "func" and c_.func is register and call_.args and isinstance(call_.args[0], ast.Name):
            cbp = call_.args[0].id
            nn_ = arcfg.nodes_containing(call_)
            from .discharge import controlling_tests as _ct

            # successful (normal) paths may skip the registration only through the
            # "no callback given" side of a test on the callback parameter itself
            skip_ok = []
            for t_, lab_ in (_ct(arcfg, nn_[0]) if nn_ else []):
                if isinstance(t_.ast, ast.AST) and names_in(t_.ast) == {cbp}:
                    skip_ok += [d_ for d_, l_ in t_.succ if l_ in ("t", "f") and l_ != lab_]
            on_all = bool(nn_) and arcfg.all_paths_pass(arcfg.entry, [arcfg.exit], [nn_[0].id] + skip_ok, edge_ok=lambda s_, d_, lab: lab not in ("e", "h"))
            rep.check("C01.R8", on_all, add_res, call_, f"a given `{cbp}` is registered on every successful path (skipped only when no callback was given)", f"some successful path through add_resource does not register a given `{cbp}`: a resource can be added whose teardown callback is silently never run")
    route(an.ctx_method("start_service_task"), "the service-task finalizer")
    shortcut = ctx.p.modules[register.module.name].functions.get("add_teardown_callback")
    if shortcut is not None:
        route(shortcut, "the module-level add_teardown_callback()", expect_flag=shortcut.params[1] if len(shortcut.params) > 1 else None)
    cc = an.ComponentContext.methods.get("add_teardown_callback")
    if cc is not None:
        route(cc, "ComponentContext.add_teardown_callback", expect_flag=cc.params[2] if len(cc.params) > 2 else None)
    ct_fn = ctx.p.public("context_teardown")
    wrapper = None
    if isinstance(ct_fn, FuncInfo):
        for nf in ct_fn.nested.values():
            if any(c.kind == "func" and c.func is register for _, c in a.func_calls(nf)):
                wrapper = nf
    if wrapper is None:
        rep.violate("C01.R8", ct_fn if isinstance(ct_fn, FuncInfo) else None, None, "context_teardown does not register a teardown callback")
    else:
        route(wrapper, "@context_teardown", expect_flag=True)
        # the callback that is registered, and the generator it drives: both must belong to
        # THIS call of the decorated function (a callback or generator variable shared by all
        # calls makes a second call overwrite the first call's pending teardown)
        reg_hits = [call for call, c in a.func_calls(wrapper) if c.kind == "func" and c.func is register]
        cb_expr = reg_hits[0].args[0] if reg_hits and reg_hits[0].args else None
        bound_args: list = []
        if isinstance(cb_expr, ast.Call) and call_name(cb_expr) == "partial" and cb_expr.args:
            bound_args = list(cb_expr.args[1:])
            cb_expr = cb_expr.args[0]
        cb_fn = None
        if isinstance(cb_expr, ast.Name):
            cb_fn = wrapper.nested.get(cb_expr.id) or (ct_fn.nested.get(cb_expr.id) if isinstance(ct_fn, FuncInfo) else None)
            if cb_fn is None:
                r_ = a.r.resolve_name(wrapper, cb_expr.id)
                cb_fn = r_ if isinstance(r_, FuncInfo) else None
        gen_vars = {t.id for n in walk_own(wrapper.node) if isinstance(n, ast.Assign) and isinstance(n.value, ast.Call) and isinstance(n.value.func, ast.Name) and n.value.func.id in (ct_fn.params if isinstance(ct_fn, FuncInfo) else []) for t in n.targets if isinstance(t, ast.Name)}
        shared = {x for n in walk_own(wrapper.node) if isinstance(n, (ast.Nonlocal, ast.Global)) for x in n.names}
        if cb_fn is None or not gen_vars:
            rep.unrecognised("C01.R8", wrapper, reg_hits[0] if reg_hits else wrapper.node, "cannot identify the registered teardown callback / the generator created for this call")
        else:
            per_call_gen = not (gen_vars & shared)
            per_call_cb = cb_fn.parent is wrapper or (bool(bound_args) and all(isinstance(x, ast.Name) and x.id in gen_vars for x in bound_args[:1]))
            rep.check("C01.R8", per_call_gen and per_call_cb, wrapper, reg_hits[0], "each call of a @context_teardown function registers its own callback closing over its own generator", "the generator variable / the teardown callback is shared between calls of the decorated function: a second call overwrites the first one's generator, whose teardown part then never runs (and the second's runs twice)")
        tcb = [cb_fn] if cb_fn is not None else []
        if tcb:
            t = tcb[0]
            sends = [c for c, _ in a.func_calls(t) if call_name(c) == "asend" and c.args and isinstance(c.args[0], ast.Name) and c.args[0].id in t.params]
            rep.check("C01.R8", bool(sends), t, t.node, "the teardown callback sends the received exception into the generator", "the generator does not receive the exception that ended the context")
            fin = [tr for tr in walk_own(t.node) if isinstance(tr, ast.Try) and any(isinstance(x, ast.Call) and call_name(x) == "aclose" for s in tr.finalbody for x in ast.walk(s))]
            # (closing the generator afterwards is good hygiene but not part of the statement:
            # only a generator that yields a second time would notice)
            if fin:
                rep.hold("C01.R8", t, t.node, "the generator is closed in a finally block", nontrivial=False)
            else:
                rep.note("C01.R8: the @context_teardown callback does not close its generator in a finally block (not required by the statement)")
    rep.floor("C01.R8", routes, 5)
    # the ComponentContext / module-level wrappers hand the callback on as it is (C02.R4)
    from .common import include_rules

    include_rules(ctx, "c02", "C01.R8", only=("C02.R4",))
    # @context_teardown: the callback is registered only after the first half has run, so that
    # it is torn down before everything the first half registered (strict LIFO)
    if wrapper is not None:
        wcfg_ = a.cfg(wrapper)
        first_half = [n for n in wcfg_.live_nodes() if any(call_name(c) in ("asend", "__anext__", "anext") for c, _ in a.node_calls(wrapper, wcfg_, n))]
        regn = [n for n in wcfg_.live_nodes() if any(c_.kind == "func" and c_.func is register for _c, c_ in a.node_calls(wrapper, wcfg_, n))]
        if first_half and regn:
            rep.check("C01.R8", all(wcfg_.dominates(first_half[0].id, r.id) for r in regn), wrapper, regn[0].ast, "the @context_teardown callback is registered after the generator's first half has run (it is newer than everything the first half registered)", "the @context_teardown callback is registered before the first half runs: callbacks / resources registered BY the first half are newer, so they are torn down first and the generator's second half runs after what it depends on is gone")

    # ------------------------------------------------------------------ R9 closed afterwards
    xcfg = a.cfg(aexit)
    st_attr, st_enum = an.state_attr, an.state_enum
    assigns = {}
    for n in xcfg.live_nodes():
        if n.kind == "stmt" and isinstance(n.ast, ast.Assign) and any(self_attr(t) == st_attr for t in n.ast.targets):
            assigns.setdefault(enum_member(n.ast.value, st_enum), []).append(n)
    aw_nodes = [n for n in xcfg.live_nodes() if a.node_checkpoints(aexit, xcfg, n)]
    if not aw_nodes:
        rep.violate("C01.R9", aexit, aexit.node, "__aexit__ never awaits the exit stack")
    else:
        aw = aw_nodes[0]
        closing = assigns.get("closing", [])
        rep.check("C01.R9", bool(closing) and all(xcfg.dominates(closing[0].id, x.id) for x in aw_nodes), aexit, closing[0].ast if closing else aexit.node, "state is set to closing before the exit stack is awaited", "the context is not marked closing before teardown starts")
        closed = {n.id for n in assigns.get("closed", [])}
        ok = bool(closed) and xcfg.all_paths_pass(aw.id, [xcfg.exit, xcfg.raise_exit], closed)
        rep.check("C01.R9", ok, aexit, aexit.node, "on every path out of the teardown await (normal or exceptional) the state becomes closed", "some path out of teardown (e.g. when a callback raised) leaves the context not marked closed")
