"""
Property C19 (@inject == explicit lookups in the current context), with the emphasis
on decoration-time rejections, resource names and the error paths.

Must pass on the unchanged source and with refactor1.diff applied.
"""

from __future__ import annotations

import re
import warnings
from typing import Any, Optional

import pytest

from asphalt.core import (
    Context,
    NoCurrentContext,
    ResourceNotFound,
    add_resource,
    add_resource_factory,
    get_resource,
    get_resource_nowait,
    inject,
    resource,
)

pytestmark = pytest.mark.anyio


@pytest.fixture
def anyio_backend() -> str:
    return "asyncio"


class Engine:
    def __init__(self, label: str) -> None:
        self.label = label


NAMES = ["default", "alt", "with_underscore_1", "X"]


@pytest.mark.parametrize("name", NAMES)
async def test_async_matches_get_resource_for_every_name(name: str) -> None:
    @inject
    async def injected(
        a: int, b: str = "b", *, eng: Engine = resource(name), kw: float = 1.5
    ) -> tuple[Any, ...]:
        return a, b, eng, kw

    async with Context():
        add_resource(Engine("default-one"))
        if name != "default":
            add_resource(Engine(name), name)

        expected = await get_resource(Engine, name)
        assert await injected(1) == (1, "b", expected, 1.5)
        assert await injected(1, "x", kw=2.0) == (1, "x", expected, 2.0)
        assert await injected(b="y", a=7) == (7, "y", expected, 1.5)
        assert (await injected(0))[2].label == (
            "default-one" if name == "default" else name
        )


@pytest.mark.parametrize("name", NAMES)
async def test_sync_matches_get_resource_nowait_for_every_name(name: str) -> None:
    @inject
    def injected(
        a: int, eng: Engine = resource(name), *args: int, flag: bool = False
    ) -> tuple[Any, ...]:
        return a, eng, args, flag

    async with Context():
        add_resource(Engine("default-one"))
        if name != "default":
            add_resource(Engine(name), name)

        expected = get_resource_nowait(Engine, name)
        assert injected(1) == (1, expected, (), False)
        assert injected(a=3, flag=True) == (3, expected, (), True)


async def test_missing_resource_raises_before_body_async() -> None:
    calls: list[str] = []

    @inject
    async def injected(a: int, eng: Engine = resource("nope")) -> None:
        calls.append("body")

    async with Context():
        add_resource(Engine("other"), "other")
        with pytest.raises(ResourceNotFound) as exc:
            await injected(1)

        assert exc.value.type is Engine
        assert exc.value.name == "nope"
        assert calls == []
        # explicit lookup fails the same way
        with pytest.raises(ResourceNotFound) as exc2:
            await get_resource(Engine, "nope")

        assert str(exc2.value) == str(exc.value)


async def test_missing_resource_raises_before_body_sync() -> None:
    calls: list[str] = []

    @inject
    def injected(a: int, *, eng: Engine = resource()) -> None:
        calls.append("body")

    async with Context():
        with pytest.raises(ResourceNotFound) as exc:
            injected(1)

        assert (exc.value.type, exc.value.name) == (Engine, "default")
        assert calls == []


async def test_second_missing_resource_raises_after_first_resolved() -> None:
    made: list[str] = []
    calls: list[str] = []

    def factory() -> Engine:
        made.append("engine")
        return Engine("made")

    @inject
    async def injected(
        eng: Engine = resource(), text: str = resource("missing")
    ) -> None:
        calls.append("body")

    async with Context():
        add_resource_factory(factory, types=[Engine])
        with pytest.raises(ResourceNotFound) as exc:
            await injected()

        assert (exc.value.type, exc.value.name) == (str, "missing")
        assert calls == []
        # The first lookup happened (in declaration order) just as with explicit calls
        assert made == ["engine"]


@pytest.mark.parametrize("sync", [True, False], ids=["sync", "async"])
@pytest.mark.parametrize(
    "annotation", [Optional[Engine], "Optional[Engine]", "Engine | None"]
)
async def test_optional_gets_none_then_value(annotation: Any, sync: bool) -> None:
    if sync:

        def plain(x: int, eng: annotation = resource("opt")) -> Any:  # type: ignore
            return x, eng

        injected = inject(plain)
    else:

        async def coro(x: int, eng: annotation = resource("opt")) -> Any:  # type: ignore
            return x, eng

        injected = inject(coro)

    async def call(*args: Any) -> Any:
        return injected(*args) if sync else await injected(*args)

    async with Context():
        assert await call(5) == (5, None)
        assert get_resource_nowait(Engine, "opt", optional=True) is None
        engine = Engine("now")
        add_resource(engine, "opt")
        assert await call(6) == (6, engine)


def test_positional_only_marker_rejected() -> None:
    def func(a: int, eng: Engine = resource(), /, b: int = 1) -> None:
        pass

    with pytest.raises(TypeError) as exc:
        inject(func)

    assert re.search(
        "Cannot inject dependency to positional-only parameter 'eng'", str(exc.value)
    )


def test_unannotated_marker_rejected() -> None:
    async def func(a: int, *, eng=resource("x")) -> None:  # type: ignore[no-untyped-def]
        pass

    with pytest.raises(TypeError) as exc:
        inject(func)

    assert "Dependency for parameter 'eng' of function" in str(exc.value)
    assert "is missing the type annotation" in str(exc.value)


def test_uncalled_marker_rejected() -> None:
    def func(a: int, eng: Engine = resource) -> None:  # type: ignore[assignment]
        pass

    with pytest.raises(TypeError) as exc:
        inject(func)

    assert "Default value for parameter 'eng' of function" in str(exc.value)
    assert "was the 'resource' function" in str(exc.value)


def test_rejection_happens_even_when_a_valid_marker_comes_first() -> None:
    def func(ok: Engine = resource(), *, bad=resource()) -> None:  # type: ignore
        pass

    pytest.raises(TypeError, inject, func)

    def func2(bad: Engine = resource(), /, ok: Engine = resource()) -> None:
        pass

    pytest.raises(TypeError, inject, func2)


def test_no_markers_returns_function_with_warning() -> None:
    def func(a: int) -> int:
        return a

    with pytest.warns(UserWarning, match="does not have any injectable resources"):
        assert inject(func) is func


async def test_no_context_is_an_error_just_like_explicit_lookup() -> None:
    @inject
    def injected(eng: Engine = resource()) -> Engine:
        return eng

    with pytest.raises(NoCurrentContext):
        injected()

    with pytest.raises(NoCurrentContext):
        get_resource_nowait(Engine)


async def test_decorating_valid_function_emits_no_warning() -> None:
    with warnings.catch_warnings():
        warnings.simplefilter("error")

        @inject
        async def injected(eng: Engine = resource(), *, other: str = resource("s")) -> Any:
            return eng, other

    async with Context():
        engine = Engine("e")
        add_resource(engine)
        add_resource("text", "s")
        assert await injected() == (engine, "text")
