"""
Property C06: waiting for a resource during startup has no lost or false wake-ups.

This file must pass both on the unchanged source and with refactor1.diff applied.
"""

from __future__ import annotations

from typing import Any

import pytest
from anyio import (
    Event,
    create_task_group,
    fail_after,
    sleep,
    wait_all_tasks_blocked,
)

from asphalt.core import (
    Component,
    Context,
    ResourceNotFound,
    add_resource,
    add_resource_factory,
    current_context,
    get_resource,
    start_component,
)

pytestmark = pytest.mark.anyio()


@pytest.fixture(params=["asyncio", "trio"])
def anyio_backend(request: Any) -> str:
    return request.param


class Token:
    def __init__(self, label: str) -> None:
        self.label = label

    def __repr__(self) -> str:
        return f"Token({self.label})"


class OtherToken(Token):
    pass


def make_parent(children: dict[str, type[Component]]) -> type[Component]:
    class Parent(Component):
        def __init__(self) -> None:
            for alias, cls in children.items():
                self.add_component(alias, cls)

    return Parent


@pytest.mark.parametrize("order", ["request_first", "publish_first", "free"])
@pytest.mark.parametrize("kind", ["resource", "factory", "async_factory"])
async def test_request_vs_publication_order(order: str, kind: str) -> None:
    published = Token("published")
    results: list[Any] = []
    waiter_blocked = Event()
    publication_done = Event()

    def factory() -> Token:
        return published

    async def async_factory() -> Token:
        await sleep(0)
        return published

    class Waiter(Component):
        async def start(self) -> None:
            if order == "publish_first":
                await publication_done.wait()
            elif order == "request_first":
                waiter_blocked.set()

            with fail_after(3):
                results.append(await get_resource(Token, "tok"))

    class Publisher(Component):
        async def start(self) -> None:
            if order == "request_first":
                await waiter_blocked.wait()
                await wait_all_tasks_blocked()
                assert results == []

            if kind == "resource":
                add_resource(published, "tok")
            elif kind == "factory":
                add_resource_factory(factory, "tok")
            else:
                add_resource_factory(async_factory, "tok")

            publication_done.set()

    async with Context():
        await start_component(
            make_parent({"waiter": Waiter, "publisher": Publisher}), timeout=5
        )

    assert results == [published]
    assert results[0] is published


async def test_non_matching_publications_do_not_release_or_fail() -> None:
    """
    Two waiters in the same component (concurrent requests from one component) and one
    in another; none is released by same-name/other-type, same-type/other-name
    publications, each is released by exactly its own publication.
    """
    tok_a = Token("a")
    tok_b = Token("b")
    other = OtherToken("other")
    results: dict[str, Any] = {}
    errors: list[BaseException] = []
    blocked = [Event(), Event(), Event()]

    async def wait_for(key: str, type_: type, name: str, ev: Event) -> None:
        ev.set()
        try:
            results[key] = await get_resource(type_, name)
        except BaseException as exc:
            errors.append(exc)
            raise

    class TwoWaiters(Component):
        async def start(self) -> None:
            with fail_after(5):
                async with create_task_group() as tg:
                    tg.start_soon(wait_for, "a", Token, "a", blocked[0])
                    tg.start_soon(wait_for, "b", Token, "b", blocked[1])

    class ThirdWaiter(Component):
        async def start(self) -> None:
            with fail_after(5):
                await wait_for("other", OtherToken, "a", blocked[2])

    class Publisher(Component):
        async def start(self) -> None:
            for ev in blocked:
                await ev.wait()

            await wait_all_tasks_blocked()
            # same type, other names; other types, same names
            add_resource(Token("x"), "x")
            add_resource("a string", "a")
            add_resource(b"bytes", "b")
            add_resource_factory(lambda: 1, "a", types=[int])
            add_resource_factory(lambda: Token("y"), "y", types=[Token])
            await wait_all_tasks_blocked()
            assert results == {} and errors == []

            add_resource(tok_b, "b")
            await wait_all_tasks_blocked()
            assert results == {"b": tok_b} and errors == []

            # OtherToken is a subclass of Token, but resources are looked up by the
            # exact type they were published under
            add_resource(other, "a")
            await wait_all_tasks_blocked()
            assert results == {"b": tok_b, "other": other} and errors == []

            add_resource(tok_a, "a")

    async with Context():
        await start_component(
            make_parent({"two": TwoWaiters, "third": ThirdWaiter, "pub": Publisher}),
            timeout=8,
        )

    assert results == {"a": tok_a, "b": tok_b, "other": other}
    assert results["a"] is tok_a and results["b"] is tok_b
    assert errors == []


async def test_multi_type_and_alias_default_name() -> None:
    multi = OtherToken("multi")
    aliased = Token("aliased")
    results: dict[str, Any] = {}
    blocked = [Event() for _ in range(4)]

    def waiter(key: str, type_: type, name: str, ev: Event) -> type[Component]:
        class Waiter(Component):
            async def start(self) -> None:
                ev.set()
                with fail_after(5):
                    if name == "default":
                        results[key] = await get_resource(type_)
                    else:
                        results[key] = await get_resource(type_, name)

        return Waiter

    class AliasedPublisher(Component):
        async def start(self) -> None:
            for ev in blocked:
                await ev.wait()

            await wait_all_tasks_blocked()
            # "default" gets remapped to "special" because of the alias "pub/special"
            add_resource(aliased)
            await wait_all_tasks_blocked()
            assert results == {"special": aliased}
            add_resource(multi, "m", types=[Token, OtherToken])
            await wait_all_tasks_blocked()
            assert results == {"special": aliased, "m1": multi, "m2": multi}
            # explicit non-default names are not remapped
            add_resource(Token("plain default"), "default_")
            await wait_all_tasks_blocked()
            assert "default" not in results
            release_default.set()

    class PlainPublisher(Component):
        async def start(self) -> None:
            await release_default.wait()
            add_resource(plain)

    plain = Token("plain")
    release_default = Event()
    async with Context():
        await start_component(
            make_parent(
                {
                    "w_special": waiter("special", Token, "special", blocked[0]),
                    "w_default": waiter("default", Token, "default", blocked[1]),
                    "w_m1": waiter("m1", Token, "m", blocked[2]),
                    "w_m2": waiter("m2", OtherToken, "m", blocked[3]),
                    "pub/special": AliasedPublisher,
                    "plainpub": PlainPublisher,
                }
            ),
            timeout=8,
        )

    assert results == {
        "special": aliased,
        "m1": multi,
        "m2": multi,
        "default": plain,
    }


async def test_burst_of_other_publications_before_the_match() -> None:
    wanted = Token("wanted")
    results: list[Any] = []
    blocked = Event()

    class Waiter(Component):
        async def start(self) -> None:
            blocked.set()
            with fail_after(5):
                results.append(await get_resource(Token, "wanted"))

    class Publisher(Component):
        async def start(self) -> None:
            await blocked.wait()
            await wait_all_tasks_blocked()
            # No checkpoint between these publications
            for i in range(120):
                add_resource(Token(str(i)), f"n{i}")
                add_resource(i, "wanted", types=[int] if i == 0 else [type(f"T{i}", (), {})])

            add_resource(wanted, "wanted")
            for i in range(120):
                add_resource(Token(str(i)), f"m{i}")

    async with Context():
        await start_component(make_parent({"w": Waiter, "p": Publisher}), timeout=8)

    assert results == [wanted]


async def test_optional_and_outside_startup_never_wait() -> None:
    outcomes: dict[str, Any] = {}

    class Comp(Component):
        async def start(self) -> None:
            with fail_after(1):
                outcomes["optional"] = await get_resource(
                    Token, "missing", optional=True
                )
                outcomes["optional_ctx"] = await current_context().get_resource(
                    Token, "missing", optional=True
                )

            add_resource(Token("present"), "present")
            with fail_after(1):
                outcomes["present"] = await get_resource(Token, "present", optional=True)

    async with Context():
        await start_component(Comp, timeout=5)
        with fail_after(1):
            assert await get_resource(Token, "missing", optional=True) is None
            with pytest.raises(ResourceNotFound):
                await get_resource(Token, "missing")

            with pytest.raises(ResourceNotFound):
                await get_resource(OtherToken, "present")

            assert (await get_resource(Token, "present")).label == "present"

    assert outcomes["optional"] is None
    assert outcomes["optional_ctx"] is None
    assert outcomes["present"].label == "present"


async def test_cancelled_wait_does_not_disturb_other_waiters() -> None:
    """
    One request in a component is cancelled while it is waiting; a second request of
    the same component for the same resource, and a later third one, still get it.
    """
    tok = Token("tok")
    results: list[Any] = []
    blocked = Event()

    class Waiter(Component):
        async def start(self) -> None:
            async def doomed() -> None:
                await get_resource(Token, "tok")
                results.append("doomed request returned")

            async def survivor() -> None:
                results.append(await get_resource(Token, "tok"))

            with fail_after(5):
                async with create_task_group() as outer:
                    outer.start_soon(survivor)
                    async with create_task_group() as inner:
                        inner.start_soon(doomed)
                        await wait_all_tasks_blocked()
                        inner.cancel_scope.cancel()

                    blocked.set()

                results.append(await get_resource(Token, "tok"))

    class Publisher(Component):
        async def start(self) -> None:
            await blocked.wait()
            await wait_all_tasks_blocked()
            assert results == []
            add_resource(tok, "tok")

    async with Context():
        await start_component(make_parent({"w": Waiter, "p": Publisher}), timeout=8)

    assert results == [tok, tok]
