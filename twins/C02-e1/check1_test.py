"""
Property C02 checks (resources are scoped to the context tree: snapshot down, nothing
up or sideways), with emphasis on the snapshot taken at child creation time and on
factory-generated resources (the area touched by evolution 1).

Passes on the unchanged source and with refactor1.diff applied.
"""

import random
from contextlib import AsyncExitStack
from typing import Any, Optional

import pytest
from anyio import Event, create_task_group
from anyio.lowlevel import checkpoint

from asphalt.core import (
    Context,
    ResourceConflict,
    ResourceNotFound,
    current_context,
    get_resource,
    get_resource_nowait,
    get_resources,
    inject,
    resource,
)

pytestmark = pytest.mark.anyio()


class TA:
    pass


class TB:
    pass


class TC:
    pass


TYPES = [TA, TB, TC, int, str]
STATIC_NAMES = ["default", "s1", "s_2"]
FACTORY_NAMES = ["f1", "f_2", "F3"]
MISSING = object()


class Value:
    def __init__(self, label: str) -> None:
        self.label = label

    def __repr__(self) -> str:
        return f"Value({self.label})"


_injected_sync: dict = {}
_injected_async: dict = {}


def injected_sync(tp: type, name: str) -> Any:
    try:
        return _injected_sync[tp, name]
    except KeyError:

        @inject
        def func(*, res: Optional[tp] = resource(name)) -> Any:  # type: ignore[valid-type]
            return res

        _injected_sync[tp, name] = func
        return func


def injected_async(tp: type, name: str) -> Any:
    try:
        return _injected_async[tp, name]
    except KeyError:

        @inject
        async def func(*, res: Optional[tp] = resource(name)) -> Any:  # type: ignore[valid-type]
            return res

        _injected_async[tp, name] = func
        return func


class Model:
    """Reference model of what a context is supposed to see."""

    counter = 0

    def __init__(self, parent: Optional["Model"] = None) -> None:
        self.parent = parent
        self.static: dict = dict(parent.static) if parent else {}
        self.factories: dict = dict(parent.factories) if parent else {}
        self.generated: dict = {}
        self.ctx: Context = None  # type: ignore[assignment]

    def visible(self, key: tuple) -> Any:
        if key in self.static:
            return self.static[key]

        return self.generated.get(key, MISSING)

    def expected_of_type(self, tp: type) -> dict:
        result = {}
        for source in (self.static, self.generated):
            for (type_, name), value in source.items():
                if type_ is tp:
                    result[name] = value

        return result


async def check_lookup(model: Model, tp: type, name: str, how: int) -> None:
    """Look a resource up through one of the lookup paths; compare with the model."""
    ctx = model.ctx
    key = (tp, name)
    expected = model.visible(key)
    will_generate = expected is MISSING and key in model.factories
    is_current = current_context() is ctx
    if how >= 3 and not is_current:
        how %= 3

    if how == 0:
        actual = ctx.get_resource_nowait(tp, name, optional=True)
    elif how == 1:
        actual = await ctx.get_resource(tp, name, optional=True)
    elif how == 2:
        try:
            actual = ctx.get_resource_nowait(tp, name)
        except ResourceNotFound:
            actual = None
    elif how == 3:
        actual = injected_sync(tp, name)()
    elif how == 4:
        actual = await injected_async(tp, name)()
    elif how == 5:
        actual = get_resource_nowait(tp, name, optional=True)
    else:
        actual = await get_resource(tp, name, optional=True)

    if will_generate:
        factory_id, types, _ = model.factories[key]
        assert isinstance(actual, Value)
        assert actual.label.startswith(f"gen:{factory_id}:")
        for type_ in types:
            model.generated.setdefault((type_, name), actual)
    elif expected is MISSING:
        assert actual is None
    else:
        assert actual is expected


def check_all_visible(model: Model) -> None:
    """Compare get_resources() and non-generating lookups against the model."""
    ctx = model.ctx
    for tp in TYPES:
        assert dict(ctx.get_resources(tp)) == model.expected_of_type(tp)
        if current_context() is ctx:
            assert dict(get_resources(tp)) == model.expected_of_type(tp)

        for name in STATIC_NAMES:
            expected = model.visible((tp, name))
            actual = ctx.get_resource_nowait(tp, name, optional=True)
            if expected is MISSING:
                assert actual is None
            else:
                assert actual is expected

        for name in FACTORY_NAMES:
            # Only look at keys where no new resource would be generated
            key = (tp, name)
            if key in model.generated:
                assert ctx.get_resource_nowait(tp, name) is model.generated[key]
            elif key not in model.factories:
                assert ctx.get_resource_nowait(tp, name, optional=True) is None


def do_add_static(model: Model, rng: random.Random) -> None:
    types = tuple(rng.sample(TYPES, rng.choice([1, 1, 2, 3])))
    name = rng.choice(STATIC_NAMES)
    Model.counter += 1
    value = Value(f"static:{Model.counter}")
    conflict = any((tp, name) in model.static for tp in types)
    if conflict:
        with pytest.raises(ResourceConflict):
            model.ctx.add_resource(value, name, types)
    else:
        model.ctx.add_resource(value, name, types if len(types) > 1 else types[0])
        for tp in types:
            model.static[tp, name] = value


def do_add_factory(model: Model, rng: random.Random) -> None:
    types = tuple(rng.sample(TYPES, rng.choice([1, 1, 2, 3])))
    name = rng.choice(FACTORY_NAMES)
    Model.counter += 1
    factory_id = Model.counter
    calls = [0]

    if rng.random() < 0.5:

        def factory() -> Any:
            calls[0] += 1
            return Value(f"gen:{factory_id}:{calls[0]}")

    else:

        async def factory() -> Any:  # type: ignore[misc]
            await checkpoint()
            calls[0] += 1
            return Value(f"gen:{factory_id}:{calls[0]}")

    is_async = factory.__code__.co_flags & 0x80
    conflict = any((tp, name) in model.factories for tp in types)
    if conflict:
        with pytest.raises(ResourceConflict):
            model.ctx.add_resource_factory(factory, name, types=types)
    else:
        model.ctx.add_resource_factory(factory, name, types=types)
        for tp in types:
            model.factories[tp, name] = (factory_id, types, bool(is_async))


async def run_random_ops(
    open_models: list, current: Model, rng: random.Random, count: int
) -> None:
    for _ in range(count):
        model = rng.choice(open_models) if rng.random() < 0.4 else current
        op = rng.random()
        if op < 0.25:
            do_add_static(model, rng)
        elif op < 0.4:
            do_add_factory(model, rng)
        elif op < 0.8:
            tp = rng.choice(TYPES)
            name = rng.choice(STATIC_NAMES + FACTORY_NAMES)
            how = rng.randrange(7)
            key = (tp, name)
            if (
                model.visible(key) is MISSING
                and key in model.factories
                and model.factories[key][2]
            ):
                # async factory: must go through an async lookup path
                how = rng.choice([1, 4, 6])
                if current_context() is not model.ctx:
                    how = 1

            await check_lookup(model, tp, name, how)
        else:
            for each in open_models:
                check_all_visible(each)


async def visit(
    parent: Optional[Model], open_models: list, rng: random.Random, depth: int
) -> None:
    model = Model(parent)
    if parent is None:
        ctx = Context()
    elif rng.random() < 0.5:
        ctx = Context()  # implicit parent: the current context
    else:
        ctx = Context(parent.ctx)

    async with ctx:
        assert ctx.parent is (parent.ctx if parent else None)
        model.ctx = ctx
        open_models.append(model)
        check_all_visible(model)
        await run_random_ops(open_models, model, rng, rng.randrange(3, 9))
        if depth < 3:
            for _ in range(rng.randrange(0, 3)):
                await visit(model, open_models, rng, depth + 1)
                await run_random_ops(open_models, model, rng, rng.randrange(1, 5))

        for each in open_models:
            check_all_visible(each)

        open_models.remove(model)

    # Leaving a context must not have changed what the others see
    for each in open_models:
        check_all_visible(each)


@pytest.mark.parametrize("seed", range(25))
async def test_random_histories_against_model(seed: int) -> None:
    rng = random.Random(1000 + seed)
    await visit(None, [], rng, 0)


async def test_generated_resources_stay_in_requesting_context() -> None:
    made = []

    def factory() -> TA:
        made.append(TA())
        return made[-1]

    async with Context() as root:
        root.add_resource("static-root", "s1")
        root.add_resource_factory(factory, "f1")
        # generate in the root *before* the children are created
        in_root = root.get_resource_nowait(TA, "f1")
        assert in_root is made[0]

        async with Context() as child:
            # the generated resource of the root is not inherited; the factory is
            assert child.get_resources(TA) == {}
            assert child.get_resource_nowait(str, "s1") == "static-root"
            in_child = await child.get_resource(TA, "f1")
            assert in_child is made[1] and in_child is not in_root
            assert child.get_resources(TA) == {"f1": in_child}
            assert root.get_resources(TA) == {"f1": in_root}

            async with Context() as grandchild:
                assert grandchild.get_resources(TA) == {}
                in_grandchild = get_resource_nowait(TA, "f1")
                assert in_grandchild is made[2]
                assert child.get_resource_nowait(TA, "f1") is in_child
                assert root.get_resource_nowait(TA, "f1") is in_root

            assert len(made) == 3

        # a sibling created later starts without any generated resources, too
        async with Context() as sibling:
            assert sibling.get_resources(TA) == {}
            assert sibling.get_resource_nowait(TA, "f1") is made[3]

        assert root.get_resources(TA) == {"f1": in_root}


async def test_snapshot_moment_with_and_without_generated_resources() -> None:
    async with Context() as root:
        root.add_resource(1, "one")
        early = Context()  # created (not entered) before anything else happens
        root.add_resource_factory(lambda: TB(), "f1", types=[TB, TC])
        root.add_resource(2, "two")
        middle = Context()  # sees the factory + both ints, nothing generated yet
        generated = root.get_resource_nowait(TC, "f1")
        root.add_resource(3, "three")
        late = Context()  # created when the root already holds a generated resource
        root.add_resource(4, "four")

        async with AsyncExitStack() as stack:
            for ctx in (early, middle, late):
                await stack.enter_async_context(ctx)

            assert current_context() is late
            assert early.get_resources(int) == {"one": 1}
            assert middle.get_resources(int) == {"one": 1, "two": 2}
            assert late.get_resources(int) == {"one": 1, "two": 2, "three": 3}
            assert root.get_resources(int) == {
                "one": 1,
                "two": 2,
                "three": 3,
                "four": 4,
            }
            assert early.get_resource_nowait(TB, "f1", optional=True) is None
            assert early.get_resource_nowait(int, "four", optional=True) is None
            assert late.get_resource_nowait(int, "four", optional=True) is None
            for ctx in (middle, late):
                assert ctx.get_resources(TB) == {}
                assert ctx.get_resources(TC) == {}
                own = ctx.get_resource_nowait(TB, "f1")
                assert own is not generated
                assert await ctx.get_resource(TC, "f1") is own
                assert ctx.get_resources(TC) == {"f1": own}

            assert root.get_resources(TB) == {"f1": generated}
            # additions to a child are invisible in the parent and the siblings
            middle.add_resource(5, "five")
            assert middle.get_resource_nowait(int, "five") == 5
            for ctx in (root, early, late):
                assert ctx.get_resource_nowait(int, "five", optional=True) is None
                assert "five" not in ctx.get_resources(int)


async def test_concurrent_sibling_tasks_are_isolated() -> None:
    results: dict = {}

    async def worker(label: str) -> None:
        async with Context() as ctx:
            assert ctx.parent is root
            ctx.add_resource(label, "mine")
            ctx.add_resource_factory(lambda: Value(f"gen:{label}:1"), "f1", types=Value)
            created[label].set()
            await late_added.wait()
            generated = await get_resource(Value, "f1")
            await checkpoint()
            results[label] = (
                dict(get_resources(str)),
                generated,
                get_resource_nowait(TA, "late", optional=True),
                injected_sync(str, "mine")(),
            )

    created = {"a": Event(), "b": Event()}
    late_added = Event()
    async with Context() as root:
        root.add_resource("shared", "shared")
        async with create_task_group() as tg:
            tg.start_soon(worker, "a")
            tg.start_soon(worker, "b")
            await created["a"].wait()
            await created["b"].wait()
            root.add_resource(TA(), "late")
            late_added.set()

        assert root.get_resources(str) == {"shared": "shared"}
        assert root.get_resource_nowait(Value, "f1", optional=True) is None
        assert root.get_resources(Value) == {}

    for label in "ab":
        strings, generated, late, injected = results[label]
        assert strings == {"shared": "shared", "mine": label}
        assert generated.label == f"gen:{label}:1"
        assert late is None
        assert injected == label
