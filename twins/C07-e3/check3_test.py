"""
Property C07 checks, focused on the startup timeout (the watcher task started by
start_component()): the timeout striking at different moments, startups that finish
in time, and failures racing against the timeout.

Must pass both on the unchanged source and with refactor3.diff applied.
"""

from __future__ import annotations

from typing import Any

import pytest
from anyio import get_cancelled_exc_class, move_on_after, sleep

from asphalt.core import (
    Component,
    ComponentStartError,
    Context,
    add_resource,
    add_teardown_callback,
    get_resource,
    get_resource_nowait,
    start_component,
)

pytestmark = pytest.mark.anyio


@pytest.fixture
def anyio_backend() -> str:
    return "asyncio"


class Boom(Exception):
    pass


class Recorder:
    def __init__(self) -> None:
        self.events: list[str] = []
        self.registered: list[str] = []
        self.torn_down: list[str] = []

    def register(self, label: str) -> None:
        self.registered.append(label)
        add_teardown_callback(lambda: self.torn_down.append(label))


def build(rec: Recorder) -> type:
    class Node(Component):
        def __init__(
            self,
            path: str = "",
            children: dict[str, Any] | None = None,
            prepare_delay: float = 0,
            start_delay: float = 0,
            fail_in: str | None = None,
        ):
            self.path = path
            self.delays = {"prepare": prepare_delay, "start": start_delay}
            self.fail_in = fail_in
            for alias, conf in (children or {}).items():
                child_path = f"{path}.{alias}" if path else alias
                self.add_component(alias, Node, path=child_path, **conf)

        async def _phase(self, phase: str) -> None:
            rec.events.append(f"{phase}:{self.path}")
            rec.register(f"{phase}:{self.path}")
            add_resource(
                object(),
                f"{phase}_{self.path.replace('.', '_')}",
                teardown_callback=lambda: rec.torn_down.append(
                    f"resource-{phase}:{self.path}"
                ),
            )
            rec.registered.append(f"resource-{phase}:{self.path}")
            try:
                # Sleep in small steps so a lingering task would leave traces
                remaining = self.delays[phase]
                while remaining > 0:
                    await sleep(min(remaining, 0.02))
                    remaining -= 0.02
                    rec.events.append(f"{phase}-tick:{self.path}")
            except get_cancelled_exc_class():
                rec.events.append(f"{phase}-cancelled:{self.path}")
                raise

            if self.fail_in == phase:
                raise Boom(self.path)

            rec.events.append(f"{phase}-done:{self.path}")

        async def prepare(self) -> None:
            await self._phase("prepare")

        async def start(self) -> None:
            await self._phase("start")

    return Node


def tree(**overrides: Any) -> dict[str, Any]:
    config: dict[str, Any] = {
        "prepare_delay": 0.04,
        "children": {
            "fast": {"start_delay": 0.02},
            "mid": {
                "prepare_delay": 0.06,
                "children": {
                    "m1": {"start_delay": 0.1},
                    "m2": {"prepare_delay": 0.1, "start_delay": 0.1},
                },
                "start_delay": 0.06,
            },
            "slow": {"start_delay": 0.3},
        },
        "start_delay": 0.06,
    }
    config.update(overrides)
    return config


# The tree above takes about 0.04 + 0.06 + 0.2 + 0.06 + 0.06 = 0.42 seconds to start
# (slow: 0.04 + 0.3 = 0.34 < mid subtree), so these timeouts strike while:
# the root is preparing / mid is preparing / leaves are busy / mid is in start() /
# the root is in start()
@pytest.mark.parametrize("timeout", [0.02, 0.07, 0.2, 0.33, 0.39])
async def test_timeout_strikes_at_various_moments(timeout: float) -> None:
    rec = Recorder()
    node_class = build(rec)
    async with Context():
        rec.register("outer")
        with pytest.raises(TimeoutError) as exc_info:
            await start_component(node_class, tree(), timeout=timeout)

        assert isinstance(exc_info.value, TimeoutError)
        assert not isinstance(exc_info.value, ComponentStartError)
        assert "start-done:" not in rec.events

        # Everything that was in progress was interrupted
        for event in list(rec.events):
            phase, _, path = event.partition(":")
            if phase in ("prepare", "start"):
                assert (
                    f"{phase}-done:{path}" in rec.events
                    or f"{phase}-cancelled:{path}" in rec.events
                ), (event, rec.events)

        assert any("-cancelled:" in event for event in rec.events)

        # No startup work continues afterwards
        assert rec.torn_down == []
        snapshot = list(rec.events)
        registered = list(rec.registered)
        await sleep(0.5)
        assert rec.events == snapshot
        assert rec.registered == registered
        assert rec.torn_down == []

        # What was registered is still there, owned by the surrounding context
        for label in registered:
            if label.startswith("resource-"):
                phase, _, path = label[len("resource-") :].partition(":")
                get_resource_nowait(object, f"{phase}_{path.replace('.', '_')}")

    assert rec.torn_down == registered[::-1]
    assert rec.events == snapshot


@pytest.mark.parametrize("timeout", [0.9, 5, None])
async def test_startup_finishing_in_time_is_unaffected(timeout: float | None) -> None:
    rec = Recorder()
    node_class = build(rec)
    async with Context():
        component = await start_component(node_class, tree(), timeout=timeout)
        assert type(component) is node_class
        assert rec.events[-1] == "start-done:"
        assert not [e for e in rec.events if "cancelled" in e]
        for path in ("", "fast", "mid", "mid.m1", "mid.m2", "slow"):
            assert f"prepare-done:{path}" in rec.events
            assert f"start-done:{path}" in rec.events

        snapshot = list(rec.events)
        registered = list(rec.registered)
        # Stay in the context for longer than the timeout; nothing must happen
        await sleep(1.1 if timeout == 0.9 else 0.2)
        assert rec.events == snapshot
        assert rec.torn_down == []
        await get_resource(object, "start_mid_m2")

    assert rec.torn_down == registered[::-1]


@pytest.mark.parametrize("fail_phase", ["prepare", "start"])
async def test_failure_before_timeout_wins(fail_phase: str) -> None:
    rec = Recorder()
    node_class = build(rec)
    config = tree()
    config["children"]["mid"]["children"]["m1"]["fail_in"] = fail_phase
    async with Context():
        with pytest.raises(ComponentStartError) as exc_info:
            await start_component(node_class, config, timeout=0.6)

        exc = exc_info.value
        assert exc.phase == {"prepare": "preparing", "start": "starting"}[fail_phase]
        assert exc.path == "mid.m1"
        assert exc.component_type is node_class
        assert isinstance(exc.__cause__, Boom) and exc.__cause__.args == ("mid.m1",)
        assert "start:mid" not in rec.events
        assert "start:" not in rec.events
        assert "start-cancelled:slow" in rec.events
        assert (
            "prepare-cancelled:mid.m2" in rec.events
            or "start-cancelled:mid.m2" in rec.events
        )
        snapshot = list(rec.events)
        registered = list(rec.registered)
        # Wait past the moment the timeout would have struck
        await sleep(0.8)
        assert rec.events == snapshot
        assert rec.torn_down == []

    assert rec.torn_down == registered[::-1]


async def test_timeout_then_second_attempt_in_same_context() -> None:
    """After a timeout, the context is still usable and nothing lingers."""
    rec = Recorder()
    node_class = build(rec)
    async with Context():
        with pytest.raises(TimeoutError):
            await start_component(
                node_class, {"children": {"c": {"start_delay": 5}}}, timeout=0.1
            )

        assert "start-cancelled:c" in rec.events
        assert "start:" not in rec.events
        first_registered = list(rec.registered)
        assert rec.torn_down == []

    assert rec.torn_down == first_registered[::-1]


async def test_outer_cancellation_is_not_turned_into_timeout() -> None:
    rec = Recorder()
    node_class = build(rec)
    async with Context():
        rec.register("outer")
        with move_on_after(0.1) as scope:
            await start_component(node_class, tree(), timeout=5)
            pytest.fail("start_component() should have been cancelled")

        assert scope.cancelled_caught
        assert "start:" not in rec.events
        assert any("-cancelled:" in event for event in rec.events)
        snapshot = list(rec.events)
        await sleep(0.3)
        assert rec.events == snapshot
        assert rec.torn_down == []

    assert rec.torn_down == rec.registered[::-1]
