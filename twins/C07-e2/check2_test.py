"""
Property C07 checks, focused on _start_component(): the prepare() / children /
start() sequence of every node, with the failure striking at different moments
relative to the progress of the sibling subtrees.

Must pass both on the unchanged source and with refactor2.diff applied.
"""

from __future__ import annotations

from typing import Any

import pytest
from anyio import Event, sleep

from asphalt.core import (
    Component,
    ComponentStartError,
    Context,
    add_resource,
    add_teardown_callback,
    get_resource,
    get_resource_nowait,
    start_component,
)

pytestmark = pytest.mark.anyio


@pytest.fixture
def anyio_backend() -> str:
    return "asyncio"


class Boom(Exception):
    pass


class Recorder:
    def __init__(self) -> None:
        self.events: list[str] = []
        self.registered: list[str] = []
        self.torn_down: list[str] = []
        self.original: Boom | None = None

    def register(self, label: str) -> None:
        """Register something on the current context, to be torn down later."""
        self.registered.append(label)
        add_teardown_callback(lambda: self.torn_down.append(label))


def build(rec: Recorder) -> type:
    class Node(Component):
        def __init__(
            self,
            path: str = "",
            children: dict[str, Any] | None = None,
            prepare_delay: float = 0,
            start_delay: float = 0,
            fail_in: str | None = None,
        ):
            self.path = path
            self.prepare_delay = prepare_delay
            self.start_delay = start_delay
            self.fail_in = fail_in
            for alias, conf in (children or {}).items():
                child_path = f"{path}.{alias}" if path else alias
                self.add_component(alias, Node, path=child_path, **conf)

        async def _phase(self, phase: str, delay: float) -> None:
            rec.events.append(f"{phase}:{self.path}")
            rec.register(f"{phase}-early:{self.path}")
            try:
                await sleep(delay)
            except BaseException:
                rec.events.append(f"{phase}-cancelled:{self.path}")
                raise

            rec.register(f"{phase}-late:{self.path}")
            if self.fail_in == phase:
                rec.events.append(f"{phase}-failing:{self.path}")
                rec.original = Boom(self.path)
                raise rec.original

            rec.events.append(f"{phase}-done:{self.path}")

        async def prepare(self) -> None:
            await self._phase("prepare", self.prepare_delay)

        async def start(self) -> None:
            await self._phase("start", self.start_delay)

    return Node


def ancestors(path: str) -> list[str]:
    parts = path.split(".")
    return [".".join(parts[:i]) for i in range(len(parts))]


def open_phases(events: list[str]) -> list[str]:
    """Return the phase:path entries that were entered but never left."""
    result = []
    for event in events:
        phase, _, path = event.partition(":")
        if phase in ("prepare", "start"):
            if not any(
                f"{phase}-{outcome}:{path}" in events
                for outcome in ("done", "failing", "cancelled")
            ):
                result.append(event)

    return result


@pytest.mark.parametrize("fail_phase", ["prepare", "start"])
@pytest.mark.parametrize(
    "fail_delay", [0, 0.05, 0.15, 0.25], ids=lambda d: f"fail_after_{d}"
)
@pytest.mark.parametrize("fail_path", ["left.deep.leaf", "left.deep", "right"])
async def test_failure_at_various_moments(
    fail_phase: str, fail_delay: float, fail_path: str
) -> None:
    rec = Recorder()
    node_class = build(rec)
    config: dict[str, Any] = {
        "children": {
            "left": {
                "prepare_delay": 0.02,
                "children": {
                    "deep": {
                        "children": {
                            "leaf": {},
                            "slowleaf": {"prepare_delay": 0.1, "start_delay": 0.1},
                        }
                    },
                    "quick": {"start_delay": 0.01},
                },
            },
            "right": {
                "prepare_delay": 0.05,
                "children": {"r1": {"start_delay": 0.12}, "r2": {"prepare_delay": 1}},
            },
            "middle": {"start_delay": 0.2},
        }
    }
    # Plant the failure
    node_conf = config
    for part in fail_path.split("."):
        node_conf = node_conf["children"][part]

    node_conf["fail_in"] = fail_phase
    node_conf[f"{fail_phase}_delay"] = fail_delay

    async with Context():
        rec.register("outer")
        with pytest.raises(ComponentStartError) as exc_info:
            await start_component(node_class, config, timeout=10)

        exc = exc_info.value
        assert exc.phase == {"prepare": "preparing", "start": "starting"}[fail_phase]
        assert exc.path == fail_path
        assert exc.component_type is node_class
        assert exc.__cause__ is rec.original
        assert rec.events.count(f"{fail_phase}-failing:{fail_path}") == 1
        assert len([e for e in rec.events if "-failing:" in e]) == 1

        # start() of no ancestor was run
        for ancestor in ancestors(fail_path):
            assert f"start:{ancestor}" not in rec.events

        # if prepare() failed, neither the children nor own start() ran
        if fail_phase == "prepare":
            assert not [
                e for e in rec.events if e.split(":", 1)[1].startswith(fail_path + ".")
            ]
            assert f"start:{fail_path}" not in rec.events

        # every sibling still busy was stopped, nothing is left running
        assert open_phases(rec.events) == []
        assert rec.torn_down == []
        snapshot = list(rec.events)
        registered = list(rec.registered)
        await sleep(0.4)
        assert rec.events == snapshot
        assert rec.registered == registered
        assert rec.torn_down == []

    assert rec.torn_down == registered[::-1]
    assert rec.torn_down[-1] == "outer"
    assert rec.events == snapshot


async def test_sibling_waiting_for_resource_is_stopped() -> None:
    """A sibling blocked in get_resource() is stopped when another child fails."""
    events: list[str] = []

    class Waiter(Component):
        async def start(self) -> None:
            events.append("waiter-start")
            try:
                await get_resource(int, "never")
            finally:
                events.append("waiter-stopped")

            events.append("waiter-continued")

    class Provider(Component):
        async def prepare(self) -> None:
            add_resource("text", "provided", teardown_callback=self.teardown)

        def teardown(self) -> None:
            events.append("provider-teardown")

        async def start(self) -> None:
            await sleep(0.05)
            events.append("provider-failing")
            raise Boom("provider")

    class Parent(Component):
        def __init__(self) -> None:
            self.add_component("waiter", Waiter)
            self.add_component("provider", Provider)

        async def prepare(self) -> None:
            add_teardown_callback(lambda: events.append("parent-teardown"))

        async def start(self) -> None:
            events.append("parent-start")

    class Root(Component):
        def __init__(self) -> None:
            self.add_component("parent", Parent)
            self.add_component("other", Waiter)

        async def start(self) -> None:
            events.append("root-start")

    async with Context():
        with pytest.raises(ComponentStartError) as exc_info:
            await start_component(Root)

        assert exc_info.value.phase == "starting"
        assert exc_info.value.path == "parent.provider"
        assert exc_info.value.component_type is Provider
        assert isinstance(exc_info.value.__cause__, Boom)
        assert "parent-start" not in events
        assert "root-start" not in events
        assert events.count("waiter-start") == 2
        assert events.count("waiter-stopped") == 2
        assert "waiter-continued" not in events
        # Still owned by the surrounding context
        assert get_resource_nowait(str, "provided") == "text"
        assert "provider-teardown" not in events
        assert "parent-teardown" not in events
        snapshot = list(events)
        # Even if the awaited resource shows up now, nobody must resume
        add_resource(5, "never")
        await sleep(0.1)
        assert events == snapshot

    assert events[len(snapshot) :] == ["provider-teardown", "parent-teardown"]


async def test_failure_while_other_subtree_is_still_preparing() -> None:
    events: list[str] = []
    release = Event()

    class SlowPreparer(Component):
        def __init__(self) -> None:
            self.add_component("grandchild", Leaf)

        async def prepare(self) -> None:
            events.append("slow-prepare")
            try:
                await release.wait()
            finally:
                events.append("slow-prepare-exit")

        async def start(self) -> None:
            events.append("slow-start")

    class Leaf(Component):
        async def prepare(self) -> None:
            events.append("leaf-prepare")

        async def start(self) -> None:
            events.append("leaf-start")

    class Failing(Component):
        async def prepare(self) -> None:
            await sleep(0.05)
            raise Boom

    class Root(Component):
        def __init__(self) -> None:
            self.add_component("slow", SlowPreparer)
            self.add_component("failing", Failing)

        async def start(self) -> None:
            events.append("root-start")

    async with Context():
        with pytest.raises(ComponentStartError) as exc_info:
            await start_component(Root, timeout=5)

        assert (exc_info.value.phase, exc_info.value.path) == ("preparing", "failing")
        assert exc_info.value.component_type is Failing
        assert type(exc_info.value.__cause__) is Boom
        assert events == ["slow-prepare", "slow-prepare-exit"]
        release.set()
        await sleep(0.1)
        assert events == ["slow-prepare", "slow-prepare-exit"]
