"""
Behaviour checks for refactoring 2 (``__aenter__`` / ``__aexit__`` /
``_run_teardown_callbacks`` split into private helpers: callback invocation helper,
exception group factory, draining generator, parent attachment, current-context
switch, child context check).

Only the public API is used (plus monkeypatching of the ``create_task_group`` module
global, which no refactoring touches, to provoke a failure inside ``__aenter__``).
"""

from __future__ import annotations

import sys
from collections.abc import AsyncGenerator, Generator
from typing import Any, NoReturn

import pytest
from anyio import Event, sleep
from anyio.lowlevel import checkpoint

from asphalt.core import (
    Context,
    NoCurrentContext,
    add_teardown_callback,
    context_teardown,
    current_context,
    start_service_task,
)

if sys.version_info < (3, 11):
    from exceptiongroup import BaseExceptionGroup, ExceptionGroup

pytestmark = pytest.mark.anyio()

GROUP_MESSAGE = "Exceptions were raised during context teardown"


class Awaitable:
    """An awaitable that's neither a coroutine nor a future."""

    def __init__(self, log: list[Any], label: str) -> None:
        self.log = log
        self.label = label

    def __await__(self) -> Generator[Any, Any, None]:
        self.log.append(f"{self.label} awaited")
        yield from checkpoint().__await__()
        self.log.append(f"{self.label} finished")


class Truthy:
    """Stand-in for ``pass_exception`` that counts its truth value evaluations."""

    def __init__(self, value: bool) -> None:
        self.value = value
        self.evaluations = 0

    def __bool__(self) -> bool:
        self.evaluations += 1
        return self.value


async def test_callback_order_and_arguments() -> None:
    log: list[Any] = []

    def sync_noarg() -> str:
        log.append("sync_noarg")
        return "ignored, not awaitable"

    def sync_exc(exc: BaseException | None) -> int:
        log.append(("sync_exc", exc))
        return 0

    async def async_noarg() -> None:
        log.append("async_noarg start")
        await checkpoint()
        log.append("async_noarg end")

    async def async_exc(exc: BaseException | None) -> None:
        log.append(("async_exc", exc))

    def returns_awaitable() -> Awaitable:
        log.append("returns_awaitable")
        return Awaitable(log, "custom")

    class CallableObject:
        def __call__(self, *args: Any) -> None:
            log.append(("callable object", args))

    error = KeyError("the original")
    truthy, falsy = Truthy(True), Truthy(False)
    async with Context():
        with pytest.raises(KeyError) as exc_info:
            async with Context() as ctx:
                ctx.add_teardown_callback(sync_noarg)
                ctx.add_teardown_callback(sync_exc, pass_exception=True)
                ctx.add_teardown_callback(async_noarg, False)
                ctx.add_teardown_callback(async_exc, True)
                ctx.add_teardown_callback(returns_awaitable)
                ctx.add_teardown_callback(CallableObject(), truthy)  # type: ignore[arg-type]
                ctx.add_teardown_callback(CallableObject(), falsy)  # type: ignore[arg-type]
                add_teardown_callback(sync_exc, 1)  # type: ignore[arg-type]
                raise error

        assert exc_info.value is error
        assert log == [
            ("sync_exc", error),
            ("callable object", ()),
            ("callable object", (error,)),
            "returns_awaitable",
            "custom awaited",
            "custom finished",
            ("async_exc", error),
            "async_noarg start",
            "async_noarg end",
            ("sync_exc", error),
            "sync_noarg",
        ]
        assert truthy.evaluations == 1
        assert falsy.evaluations == 1

        # Clean exit: the callbacks get None
        del log[:]
        async with Context() as ctx:
            ctx.add_teardown_callback(sync_exc, True)
            ctx.add_teardown_callback(async_exc, True)

        assert log == [("async_exc", None), ("sync_exc", None)]


async def test_callbacks_added_during_teardown_run_next() -> None:
    log: list[str] = []

    def first() -> None:
        log.append("first")

    def nested() -> None:
        log.append("nested")
        ctx.add_teardown_callback(nested_more)

    def nested_more() -> None:
        log.append("nested_more")

    async def second() -> None:
        log.append("second")
        ctx.add_teardown_callback(nested)
        await checkpoint()
        add_teardown_callback(lambda: log.append("via function"))

    async with Context():
        async with Context() as ctx:
            ctx.add_teardown_callback(first)
            ctx.add_teardown_callback(second)

    # "nested" was added before second() finished, so it's still on top of "first"
    assert log == ["second", "via function", "nested", "nested_more", "first"]


async def test_failures_do_not_stop_remaining_callbacks() -> None:
    log: list[Any] = []
    errors = [ValueError("sync"), LookupError("async"), TypeError("late")]

    def ok() -> None:
        log.append("ok")

    def fail_sync() -> NoReturn:
        log.append("fail_sync")
        raise errors[0]

    async def fail_async(exc: BaseException | None) -> NoReturn:
        log.append(("fail_async", exc))
        await checkpoint()
        raise errors[1]

    def fail_and_add() -> NoReturn:
        log.append("fail_and_add")
        ctx.add_teardown_callback(ok)
        raise errors[2]

    class BadBool:
        def __bool__(self) -> bool:
            raise OverflowError("cannot decide")

    async with Context() as root:
        with pytest.raises(ExceptionGroup) as exc_info:
            async with Context() as ctx:
                ctx.add_teardown_callback(ok)
                ctx.add_teardown_callback(fail_sync)
                ctx.add_teardown_callback(ok, BadBool())  # type: ignore[arg-type]
                ctx.add_teardown_callback(fail_async, True)
                ctx.add_teardown_callback(fail_and_add)

        group = exc_info.value
        assert group.message == GROUP_MESSAGE
        assert group.exceptions[0] is errors[2]
        assert group.exceptions[1] is errors[1]
        assert type(group.exceptions[2]) is OverflowError
        assert group.exceptions[3] is errors[0]
        assert len(group.exceptions) == 4
        assert group.__cause__ is None
        assert log == [
            "fail_and_add",
            "ok",
            ("fail_async", None),
            "fail_sync",
            "ok",
        ]
        # The parent link and the current context were restored regardless
        assert current_context() is root
        assert ctx.closed is True

        # A new child can be exited cleanly afterwards (no stale child in root)
        async with Context() as sibling:
            assert sibling.parent is root

    assert root.closed is True


async def test_base_exception_from_callback() -> None:
    class Fatal(BaseException):
        pass

    fatal = Fatal("fatal")
    original = ValueError("original")

    def callback() -> NoReturn:
        raise fatal

    ran: list[str] = []
    async with Context():
        with pytest.raises(BaseExceptionGroup) as exc_info:
            async with Context() as ctx:
                ctx.add_teardown_callback(lambda: ran.append("earlier"))
                ctx.add_teardown_callback(callback)
                raise original

        assert not isinstance(exc_info.value, ExceptionGroup)
        assert exc_info.value.message == GROUP_MESSAGE
        assert exc_info.value.exceptions == (fatal,)
        assert exc_info.value.__cause__ is original
        assert ran == ["earlier"]


async def test_root_context_wraps_teardown_errors_in_task_group_error() -> None:
    error = ValueError("root teardown")

    def fail() -> NoReturn:
        raise error

    with pytest.raises(ExceptionGroup) as exc_info:
        async with Context() as ctx:
            ctx.add_teardown_callback(fail)

    # task group's exception group -> teardown exception group -> error
    assert len(exc_info.value.exceptions) == 1
    inner = exc_info.value.exceptions[0]
    assert isinstance(inner, ExceptionGroup)
    assert inner.message == GROUP_MESSAGE
    assert inner.exceptions == (error,)
    with pytest.raises(NoCurrentContext):
        current_context()

    # A single plain exception from the block is unwrapped by the root context
    with pytest.raises(ZeroDivisionError):
        async with Context():
            await checkpoint()
            raise ZeroDivisionError


async def test_teardown_callbacks_run_before_task_group_is_closed() -> None:
    log: list[str] = []
    stop = Event()

    async def service() -> None:
        log.append("service started")
        await stop.wait()
        log.append("service stopping")

    async def callback() -> None:
        log.append("callback start")
        # The service task must still be alive and schedulable here
        stop.set()
        await sleep(0.05)
        log.append("callback end")

    async with Context() as ctx:
        await start_service_task(service, "service", teardown_action=None)
        ctx.add_teardown_callback(callback)
        await sleep(0.05)
        log.append("block end")

    assert log == [
        "service started",
        "block end",
        "callback start",
        "service stopping",
        "callback end",
    ]


async def test_parent_child_bookkeeping_and_current_context() -> None:
    async with Context() as root:
        explicit_parent = Context()
        async with explicit_parent:
            assert explicit_parent.parent is root
            assert current_context() is explicit_parent
            # A context whose parent isn't the current one
            async with Context(root) as other:
                assert other.parent is root
                assert current_context() is other

            assert current_context() is explicit_parent

        assert current_context() is root

        # Exiting a parent before its child is stack corruption, reported by the
        # parent after its own teardown callbacks have run
        log: list[str] = []
        outer = Context()
        await outer.__aenter__()
        outer.add_teardown_callback(lambda: log.append("outer teardown"))
        inner = Context()
        await inner.__aenter__()
        with pytest.raises(RuntimeError) as exc_info:
            await outer.__aexit__(None, None, None)

        assert str(exc_info.value) == (
            f"Context stack corruption detected: context {id(outer):x} still has "
            f"1 active child context(s)"
        )
        assert log == ["outer teardown"]
        assert outer.closed is True
        assert inner.closed is False
        assert inner.parent is outer


async def test_stack_corruption_takes_precedence_only_without_teardown_error() -> None:
    def fail() -> NoReturn:
        raise ValueError("teardown")

    async with Context():
        outer = Context()
        with pytest.raises(ExceptionGroup) as exc_info:
            async with outer:
                outer.add_teardown_callback(fail)
                await Context().__aenter__()

        # The teardown error propagates; the child check is never reached
        assert exc_info.value.message == GROUP_MESSAGE
        assert outer.closed is True


async def test_failed_root_enter_undoes_current_context(
    monkeypatch: pytest.MonkeyPatch,
) -> None:
    def broken_task_group() -> NoReturn:
        raise OSError("no task group")

    ctx = Context()
    with monkeypatch.context() as patcher:
        patcher.setattr("asphalt.core._context.create_task_group", broken_task_group)
        with pytest.raises(OSError, match="^no task group$"):
            async with ctx:
                pytest.fail("the block must not be entered")

    with pytest.raises(NoCurrentContext):
        current_context()

    with pytest.raises(RuntimeError, match="^this context has not been entered yet$"):
        ctx.add_teardown_callback(lambda: None)

    async with ctx:
        assert current_context() is ctx


@pytest.mark.parametrize("fail", [False, True], ids=["clean", "error"])
async def test_context_teardown_decorator(fail: bool) -> None:
    log: list[Any] = []

    @context_teardown
    async def start() -> AsyncGenerator[None, BaseException | None]:
        log.append("started")
        exc = yield
        log.append(("teardown", exc))

    error = RuntimeError("block failed")
    async with Context():
        try:
            async with Context():
                await start()
                add_teardown_callback(lambda: log.append("added later, run first"))
                if fail:
                    raise error
        except RuntimeError as exc:
            assert exc is error

    assert log == [
        "started",
        "added later, run first",
        ("teardown", error if fail else None),
    ]
