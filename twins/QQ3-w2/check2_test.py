"""
Behaviour checks for refactoring 2 (resource description formatter moved to _utils,
``_display_name`` property, the event wait of get_resource() extracted to a helper).
"""

from __future__ import annotations

import logging
from typing import Any

import anyio
import pytest
from anyio import fail_after, get_cancelled_exc_class
from pytest import LogCaptureFixture

from asphalt.core import (
    Component,
    ComponentStartError,
    Context,
    ResourceConflict,
    ResourceEvent,
    ResourceNotFound,
    add_resource,
    add_resource_factory,
    add_teardown_callback,
    current_context,
    get_resource,
    get_resource_nowait,
    get_resources,
    start_background_task_factory,
    start_component,
    start_service_task,
)

pytestmark = pytest.mark.anyio()


@pytest.fixture
def anyio_backend() -> str:
    return "asyncio"


def component_messages(caplog: LogCaptureFixture) -> list[tuple[str, str]]:
    """Return (funcName, message) of the records emitted by ComponentContext."""
    return [
        (record.funcName, record.getMessage())
        for record in caplog.records
        if record.name == "asphalt.core"
        and (
            record.getMessage().startswith("Component '")
            or record.getMessage().startswith("The root component ")
        )
    ]


class Widget:
    pass


async def test_log_messages(caplog: LogCaptureFixture) -> None:
    caplog.set_level(logging.DEBUG, "asphalt.core")

    class Child(Component):
        async def prepare(self) -> None:
            add_resource("text", description="A text")
            add_resource(Widget(), "w", [Widget, object])

        async def start(self) -> None:
            add_resource(5, description="")
            add_resource_factory(self.factory, description="Makes floats")
            add_resource_factory(self.factory, "multi", types=[float, complex])
            await start_service_task(anyio.sleep_forever, "Sleeper")
            await start_background_task_factory()

        def factory(self) -> float:
            return 0.5

    class Root(Component):
        def __init__(self) -> None:
            self.add_component("child/alt", Child)

        async def start(self) -> None:
            add_resource(b"bytes", types=bytes)
            await start_service_task(anyio.sleep_forever, "Root sleeper")

    async with Context():
        await start_component(Root)

    widget_name = f"{Widget.__module__}.Widget"
    assert component_messages(caplog) == [
        (
            "add_resource",
            "Component 'child/alt' added a resource (type=str, name='default', "
            "description='A text')",
        ),
        (
            "add_resource",
            f"Component 'child/alt' added a resource (types=[{widget_name}, object], "
            f"name='w')",
        ),
        ("add_resource", "Component 'child/alt' added a resource (type=int, name='alt')"),
        (
            "add_resource_factory",
            "Component 'child/alt' added a resource factory (type=float, name='alt', "
            "description='Makes floats')",
        ),
        (
            "add_resource_factory",
            "Component 'child/alt' added a resource factory (types=[float, complex], "
            "name='multi')",
        ),
        ("start_service_task", "Component 'child/alt' started a service task (Sleeper)"),
        (
            "start_background_task_factory",
            "Component 'child/alt' started a background task factory",
        ),
        (
            "add_resource",
            "The root component added a resource (type=bytes, name='default')",
        ),
        (
            "start_service_task",
            "The root component started a service task (Root sleeper)",
        ),
    ]


async def test_no_log_message_on_failure(caplog: LogCaptureFixture) -> None:
    caplog.set_level(logging.DEBUG, "asphalt.core")
    errors: list[BaseException] = []

    class Root(Component):
        async def start(self) -> None:
            add_resource(1)
            for func, args in [
                (add_resource, (2,)),
                (add_resource, (2, "bad name")),
                (add_resource_factory, (lambda: 1,)),
                (add_resource_factory, (self.factory, "default")),
                (add_resource_factory, (self.factory,)),
            ]:
                try:
                    func(*args)  # type: ignore[operator]
                except Exception as exc:
                    errors.append(exc)

        def factory(self) -> int:
            return 5

    async with Context():
        await start_component(Root)

    assert [type(exc) for exc in errors] == [
        ResourceConflict,
        ValueError,
        ValueError,
        ResourceConflict,
    ]
    assert component_messages(caplog) == [
        ("add_resource", "The root component added a resource (type=int, name='default')"),
        (
            "add_resource_factory",
            "The root component added a resource factory (type=int, name='default')",
        ),
    ]


async def test_get_resource_waits(caplog: LogCaptureFixture) -> None:
    caplog.set_level(logging.DEBUG, "asphalt.core")
    got: list[Any] = []

    class Consumer(Component):
        async def start(self) -> None:
            got.append(await get_resource(float, "wanted"))
            got.append(await get_resource(float, "wanted"))
            got.append(await get_resource(float, "unwanted", optional=True))
            got.append(get_resource_nowait(int, "wanted"))
            got.append(get_resource_nowait(complex, "wanted", optional=True))
            with pytest.raises(ResourceNotFound):
                get_resource_nowait(complex, "wanted")

            got.append(get_resources(float))

    class Producer(Component):
        async def start(self) -> None:
            await anyio.sleep(0.05)
            # A burst of events that must all be ignored by the waiting component
            for index in range(150):
                add_resource(index, f"int{index}")

            add_resource(1, "wanted")  # right name, wrong type
            add_resource(1.5, "other")  # right type, wrong name
            await anyio.sleep(0.05)
            assert not got
            add_resource_factory(lambda: 2.5, "wanted", types=[float])

    class Root(Component):
        def __init__(self) -> None:
            self.add_component("consumer", Consumer)
            self.add_component("producer", Producer)

    with fail_after(5):
        async with Context():
            await start_component(Root)

    assert got == [2.5, 2.5, None, 1, None, {"other": 1.5, "wanted": 2.5}]
    consumer_messages = [
        item for item in component_messages(caplog) if "'consumer'" in item[1]
    ]
    assert consumer_messages == [
        (
            "get_resource",
            "Component 'consumer' is waiting for another component to provide a "
            "resource (type=float, name='wanted')",
        ),
        (
            "get_resource",
            "Component 'consumer' got the resource it was waiting for (type=float, "
            "name='wanted')",
        ),
    ]


async def test_cancelled_while_waiting(caplog: LogCaptureFixture) -> None:
    caplog.set_level(logging.DEBUG, "asphalt.core")
    caught: list[BaseException] = []

    class Root(Component):
        async def start(self) -> None:
            with anyio.move_on_after(0.1) as scope:
                try:
                    await get_resource(str, "never")
                except BaseException as exc:
                    caught.append(exc)
                    raise

            assert scope.cancelled_caught
            # The signal must have been disconnected from
            add_resource("now", "never")
            assert await get_resource(str, "never") == "now"

    with fail_after(5):
        async with Context():
            await start_component(Root)

    assert len(caught) == 1
    assert isinstance(caught[0], get_cancelled_exc_class())
    # The wait happens while the lookup failure is being handled
    context = caught[0].__context__
    while context is not None and not isinstance(context, ResourceNotFound):
        context = context.__context__

    assert isinstance(context, ResourceNotFound)
    messages = [message for _, message in component_messages(caplog)]
    assert messages == [
        "The root component is waiting for another component to provide a resource "
        "(type=str, name='never')",
        "The root component added a resource (type=str, name='never')",
    ]


async def test_startup_timeout_while_waiting(caplog: LogCaptureFixture) -> None:
    caplog.set_level(logging.DEBUG, "asphalt.core")

    class Waiter(Component):
        async def start(self) -> None:
            await get_resource(Widget)

    class Root(Component):
        def __init__(self) -> None:
            self.add_component("waiter", Waiter)

    async with Context():
        with pytest.raises(TimeoutError, match="timeout starting component tree"):
            await start_component(Root, timeout=0.2)

    errors = [r.getMessage() for r in caplog.records if r.levelno == logging.ERROR]
    assert len(errors) == 1
    assert "waiter: starting" in errors[0]
    assert "await get_resource(Widget)" in errors[0]


async def test_resource_removed_between_event_and_lookup() -> None:
    """The lookup after the event is not retried: its failure propagates."""

    class Root(Component):
        async def start(self) -> None:
            await get_resource(Widget, "gone")

    class Bystander(Component):
        async def start(self) -> None:
            await anyio.sleep(0.05)
            context = current_context()
            # Announce a resource that cannot then be found
            context._context.resource_added.dispatch(  # type: ignore[attr-defined]
                ResourceEvent((Widget,), "gone", None, False)
            )

    class Top(Component):
        def __init__(self) -> None:
            self.add_component("root", Root)
            self.add_component("bystander", Bystander)

    with fail_after(5):
        async with Context():
            with pytest.raises(ComponentStartError) as exc_info:
                await start_component(Top)

    assert isinstance(exc_info.value.__cause__, ResourceNotFound)
    assert isinstance(exc_info.value.__cause__.__context__, ResourceNotFound)
    assert exc_info.value.__cause__.__context__ is not exc_info.value.__cause__


async def test_teardown_callbacks_go_to_the_enclosing_context() -> None:
    events: list[str] = []

    class Root(Component):
        async def start(self) -> None:
            add_teardown_callback(lambda: events.append("first"))
            add_teardown_callback(
                lambda exc: events.append(f"second {type(exc).__name__}"), True
            )

    with pytest.raises(KeyError):
        async with Context():
            await start_component(Root)
            assert events == []
            raise KeyError("x")

    assert events == ["second KeyError", "first"]
