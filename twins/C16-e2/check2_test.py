"""
Property check C16 (focus: reading and merging the configuration files, YAML tags), via the ``asphalt run``
command line interface.  Must pass both on the unchanged source and with change 2.
"""

from __future__ import annotations

import copy
import random
import re
from pathlib import Path
from typing import Any
from unittest.mock import patch

import pytest
import yaml
from click.testing import CliRunner

from asphalt.core import _cli

ERROR = object()


# --------------------------------------------------------------------------- model
def deep_merge(a: dict[str, Any], b: dict[str, Any]) -> dict[str, Any]:
    out = dict(a)
    for key, value in b.items():
        if isinstance(out.get(key), dict) and isinstance(value, dict):
            out[key] = deep_merge(out[key], value)
        else:
            out[key] = value
    return out


def expected_config(
    documents: list[dict[str, Any]],
    overrides: list[str],
    service: str | None,
    env_service: str | None,
) -> Any:
    config: dict[str, Any] = {}
    for doc in documents:
        config = deep_merge(config, copy.deepcopy(doc))

    for override in overrides:
        key, value = override.split("=", 1)
        parts = [p.replace("\\.", ".") for p in re.split(r"(?<!\\)\.", key)]
        section = config
        for part in parts[:-1]:
            section = section.setdefault(part, {})
            if not isinstance(section, dict):
                return ERROR  # cannot descend into a scalar: the command must fail

        section[parts[-1]] = yaml.safe_load(value)

    services = config.pop("services", {})
    if "component" in config:
        services.setdefault("default", {"component": config.pop("component")})

    name = service or env_service
    if not services:
        return ERROR
    if name:
        if name not in services:
            return ERROR
        selected = services[name]
    elif len(services) == 1:
        selected = next(iter(services.values()))
    elif "default" in services:
        selected = services["default"]
    else:
        return ERROR

    return deep_merge(config, selected)


# ------------------------------------------------------------------------- harness
def invoke(
    monkeypatch: pytest.MonkeyPatch,
    documents: list[dict[str, Any]],
    overrides: list[str] = [],
    service: str | None = None,
    env_service: str | None = None,
) -> Any:
    """Run ``asphalt run`` and return the config handed to run_application."""
    if env_service is None:
        monkeypatch.delenv("ASPHALT_SERVICE", raising=False)
    else:
        monkeypatch.setenv("ASPHALT_SERVICE", env_service)

    runner = CliRunner()
    with (
        runner.isolated_filesystem(),
        patch("asphalt.core._cli.run_application") as run_app,
    ):
        args = ["run"]
        if service is not None:
            args += ["--service", service]
        for i, doc in enumerate(documents):
            Path(f"conf{i}.yml").write_text(yaml.safe_dump(doc))
            args.append(f"conf{i}.yml")
        for override in overrides:
            args += ["--set", override]

        result = runner.invoke(_cli.main, args)

    if run_app.call_count == 0:
        assert result.exit_code != 0
        assert "Error" in result.output
        return ERROR

    assert result.exit_code == 0, result.output
    assert run_app.call_count == 1
    (component_type, component_config), kwargs = run_app.call_args
    config = dict(kwargs)
    config["component"] = {"type": component_type, **component_config}
    return config


def normalise(expected: Any) -> Any:
    """Add the defaults that the command supplies itself."""
    if expected is ERROR:
        return ERROR
    expected = dict(expected)
    expected.setdefault("backend", "asyncio")
    expected.setdefault("backend_options", {})
    return expected


def comp(name: str, **extra: Any) -> dict[str, Any]:
    return {"type": f"pkg.mod:{name}", **extra}


def invoke_raw(
    monkeypatch: pytest.MonkeyPatch, files: list[str], extra_args: list[str] = []
) -> Any:
    """Like invoke(), but with literal YAML file contents."""
    monkeypatch.delenv("ASPHALT_SERVICE", raising=False)
    runner = CliRunner()
    with (
        runner.isolated_filesystem(),
        patch("asphalt.core._cli.run_application") as run_app,
    ):
        args = ["run"]
        for i, text in enumerate(files):
            Path(f"conf{i}.yml").write_text(text)
            args.append(f"conf{i}.yml")

        result = runner.invoke(_cli.main, args + extra_args)

    if run_app.call_count == 0:
        assert result.exit_code != 0
        return ERROR

    assert result.exit_code == 0, result.output
    (component_type, component_config), kwargs = run_app.call_args
    return {**kwargs, "component": {"type": component_type, **component_config}}


def random_tree(rng: random.Random, depth: int) -> dict[str, Any]:
    tree: dict[str, Any] = {}
    for key in rng.sample(["a", "b", "c", "d.e", "f"], rng.randint(1, 4)):
        if depth and rng.random() < 0.6:
            tree[key] = random_tree(rng, depth - 1)
        else:
            tree[key] = rng.choice([1, "x", None, True, [1, 2], {}, 2.5])
    return tree


@pytest.mark.parametrize("seed", range(25))
def test_files_are_deep_merged_in_order(
    monkeypatch: pytest.MonkeyPatch, seed: int
) -> None:
    rng = random.Random(seed)
    documents: list[dict[str, Any]] = []
    for _ in range(rng.randint(1, 4)):
        doc: dict[str, Any] = {"extra": random_tree(rng, 3)}
        if rng.random() < 0.7:
            doc["component"] = {"components": random_tree(rng, 2)}
        if rng.random() < 0.5:
            doc["max_threads"] = rng.randint(1, 50)
        documents.append(doc)

    documents[rng.randrange(len(documents))].setdefault("component", {})[
        "type"
    ] = "pkg:Root"
    overrides = []
    if rng.random() < 0.5:
        overrides.append("extra.a.b=[3, {k: v}]")
    if rng.random() < 0.5:
        overrides.append(r"extra.d\.e=null")

    actual = invoke(monkeypatch, documents, overrides)
    assert actual == normalise(expected_config(documents, overrides, None, None))


def test_later_file_wins_and_nested_keys_survive(
    monkeypatch: pytest.MonkeyPatch,
) -> None:
    documents = [
        {
            "component": comp("Root", components={"db": {"url": "a", "pool": 5}}),
            "logging": {"version": 1, "handlers": {"console": {"level": "INFO"}}},
            "backend": "trio",
        },
        {
            "component": {"components": {"db": {"url": "b"}, "web": {"port": 80}}},
            "logging": {"handlers": {"console": {"level": "DEBUG"}, "file": {}}},
        },
        {"component": {"components": {"db": 5}}, "backend_options": {"debug": True}},
    ]
    actual = invoke(monkeypatch, documents)
    assert actual == {
        "component": comp("Root", components={"db": 5, "web": {"port": 80}}),
        "logging": {
            "version": 1,
            "handlers": {"console": {"level": "DEBUG"}, "file": {}},
        },
        "backend": "trio",
        "backend_options": {"debug": True},
    }
    # Same file given twice is idempotent; reversed order gives the other winner
    assert invoke(monkeypatch, documents[:2] + documents[:2]) == invoke(
        monkeypatch, documents[:2]
    )
    reversed_ = invoke(monkeypatch, documents[1::-1])
    assert reversed_["component"]["components"]["db"] == {"url": "a", "pool": 5}


def test_tags_in_files_and_overrides(
    monkeypatch: pytest.MonkeyPatch, tmp_path: Path
) -> None:
    monkeypatch.setenv("C16_VAR", "value: from env")
    monkeypatch.delenv("C16_UNSET", raising=False)
    payload = tmp_path / "payload.bin"
    payload.write_bytes(b"line1\nline2 \xc3\xa4\n")
    files = [
        f"""\
component:
  type: pkg:Root
  env: !Env C16_VAR
  unset: !Env C16_UNSET
  text: !TextFile {payload}
  nested:
    - !BinaryFile {payload}
    - {{inner: !Env C16_VAR}}
""",
        f"""\
component:
  text2: !TextFile "{payload}"
  env: overridden
secret: !BinaryFile {payload}
""",
    ]
    actual = invoke_raw(
        monkeypatch,
        files,
        ["--set", "component.fromset=!Env C16_VAR", "--set", f"blob=!BinaryFile {payload}"],
    )
    assert actual == {
        "component": {
            "type": "pkg:Root",
            "env": "overridden",
            "unset": None,
            "text": payload.read_text(),
            "text2": payload.read_text(),
            "nested": [payload.read_bytes(), {"inner": "value: from env"}],
            "fromset": "value: from env",
        },
        "secret": payload.read_bytes(),
        "blob": payload.read_bytes(),
        "backend": "asyncio",
        "backend_options": {},
    }


def test_yaml_typed_and_escaped_overrides(monkeypatch: pytest.MonkeyPatch) -> None:
    documents = [{"component": comp("Root", opts={"a": {"b": 1}}), "x.y": {"z": 0}}]
    overrides = [
        "component.opts.a.c=1.5",
        "component.opts.a.b={k: [1, two, null]}",
        "component.flag=yes",
        "component.text='123'",
        "component.eq=a=b",
        r"x\.y.z=7",
        r"x\.y.w\.v.u=on",
        "brand.new.path=[]",
    ]
    actual = invoke(monkeypatch, documents, overrides)
    assert actual == normalise(expected_config(documents, overrides, None, None))
    assert actual["component"]["opts"] == {
        "a": {"b": {"k": [1, "two", None]}, "c": 1.5}
    }
    assert actual["component"]["flag"] is True
    assert actual["component"]["text"] == "123"
    assert actual["component"]["eq"] == "a=b"
    assert actual["x.y"] == {"z": 7, "w.v": {"u": True}}
    assert actual["brand"] == {"new": {"path": []}}


@pytest.mark.parametrize(
    "files, args",
    [
        pytest.param(
            ["services:\n  a: {component: {type: x}}\n  b: {component: {type: y}}\n"],
            [],
            id="ambiguous",
        ),
        pytest.param(["component: {type: x}\n"], ["-s", "nope"], id="missing-service"),
        pytest.param(["max_threads: 3\n"], [], id="no-services"),
        pytest.param(["component: {type: x}\n"], ["--set", "noequals"], id="bad-set"),
        pytest.param(
            ["component: 5\n"], ["--set", "component.x=1"], id="set-through-scalar"
        ),
    ],
)
def test_failures_start_nothing(
    monkeypatch: pytest.MonkeyPatch, files: list[str], args: list[str]
) -> None:
    assert invoke_raw(monkeypatch, files, args) is ERROR
