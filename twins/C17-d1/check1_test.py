"""
Demonstration for change 1: ``None`` must behave like an empty dictionary for EITHER
argument of merge_config(), also when the other argument is ``None`` or empty too.
"""

from __future__ import annotations

from typing import Any

import pytest

from asphalt.core import Component, Context, merge_config, start_component

pytestmark = pytest.mark.anyio


@pytest.mark.parametrize(
    "original, overrides",
    [
        pytest.param(None, None, id="both_none"),
        pytest.param({}, None, id="empty_original_none_overrides"),
        pytest.param(None, {}, id="none_original_empty_overrides"),
        pytest.param({}, {}, id="both_empty"),
    ],
)
def test_nothing_merged_with_nothing_is_an_empty_dict(
    original: dict[str, Any] | None, overrides: dict[str, Any] | None
) -> None:
    result = merge_config(original, overrides)
    assert result == {}
    assert type(result) is dict
    assert result is not original
    assert result is not overrides


def test_none_on_one_side_gives_copy_of_the_other() -> None:
    # Sanity check of the neighbouring cases
    config = {"a": {"b": 1}, "x.y": None}
    for result in (merge_config(config, None), merge_config(None, config)):
        assert result == config
        assert result is not config


async def test_component_with_null_components_section() -> None:
    """
    The same thing seen through start_component(): a component that has no hard-coded
    child components, configured with ``components: null`` (what an empty ``components:``
    section in a YAML file parses to).
    """

    class Leaf(Component):
        pass

    async with Context():
        component = await start_component(Leaf, {"components": None})

    assert isinstance(component, Leaf)
