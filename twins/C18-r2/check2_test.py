"""
Behaviour check for refactoring 2 (guard clause / early return in Context.get_resource).

Exercises the C18 property through the (async) get_resource() API, both the Context
method and the module level function: existing resources, not-found / optional lookups,
sync and async factories, failing and cancelled factories, re-entrant publication from
within a factory, and concurrent first lookups.
"""

from __future__ import annotations

from typing import Any

import anyio
import pytest
from anyio import create_task_group, wait_all_tasks_blocked
from anyio.abc import TaskStatus

from asphalt.core import (
    Context,
    ResourceEvent,
    ResourceNotFound,
    add_resource,
    current_context,
    get_resource,
)

pytestmark = pytest.mark.anyio()


class Recorder:
    def __init__(self) -> None:
        self.events: dict[str, list[ResourceEvent]] = {}
        self.contexts: dict[str, Context] = {}

    async def listen(
        self, label: str, ctx: Context, *, task_status: TaskStatus[None]
    ) -> None:
        self.events[label] = []
        self.contexts[label] = ctx
        async with ctx.resource_added.stream_events() as stream:
            task_status.started()
            async for event in stream:
                self.events[label].append(event)

    async def take(self) -> dict[str, list[tuple[Any, ...]]]:
        """Return and clear what every listener has seen so far."""
        await wait_all_tasks_blocked()
        result: dict[str, list[tuple[Any, ...]]] = {}
        for label, events in self.events.items():
            for event in events:
                assert event.source is self.contexts[label]
                assert event.topic == "resource_added"

            result[label] = [
                (
                    e.resource_types,
                    e.resource_name,
                    e.resource_description,
                    e.is_factory,
                )
                for e in events
            ]
            events.clear()

        return result


async def test_lookups_that_generate_nothing() -> None:
    rec = Recorder()
    async with create_task_group() as tg, Context() as root:
        root.add_resource("inherited", "a", description="from root")
        async with Context() as child:
            await tg.start(rec.listen, "root", root)
            await tg.start(rec.listen, "child", child)

            # Existing (inherited) resource: returned, nothing announced
            assert await child.get_resource(str, "a") == "inherited"
            assert await get_resource(str, "a") == "inherited"

            # Missing resource and no factory
            with pytest.raises(ResourceNotFound) as exc_info:
                await child.get_resource(str)

            assert exc_info.value.type is str
            assert exc_info.value.name == "default"
            with pytest.raises(ResourceNotFound):
                await child.get_resource(int, "a", optional=False)

            with pytest.raises(ResourceNotFound):
                await get_resource(bytes, "zz")

            assert await child.get_resource(str, optional=True) is None
            assert await get_resource(int, "a", optional=True) is None
            assert await rec.take() == {"root": [], "child": []}

            # A resource added afterwards is found without a second announcement
            child.add_resource("own", description="from child")
            assert await child.get_resource(str) == "own"
            assert await child.get_resource(str, optional=True) == "own"
            assert await root.get_resource(str, optional=True) is None
            assert await rec.take() == {
                "root": [],
                "child": [((str,), "default", "from child", False)],
            }

        tg.cancel_scope.cancel()


async def test_sync_and_async_factories_via_get_resource() -> None:
    rec = Recorder()
    made: list[str] = []

    def sync_factory() -> int:
        raise AssertionError("never registered")

    def list_factory() -> list:  # type: ignore[type-arg]
        made.append("list")
        return [len(made)]

    async def dict_factory() -> dict:  # type: ignore[type-arg]
        made.append("dict")
        await anyio.sleep(0)
        return {"n": len(made)}

    async with create_task_group() as tg, Context() as root:
        await tg.start(rec.listen, "root", root)
        with pytest.raises(TypeError, match="None is not a valid resource type"):
            root.add_resource_factory(sync_factory, types=[int, None])  # type: ignore[list-item]

        root.add_resource_factory(list_factory, "seq", description="a list")
        root.add_resource_factory(
            dict_factory, "map", types=[dict, object], description="a dict"
        )
        assert await rec.take() == {
            "root": [
                ((list,), "seq", "a list", True),
                ((dict, object), "map", "a dict", True),
            ]
        }

        async with Context() as child:
            await tg.start(rec.listen, "child", child)
            first = await child.get_resource(list, "seq")
            assert first == [1]
            assert await child.get_resource(list, "seq") is first
            assert await get_resource(list, "seq", optional=True) is first
            assert await rec.take() == {
                "root": [],
                "child": [((list,), "seq", "a list", False)],
            }

            mapping = await get_resource(object, "map")
            assert mapping == {"n": 2}
            assert await child.get_resource(dict, "map") is mapping
            assert await rec.take() == {
                "root": [],
                "child": [((dict, object), "map", "a dict", False)],
            }

            # Wrong name for an existing factory type: not found, nothing announced
            with pytest.raises(ResourceNotFound):
                await child.get_resource(list, "map")

            assert await child.get_resource(dict, "seq", optional=True) is None
            assert await rec.take() == {"root": [], "child": []}
            assert made == ["list", "dict"]

            # The root context generates its own instances
            assert await root.get_resource(list, "seq") == [3]
            assert await rec.take() == {
                "root": [((list,), "seq", "a list", False)],
                "child": [],
            }

        tg.cancel_scope.cancel()


async def test_failing_and_cancelled_factories() -> None:
    rec = Recorder()
    started = anyio.Event()
    attempts = 0

    async def factory() -> int:
        nonlocal attempts
        attempts += 1
        if attempts == 1:
            raise LookupError("first attempt fails")
        elif attempts == 2:
            started.set()
            await anyio.sleep_forever()

        return attempts

    async with create_task_group() as tg, Context() as ctx:
        await tg.start(rec.listen, "ctx", ctx)
        ctx.add_resource_factory(factory, "n")
        assert await rec.take() == {"ctx": [((int,), "n", None, True)]}

        with pytest.raises(LookupError, match="first attempt fails"):
            await ctx.get_resource(int, "n")

        with pytest.raises(LookupError, match="first attempt fails") as exc_info:
            attempts = 0
            await ctx.get_resource(int, "n", optional=True)

        assert not isinstance(exc_info.value, ResourceNotFound)

        async def lookup() -> None:
            await ctx.get_resource(int, "n")
            pytest.fail("should have been cancelled")

        async with create_task_group() as inner:
            inner.start_soon(lookup)
            await started.wait()
            inner.cancel_scope.cancel()

        assert attempts == 2
        assert await rec.take() == {"ctx": []}
        assert ctx.get_resources(int) == {}

        assert await ctx.get_resource(int, "n") == 3
        assert await ctx.get_resource(int, "n") == 3
        assert attempts == 3
        assert await rec.take() == {"ctx": [((int,), "n", None, False)]}
        tg.cancel_scope.cancel()


async def test_reentrant_publication_from_factory() -> None:
    """A factory that itself publishes a resource: inner event first, then its own."""
    rec = Recorder()

    async def factory() -> float:
        ctx = current_context()
        add_resource("side effect", "side", description="added by factory")
        # Looking up an already existing resource from within the factory
        assert await ctx.get_resource(str, "side") == "side effect"
        return 1.5

    async with create_task_group() as tg, Context() as root:
        root.add_resource_factory(factory, description="re-entrant")
        async with Context() as child:
            await tg.start(rec.listen, "root", root)
            await tg.start(rec.listen, "child", child)
            assert await child.get_resource(float) == 1.5
            assert await child.get_resource(float) == 1.5
            assert await rec.take() == {
                "root": [],
                "child": [
                    ((str,), "side", "added by factory", False),
                    ((float,), "default", "re-entrant", False),
                ],
            }

        tg.cancel_scope.cancel()


async def test_concurrent_first_lookups() -> None:
    """
    Two lookups racing on an async factory both run it; the first finished one wins the
    slot and every finished generation is announced on that context only.
    """
    rec = Recorder()
    gate = anyio.Event()
    results: list[int] = []
    calls = 0

    async def factory() -> int:
        nonlocal calls
        calls += 1
        mine = calls
        await gate.wait()
        return mine

    async def lookup(ctx: Context) -> None:
        results.append(await ctx.get_resource(int))

    async with create_task_group() as tg, Context() as root:
        root.add_resource_factory(factory)
        async with Context() as child:
            await tg.start(rec.listen, "root", root)
            await tg.start(rec.listen, "child", child)
            async with create_task_group() as inner:
                inner.start_soon(lookup, child)
                inner.start_soon(lookup, child)
                await wait_all_tasks_blocked()
                assert calls == 2
                assert await rec.take() == {"root": [], "child": []}
                gate.set()

            assert sorted(results) == [1, 2]
            winner = child.get_resource_nowait(int)
            assert winner == results[0]
            assert await child.get_resource(int) == winner
            assert await rec.take() == {
                "root": [],
                "child": [
                    ((int,), "default", None, False),
                    ((int,), "default", None, False),
                ],
            }

        tg.cancel_scope.cancel()
