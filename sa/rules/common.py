"""Anchors discovered by role from public API names (never by line number)."""
from __future__ import annotations

import ast
from functools import cached_property
from typing import Iterable, Optional

from ..cfg import CFG, Node, eval_order, iter_own
from ..effects import Analysis, Mutation, access_path
from ..loader import AnalysisError, ClassInfo, FuncInfo, dotted, walk_own


def self_attr(expr, attr: str | None = None) -> Optional[str]:
    """'x' for ``self.x`` (optionally only when x == attr)."""
    if isinstance(expr, ast.Attribute) and isinstance(expr.value, ast.Name) and expr.value.id == "self":
        if attr is None or expr.attr == attr:
            return expr.attr
    return None


def names_in(expr) -> set:
    return {n.id for n in ast.walk(expr) if isinstance(n, ast.Name)} if expr is not None else set()


def attrs_in(expr) -> set:
    return {n.attr for n in ast.walk(expr) if isinstance(n, ast.Attribute)} if expr is not None else set()


def calls_in(node) -> list:
    return [n for n in iter_own(node) if isinstance(n, ast.Call)]


def call_name(call: ast.Call) -> str:
    f = call.func
    if isinstance(f, ast.Subscript):
        f = f.value
    if isinstance(f, ast.Attribute):
        return f.attr
    if isinstance(f, ast.Name):
        return f.id
    return ""


def is_const(expr, value) -> bool:
    return isinstance(expr, ast.Constant) and expr.value == value and type(expr.value) is type(value)


def enum_member(expr, enum_name: str) -> Optional[str]:
    if isinstance(expr, ast.Attribute) and isinstance(expr.value, ast.Name) and expr.value.id == enum_name:
        return expr.attr
    return None


def stmt_nodes(cfg: CFG, pred) -> list:
    return [n for n in cfg.live_nodes() if pred(n)]


def find_assign_sources(func: FuncInfo, name: str) -> list:
    """Value expressions assigned to local ``name`` in func (Assign/AnnAssign/NamedExpr/for/with)."""
    out = []
    for n in walk_own(func.node):
        if isinstance(n, ast.Assign):
            for t in n.targets:
                for tt, vv in _pair_targets(t, n.value):
                    if isinstance(tt, ast.Name) and tt.id == name:
                        out.append(vv)
        elif isinstance(n, ast.AnnAssign) and isinstance(n.target, ast.Name) and n.target.id == name and n.value is not None:
            out.append(n.value)
        elif isinstance(n, ast.NamedExpr) and isinstance(n.target, ast.Name) and n.target.id == name:
            out.append(n.value)
        elif isinstance(n, ast.AugAssign) and isinstance(n.target, ast.Name) and n.target.id == name:
            out.append(n.value)
    return out


def _pair_targets(target, value):
    if isinstance(target, (ast.Tuple, ast.List)) and isinstance(value, (ast.Tuple, ast.List)) and len(target.elts) == len(value.elts):
        for t, v in zip(target.elts, value.elts):
            yield from _pair_targets(t, v)
    elif isinstance(target, (ast.Tuple, ast.List)):
        for t in target.elts:
            yield t, ast.Subscript(value=value, slice=ast.Constant(value="*"), ctx=ast.Load())
    else:
        yield target, value


def def_use_closure(func: FuncInfo, expr, depth: int = 6) -> set:
    """Names (locals, params, 'self.attr' strings) the value of expr may depend on,
    following local assignments and loop targets transitively."""
    seen: set = set()
    work = [expr]
    d = 0
    loop_sources = {}
    for n in walk_own(func.node):
        if isinstance(n, (ast.For, ast.AsyncFor)):
            for t in Analysis._flatten_targets([n.target]):
                if isinstance(t, ast.Name):
                    loop_sources.setdefault(t.id, []).append(n.iter)
        elif isinstance(n, (ast.With, ast.AsyncWith)):
            for it in n.items:
                if isinstance(it.optional_vars, ast.Name):
                    loop_sources.setdefault(it.optional_vars.id, []).append(it.context_expr)
        elif isinstance(n, (ast.ListComp, ast.DictComp, ast.SetComp, ast.GeneratorExp)):
            for g in n.generators:
                for t in Analysis._flatten_targets([g.target]):
                    if isinstance(t, ast.Name):
                        loop_sources.setdefault(t.id, []).append(g.iter)
    while work and d < 200:
        d += 1
        e = work.pop()
        if e is None:
            continue
        for n in ast.walk(e):
            if isinstance(n, ast.Attribute):
                dn = dotted(n)
                if dn and dn not in seen:
                    seen.add(dn)
            if isinstance(n, ast.Name) and n.id not in seen:
                seen.add(n.id)
                for src in find_assign_sources(func, n.id):
                    work.append(src)
                for src in loop_sources.get(n.id, []):
                    work.append(src)
    return seen


class Anchors:
    def __init__(self, a: Analysis):
        self.a = a
        self.p = a.p

    # ---------------------------------------------------------------- Context
    @cached_property
    def Context(self) -> ClassInfo:
        c = self.p.public("Context")
        if not isinstance(c, ClassInfo):
            raise AnalysisError("anchor-missing public class Context")
        return c

    def ctx_method(self, name: str) -> FuncInfo:
        m = self.p.method(self.Context, name)
        if m is None:
            raise AnalysisError(f"anchor-missing Context.{name}")
        return m

    def _stored_table(self, method: str) -> str:
        """The self.<attr> that ``method`` stores into by subscript / setdefault."""
        f = self.ctx_method(method)
        cands = []
        for n, m in self.a.func_mutations(f):
            if len(m.path) == 2 and m.path[0] == "self" and m.depth_key and m.kind in ("store", "call:setdefault", "call:update", "call:__setitem__"):
                cands.append(m.path[1])
        cands = [c for c in dict.fromkeys(cands)]
        if len(cands) != 1:
            raise AnalysisError(f"anchor-missing table written by Context.{method} (candidates {cands})")
        return cands[0]

    @cached_property
    def resource_table(self) -> str:
        return self._stored_table("add_resource")

    @cached_property
    def factory_table(self) -> str:
        return self._stored_table("add_resource_factory")

    @cached_property
    def teardown_stack(self) -> str:
        f = self.ctx_method("add_teardown_callback")
        cands = []
        for n, m in self.a.func_mutations(f):
            if len(m.path) == 2 and m.path[0] == "self" and m.kind.startswith("call:"):
                cands.append(m.path[1])
        cands = list(dict.fromkeys(cands))
        if len(cands) != 1:
            raise AnalysisError(f"anchor-missing teardown stack attribute (candidates {cands})")
        return cands[0]

    @cached_property
    def state_enum(self) -> str:
        # the enum whose members are passed to the guard in add_resource
        f = self.ctx_method("add_resource")
        for call, c in self.a.func_calls(f):
            if c.kind == "func" and c.func.cls is not None and c.recv is not None and dotted(c.recv) == "self":
                for arg in call.args:
                    if isinstance(arg, ast.Attribute) and isinstance(arg.value, ast.Name) and arg.value.id in self.p.classes:
                        return arg.value.id
        raise AnalysisError("anchor-missing context state enum")

    @cached_property
    def guard(self) -> FuncInfo:
        f = self.ctx_method("add_resource")
        for call, c in self.a.func_calls(f):
            if c.kind == "func" and c.func.cls is not None and any(enum_member(x, self.state_enum) for x in call.args):
                return c.func
        raise AnalysisError("anchor-missing state guard method")

    @cached_property
    def state_attr(self) -> str:
        f = self.ctx_method("__aenter__")
        for n in walk_own(f.node):
            if isinstance(n, ast.Assign) and enum_member(n.value, self.state_enum):
                for t in n.targets:
                    s = self_attr(t)
                    if s:
                        return s
        raise AnalysisError("anchor-missing context state attribute")

    @cached_property
    def signal_attr(self) -> str:
        sig = self.p.public("Signal")
        for name, val in self.Context.assigns.items():
            if isinstance(val, ast.Call) and dotted(val.func) == "Signal":
                return name
        raise AnalysisError("anchor-missing resource_added signal attribute")

    @cached_property
    def event_class(self) -> ClassInfo:
        val = self.Context.assigns[self.signal_attr]
        if val.args and isinstance(val.args[0], ast.Name) and val.args[0].id in self.p.classes:
            return self.p.classes[val.args[0].id]
        raise AnalysisError("anchor-missing resource event class")

    @cached_property
    def container_class(self) -> ClassInfo:
        """Class of the values stored in the resource table by add_resource."""
        f = self.ctx_method("add_resource")
        for n in walk_own(f.node):
            if isinstance(n, ast.Assign) and isinstance(n.value, ast.Call):
                c = self.a.callee(f, n.value)
                if c.kind == "class" and "dataclass" in c.cls.decorators and c.cls is not self.event_class:
                    return c.cls
        raise AnalysisError("anchor-missing resource container class")

    @cached_property
    def factory_class(self) -> ClassInfo:
        f = self.ctx_method("add_resource_factory")
        for n in walk_own(f.node):
            if isinstance(n, ast.Assign) and isinstance(n.value, ast.Call):
                c = self.a.callee(f, n.value)
                if c.kind == "class" and "dataclass" in c.cls.decorators and c.cls is not self.event_class:
                    return c.cls
        raise AnalysisError("anchor-missing resource factory class")

    @cached_property
    def generated_flag(self) -> str:
        """The bool field of the container class with default False."""
        cands = [k for k, v in self.container_class.assigns.items() if is_const(v, False)]
        if len(cands) != 1:
            raise AnalysisError(f"anchor-missing generated flag on {self.container_class.name} (candidates {cands})")
        return cands[0]

    def dataclass_fields(self, ci: ClassInfo) -> list:
        out = []
        for c in reversed(self.p.mro(ci)):
            if "dataclass" not in c.decorators:
                continue
            for st in c.node.body:
                if isinstance(st, ast.AnnAssign) and isinstance(st.target, ast.Name):
                    ann = ast.unparse(st.annotation)
                    if ann.startswith("ClassVar"):
                        continue
                    init = True
                    if isinstance(st.value, ast.Call) and call_name(st.value) == "field":
                        for kw in st.value.keywords:
                            if kw.arg == "init" and is_const(kw.value, False):
                                init = False
                    if init:
                        out.append(st.target.id)
        return out

    @cached_property
    def init_closure(self) -> list:
        """Context.__init__ plus the Context helper methods that run only as part of it
        (every call site of the helper lies inside this closure)."""
        init = self.ctx_method("__init__")
        closure = [init]
        changed = True
        while changed:
            changed = False
            for f in list(closure):
                for call, c in self.a.func_calls(f):
                    if c.kind == "func" and c.func.cls is self.Context and c.func not in closure:
                        g = c.func
                        callers = [h for h in self.p.all_functions() for _, cc in self.a.func_calls(h) if cc.kind == "func" and cc.func is g]
                        if callers and all(h in closure for h in callers):
                            closure.append(g)
                            changed = True
        return closure

    # ---------------------------------------------------------------- dispatch sites
    def dispatch_calls(self, f: FuncInfo) -> list:
        """ast.Call nodes in f that resolve to Signal.dispatch."""
        sig = self.p.classes.get("Signal")
        out = []
        for call, c in self.a.func_calls(f):
            if c.kind == "func" and c.func.name == "dispatch" and c.func.cls is sig:
                out.append(call)
            elif c.kind in ("method", "attrcall", "unknown") and call_name(call) == "dispatch":
                out.append(call)
        return out

    # ---------------------------------------------------------------- component side
    @cached_property
    def ComponentContext(self) -> ClassInfo:
        for ci in self.p.classes.values():
            if ci is not self.Context and self.p.is_subclass(ci, self.Context.name):
                return ci
        raise AnalysisError("anchor-missing component context class (subclass of Context)")

    @cached_property
    def wrapped_attr(self) -> str:
        """Attribute of the component context holding the wrapped real context."""
        init = self.ComponentContext.methods.get("__init__")
        if init is None:
            raise AnalysisError("anchor-missing ComponentContext.__init__")
        for n in walk_own(init.node):
            if isinstance(n, (ast.Assign, ast.AnnAssign)):
                targets = n.targets if isinstance(n, ast.Assign) else [n.target]
                for t in targets:
                    s = self_attr(t)
                    if s and n.value is not None:
                        clo = def_use_closure(init, n.value)
                        if "current_context" in clo or self._context_vars & set(clo):
                            return s
        # by role: the attribute the wrapper methods forward to (`self.X.add_resource(...)` inside
        # `add_resource`), when the wrapped context is handed in rather than looked up
        votes: dict = {}
        for name, m in self.ComponentContext.methods.items():
            for c in walk_own(m.node):
                if isinstance(c, ast.Call) and isinstance(c.func, ast.Attribute) and c.func.attr == name:
                    x = self_attr(c.func.value)
                    if x:
                        votes[x] = votes.get(x, 0) + 1
        if votes:
            best = max(votes, key=lambda k: votes[k])
            if votes[best] >= 3 and any(self_attr(t) == best for n in walk_own(init.node) if isinstance(n, (ast.Assign, ast.AnnAssign)) for t in (n.targets if isinstance(n, ast.Assign) else [n.target])):
                return best
        raise AnalysisError("anchor-missing wrapped-context attribute")

    @cached_property
    def _context_vars(self) -> set:
        """Names of the module-level ContextVar(s) of the context module (read directly instead
        of through current_context())."""
        return {k for k, v in self.Context.module.assigns.items() if "ContextVar" in ast.unparse(v)}

    @cached_property
    def children_attr(self) -> str:
        """Attribute of the component context holding its child component contexts: the
        constructor parameter annotated as a mapping of component contexts."""
        init = self.ComponentContext.methods.get("__init__")
        if init is None:
            raise AnalysisError("anchor-missing ComponentContext.__init__")
        cname = self.ComponentContext.name
        for p_ in init.params:
            ann = init.param_annotation(p_)
            if ann is not None and cname in ast.unparse(ann) and ("dict" in ast.unparse(ann) or "Mapping" in ast.unparse(ann)):
                for n in walk_own(init.node):
                    if isinstance(n, (ast.Assign, ast.AnnAssign)) and isinstance(n.value, ast.Name) and n.value.id == p_:
                        for t in (n.targets if isinstance(n, ast.Assign) else [n.target]):
                            if self_attr(t):
                                return self_attr(t)
        raise AnalysisError("anchor-missing child-contexts attribute of the component context")

    @cached_property
    def start_component(self) -> FuncInfo:
        f = self.p.public("start_component")
        if not isinstance(f, FuncInfo):
            raise AnalysisError("anchor-missing start_component")
        return f

    @cached_property
    def init_component(self) -> FuncInfo:
        """The sync function start_component calls that returns the root component context."""
        f = self.start_component
        for call, c in self.a.func_calls(f):
            if c.kind == "func" and not c.func.is_async and c.func.module is f.module:
                rt = self.a.r.ann_to_type(c.func.module, getattr(c.func.node, "returns", None))
                if rt is self.ComponentContext:
                    return c.func
        raise AnalysisError("anchor-missing component init function")

    @cached_property
    def starter(self) -> FuncInfo:
        f = self.start_component
        for n in walk_own(f.node):
            if isinstance(n, ast.Await) and isinstance(n.value, ast.Call):
                c = self.a.callee(f, n.value)
                if c.kind == "func" and c.func.is_async and c.func.module is f.module:
                    # takes the component context
                    for p_ in c.func.params:
                        if self.a.r.ann_to_type(c.func.module, c.func.param_annotation(p_)) is self.ComponentContext:
                            return c.func
        raise AnalysisError("anchor-missing component starter coroutine")


def include_rules(ctx, modname: str, as_rule: str, only: tuple = (), drop_adopted_from: tuple = ()) -> None:
    """Run another property's rule module on the same analysis and adopt its instances under
    this property's rule id (shared obligations, e.g. C14 relies on merge_config being a deep
    right-biased merge, which C17 decides)."""
    import importlib

    from ..report import Report

    import copy as _copy

    mod = importlib.import_module(f"sa.rules.{modname}")
    # one run of a rule module per analysis (several properties adopt rules of the same module,
    # directly and through each other)
    cache = ctx.a.__dict__.setdefault("_include_cache", {})
    if modname not in cache:

        class _Sub:
            pass

        sub = _Sub()
        sub.p, sub.a, sub.tier = ctx.p, ctx.a, ctx.tier
        sub.thorough = ctx.tier == "thorough"
        sub.rep = Report(ctx.rep.prop, ctx.tier, ctx.rep.seed)
        cache[modname] = None  # a cycle of includes would otherwise recurse for ever
        mod.run(sub)
        cache[modname] = (list(sub.rep.instances), set(sub.rep.functions_analysed))
    if cache[modname] is None:
        raise AnalysisError(f"include cycle through rule module {modname}")
    insts, funcs = cache[modname]
    for i0 in insts:
        if only and i0.rule not in only:
            continue
        if drop_adopted_from and i0.why.startswith(tuple(f"[{r}]" for r in drop_adopted_from)):
            continue  # instances the other module adopted from the includer itself
        i = _copy.copy(i0)
        i.why = f"[{i.rule}] {i.why}"
        i.rule = as_rule
        ctx.rep.instances.append(i)
    ctx.rep.functions_analysed |= funcs


def include_fn(ctx, fn, as_rule: str, only: tuple = ()) -> None:
    """Like include_rules, for a single entry point of another rule module (avoids running -
    and recursing into - the whole module)."""
    from ..report import Report

    class _Sub:
        pass

    sub = _Sub()
    sub.p, sub.a, sub.tier = ctx.p, ctx.a, ctx.tier
    sub.thorough = ctx.tier == "thorough"
    sub.rep = Report(ctx.rep.prop, ctx.tier, ctx.rep.seed)
    fn(sub)
    for i in sub.rep.instances:
        if only and i.rule not in only:
            continue
        i.why = f"[{i.rule}] {i.why}"
        i.rule = as_rule
        ctx.rep.instances.append(i)
    ctx.rep.functions_analysed |= sub.rep.functions_analysed


def defining_call(a, f: FuncInfo, expr, at_call: ast.AST):
    """If expr is a local bound (single reaching definition) to a call expression, that call;
    `at_call` is an AST node inside the statement where expr is used."""
    if isinstance(expr, ast.Call):
        return expr
    if isinstance(expr, ast.Name):
        from ..dataflow import ReachingDefs

        cfg = a.cfg(f)
        ns = cfg.nodes_containing(at_call)
        if ns:
            rd = ReachingDefs(a, f)
            v = rd.def_expr(ns[0].id, expr)
            if isinstance(v, ast.Call):
                return v
    return None
