"""
Behaviour checks for refactoring 1 (name validation / "type-like" helpers in
``Context.add_resource`` and ``Context.add_resource_factory``).

Passes on the unchanged source and with refactor1.diff applied.
"""

from __future__ import annotations

from collections.abc import AsyncGenerator
from contextlib import asynccontextmanager
from typing import Any, List

import pytest
from anyio import create_task_group, wait_all_tasks_blocked
from anyio.abc import TaskStatus

from asphalt.core import (
    Context,
    ResourceConflict,
    ResourceEvent,
    ResourceNotFound,
    add_resource,
    add_resource_factory,
)

pytestmark = pytest.mark.anyio()

NAME_MESSAGE = (
    '"name" must be a nonempty string consisting only of alphanumeric '
    "characters and underscores"
)


@pytest.fixture
async def context() -> AsyncGenerator[Context, None]:
    async with Context() as ctx:
        yield ctx


@asynccontextmanager
async def record_events(ctx: Context) -> AsyncGenerator[list[ResourceEvent], None]:
    """Collect the ``resource_added`` events dispatched within the block."""
    events: list[ResourceEvent] = []

    async def listen(task_status: TaskStatus[None]) -> None:
        async with ctx.resource_added.stream_events() as stream:
            task_status.started()
            async for event in stream:
                events.append(event)

    async with create_task_group() as tg:
        await tg.start(listen)
        yield events
        await wait_all_tasks_blocked()
        tg.cancel_scope.cancel()


class Custom:
    pass


class TestAddResourceTypes:
    async def test_default_type_is_type_of_value(self, context: Context) -> None:
        value = Custom()
        context.add_resource(value)
        assert context.get_resource_nowait(Custom) is value
        with pytest.raises(ResourceNotFound):
            context.get_resource_nowait(object)

    @pytest.mark.parametrize("falsy", [(), [], 0, None, "", False])
    async def test_falsy_types_fall_back_to_value_type(
        self, context: Context, falsy: Any
    ) -> None:
        context.add_resource(4, types=falsy)
        assert context.get_resource_nowait(int) == 4

    async def test_single_class(self, context: Context) -> None:
        context.add_resource(4, "x", object)
        assert context.get_resource_nowait(object, "x") == 4
        assert context.get_resource_nowait(int, "x", optional=True) is None

    async def test_single_generic_alias(self, context: Context) -> None:
        value = [1, 2]
        context.add_resource(value, types=List[int])
        assert context.get_resource_nowait(List[int]) is value  # type: ignore[arg-type]
        assert context.get_resource_nowait(list, optional=True) is None

    async def test_builtin_generic_alias(self, context: Context) -> None:
        value = {"a": 1}
        context.add_resource(value, types=dict[str, int])
        assert context.get_resource_nowait(dict[str, int]) is value
        assert context.get_resource_nowait(dict, optional=True) is None

    @pytest.mark.parametrize("factory", [list, tuple], ids=["list", "tuple"])
    async def test_sequence_of_types(self, context: Context, factory: Any) -> None:
        async with record_events(context) as events:
            context.add_resource(
                4, "seq", factory([int, float, List[int]]), description="desc"
            )

        for type_ in (int, float, List[int]):
            assert context.get_resource_nowait(type_, "seq") == 4

        assert len(events) == 1
        event = events[0]
        assert event.resource_types == (int, float, List[int])
        assert event.resource_name == "seq"
        assert event.resource_description == "desc"
        assert event.is_factory is False
        assert event.source is context
        assert event.topic == "resource_added"

    @pytest.mark.parametrize(
        "bad_types",
        [
            pytest.param(5, id="int_instance"),
            pytest.param("int", id="string"),
            pytest.param([int, "float"], id="list_with_string"),
            pytest.param((int, 3), id="tuple_with_int"),
            pytest.param({int}, id="set"),
            pytest.param({int: 1}, id="dict"),
            pytest.param(Custom(), id="object"),
            pytest.param([[int]], id="nested_list"),
        ],
    )
    async def test_bad_types(self, context: Context, bad_types: Any) -> None:
        with pytest.raises(TypeError) as exc:
            context.add_resource(4, types=bad_types)

        assert str(exc.value) == "types must be a type or sequence of types"
        assert context.get_resources(int) == {}

    async def test_generator_is_not_a_sequence(self, context: Context) -> None:
        # A generator is truthy, not a class, has no origin and is not a Sequence
        with pytest.raises(TypeError, match="types must be a type or sequence"):
            context.add_resource(4, types=(t for t in [int]))


class TestCheckOrder:
    async def test_types_checked_before_value(self, context: Context) -> None:
        with pytest.raises(TypeError, match="types must be a type"):
            context.add_resource(None, "bad name", types=["x"])

    async def test_value_checked_before_name(self, context: Context) -> None:
        with pytest.raises(ValueError) as exc:
            context.add_resource(None, "bad name")

        assert str(exc.value) == '"value" must not be None'

    async def test_name_checked_before_conflict_and_teardown(
        self, context: Context
    ) -> None:
        context.add_resource(4)
        with pytest.raises(ValueError) as exc:
            context.add_resource(4, "", teardown_callback="notcallable")  # type: ignore[arg-type]

        assert str(exc.value) == NAME_MESSAGE

    async def test_conflict_checked_before_teardown(self, context: Context) -> None:
        context.add_resource(4)
        with pytest.raises(ResourceConflict):
            context.add_resource(5, teardown_callback="notcallable")  # type: ignore[arg-type]

    async def test_state_checked_first(self) -> None:
        ctx = Context()
        with pytest.raises(RuntimeError, match="has not been entered yet"):
            ctx.add_resource(None, "bad name", types="x")

        with pytest.raises(RuntimeError, match="has not been entered yet"):
            ctx.add_resource_factory(lambda: 1, "bad name")

        async with ctx:
            pass

        with pytest.raises(RuntimeError, match="has already been closed"):
            ctx.add_resource(None, "bad name", types="x")

        with pytest.raises(RuntimeError, match="has already been closed"):
            ctx.add_resource_factory(lambda: 1, "bad name")

    async def test_factory_name_checked_before_types(self, context: Context) -> None:
        with pytest.raises(ValueError) as exc:
            context.add_resource_factory(lambda: 1, "a-b")

        assert str(exc.value) == NAME_MESSAGE
        assert exc.value.__cause__ is None
        assert exc.value.__context__ is None


class TestNames:
    @pytest.mark.parametrize("name", ["", "a.b", "a:b", "a b", "a-b", " a", "a\n", "ä "])
    async def test_bad_names(self, context: Context, name: str) -> None:
        with pytest.raises(ValueError) as exc:
            context.add_resource(4, name)

        assert str(exc.value) == NAME_MESSAGE
        assert exc.value.__cause__ is None
        assert exc.value.__context__ is None

        with pytest.raises(ValueError) as exc:
            context.add_resource_factory(lambda: 4, name, types=int)

        assert str(exc.value) == NAME_MESSAGE
        assert context.get_resources(int) == {}
        assert context.get_resource_nowait(int, name, optional=True) is None

    @pytest.mark.parametrize("name", ["a", "_", "A_1", "ünïcode", "0", "١٢"])
    async def test_good_names(self, context: Context, name: str) -> None:
        context.add_resource(4, name)
        context.add_resource_factory(lambda: 4.5, name, types=float)
        assert context.get_resource_nowait(int, name) == 4
        assert context.get_resource_nowait(float, name) == 4.5

    @pytest.mark.parametrize("name", [None, 4, b"abc", ("a",)])
    async def test_non_string_names(self, context: Context, name: Any) -> None:
        with pytest.raises(TypeError) as exc1:
            context.add_resource(4, name)

        with pytest.raises(TypeError) as exc2:
            context.add_resource_factory(lambda: 4, name, types=int)

        assert str(exc1.value) == str(exc2.value)
        assert "types must be" not in str(exc1.value)

    async def test_str_subclass_name(self, context: Context) -> None:
        class MyStr(str):
            pass

        context.add_resource(4, MyStr("abc"))
        assert context.get_resource_nowait(int, "abc") == 4


class TestConflictsAndTeardown:
    async def test_conflict_message(self, context: Context) -> None:
        context.add_resource(Custom(), "foo", [Custom, object])
        with pytest.raises(ResourceConflict) as exc:
            context.add_resource(4, "foo", [int, object, Custom])

        assert str(exc.value) == (
            "this context already contains a resource of type object using the name "
            "'foo'"
        )
        # Nothing must have been registered by the failed call
        assert context.get_resource_nowait(int, "foo", optional=True) is None

        with pytest.raises(ResourceConflict) as exc:
            context.add_resource(4, "foo", Custom)

        assert str(exc.value) == (
            f"this context already contains a resource of type "
            f"{Custom.__module__}.{Custom.__qualname__} using the name 'foo'"
        )

    async def test_conflict_generic_alias_message(self, context: Context) -> None:
        context.add_resource([1], types=List[int])
        with pytest.raises(ResourceConflict) as exc:
            context.add_resource([2], types=[List[int]])

        assert "using the name 'default'" in str(exc.value)
        assert context.get_resource_nowait(List[int]) == [1]  # type: ignore[arg-type]

    async def test_bad_teardown_callback_registers_nothing(
        self, context: Context
    ) -> None:
        async with record_events(context) as events:
            with pytest.raises(TypeError, match="callback must be a callable"):
                context.add_resource(4, teardown_callback=4)  # type: ignore[arg-type]

        assert events == []
        assert context.get_resource_nowait(int, optional=True) is None

    async def test_teardown_order_and_closing_state(self) -> None:
        calls: list[str] = []

        def late_adder() -> None:
            # Resources may still be added while the context is closing...
            add_resource("late", "late", teardown_callback=lambda: calls.append("late"))
            calls.append("adder")
            # ...but resource factories may not
            with pytest.raises(RuntimeError, match="is being torn down"):
                add_resource_factory(lambda: 1, types=int)

        async with Context() as ctx:
            ctx.add_resource(1, "a", teardown_callback=lambda: calls.append("a"))
            ctx.add_resource(2, "b", teardown_callback=late_adder)
            ctx.add_resource(3, "c", teardown_callback=lambda: calls.append("c"))

        assert calls == ["c", "adder", "late", "a"]

    async def test_child_context_inherits_and_shadows(self, context: Context) -> None:
        context.add_resource(1, "n")
        async with Context() as child:
            with pytest.raises(ResourceConflict):
                child.add_resource(2, "n")

            child.add_resource(2, "m")
            assert child.get_resource_nowait(int, "n") == 1

        assert context.get_resource_nowait(int, "m", optional=True) is None
