"""Inlining pre-pass: 'extract method' must not change any verdict.

Private helper functions/methods of the package that are only ever *called* (never passed
around as values), are not recursive, are not generators / context managers / pure guards,
are inlined at their statement-position call sites before the rules run; a helper whose
call sites were all inlined is removed from the tree.  The rules therefore see the same
program whether a block of code lives in the public method or in a freshly extracted
`_helper()`.  Nodes keep the line numbers of the helper, so reports still point at real code.
"""
from __future__ import annotations

import ast
import copy
import itertools

from .loader import ClassInfo, FuncInfo, walk_own

MUTATORS = {"append", "extend", "insert", "remove", "pop", "clear", "update", "setdefault", "add", "discard", "popitem"}


class NotInlinable(Exception):
    pass


def _contains_return(st) -> bool:
    for n in _walk_no_defs(st):
        if isinstance(n, ast.Return):
            return True
    return False


def _walk_no_defs(node):
    if isinstance(node, (ast.FunctionDef, ast.AsyncFunctionDef, ast.Lambda, ast.ClassDef)):
        yield node
        return
    stack = [node]
    while stack:
        n = stack.pop()
        yield n
        for c in ast.iter_child_nodes(n):
            if isinstance(c, (ast.FunctionDef, ast.AsyncFunctionDef, ast.Lambda, ast.ClassDef)):
                continue
            stack.append(c)


def _always_returns(stmts) -> bool:
    if not stmts:
        return False
    last = stmts[-1]
    if isinstance(last, (ast.Return, ast.Raise)):
        return True
    if isinstance(last, ast.If):
        return _always_returns(last.body) and _always_returns(last.orelse)
    if isinstance(last, ast.Try) and not last.finalbody and not last.orelse:
        return _always_returns(last.body) and all(_always_returns(h.body) for h in last.handlers)
    return False


def _lower(stmts: list, conv) -> list:
    """Replace `return` statements of an inlined body by `conv(ret)` (a list of statements),
    nesting the rest of the block into the other branch of guard-style early returns."""
    out: list = []
    for i, st in enumerate(stmts):
        if isinstance(st, ast.Return):
            out.extend(conv(st))
            return out
        if isinstance(st, (ast.FunctionDef, ast.AsyncFunctionDef, ast.ClassDef)):
            out.append(st)
            continue
        if isinstance(st, ast.If) and _contains_return(st):
            rest = stmts[i + 1 :]
            b_ret, o_ret = _always_returns(st.body), _always_returns(st.orelse)
            body = _lower(st.body, conv)
            orelse = _lower(st.orelse, conv)
            if b_ret and o_ret:
                out.append(ast.copy_location(ast.If(test=st.test, body=body or [ast.Pass()], orelse=orelse), st))
                return out
            if b_ret:
                new_else = orelse + _lower(rest, conv)
                out.append(ast.copy_location(ast.If(test=st.test, body=body or [ast.copy_location(ast.Pass(), st)], orelse=new_else), st))
                return out
            if o_ret:
                out.append(ast.copy_location(ast.If(test=st.test, body=body + _lower(rest, conv) or [ast.copy_location(ast.Pass(), st)], orelse=orelse or [ast.copy_location(ast.Pass(), st)]), st))
                return out
            raise NotInlinable("return in a branch that does not always return")
        if isinstance(st, ast.Try) and _contains_return(st) and not st.finalbody and not st.orelse and (i == len(stmts) - 1 or _always_returns([st])):
            # every way out of the statement is a return / raise: the value is produced inside
            new_try = copy.copy(st)
            new_try.body = _lower(st.body, conv) or [ast.copy_location(ast.Pass(), st)]
            new_try.handlers = []
            for h in st.handlers:
                nh = copy.copy(h)
                nh.body = _lower(h.body, conv) or [ast.copy_location(ast.Pass(), h)]
                new_try.handlers.append(nh)
            out.append(new_try)
            return out
        if isinstance(st, (ast.With, ast.AsyncWith)) and _contains_return(st) and i == len(stmts) - 1:
            # `with cm: ...; return v` in tail position: the value is produced inside the block
            new_with = copy.copy(st)
            new_with.body = _lower(st.body, conv) or [ast.copy_location(ast.Pass(), st)]
            out.append(new_with)
            return out
        if isinstance(st, (ast.For, ast.AsyncFor)) and _contains_return(st) and not st.orelse:
            # a search loop: `for x in xs: if c: return v` + rest  ->  the returns leave the
            # loop with `break`, the rest of the body runs in the loop's `else`
            new_for = copy.copy(st)
            new_for.body = _loop_returns_to_breaks(st.body, conv)
            new_for.orelse = _lower(stmts[i + 1 :], conv)
            out.append(new_for)
            return out
        if _contains_return(st):
            raise NotInlinable("return inside a loop / try / with")
        out.append(st)
    return out


def _loop_returns_to_breaks(stmts: list, conv) -> list:
    out = []
    for st in stmts:
        if isinstance(st, ast.Return):
            out.extend(conv(st))
            out.append(ast.copy_location(ast.Break(), st))
            return out
        if isinstance(st, ast.Break):
            raise NotInlinable("search loop with a break of its own")
        if isinstance(st, (ast.FunctionDef, ast.AsyncFunctionDef, ast.ClassDef)):
            out.append(st)
            continue
        if isinstance(st, ast.If):
            new_if = copy.copy(st)
            new_if.body = _loop_returns_to_breaks(st.body, conv) or [ast.copy_location(ast.Pass(), st)]
            new_if.orelse = _loop_returns_to_breaks(st.orelse, conv)
            out.append(new_if)
            continue
        if _contains_return(st) or any(isinstance(n, ast.Break) for n in _loop_level([st])):
            raise NotInlinable("return inside a nested loop / try / with of a loop")
        out.append(st)
    return out


def _return_in_loop(stmts) -> bool:
    for st in stmts:
        for n in _walk_no_defs(st):
            if isinstance(n, (ast.For, ast.AsyncFor, ast.While)) and any(isinstance(x, ast.Return) for b in n.body + n.orelse for x in _walk_no_defs(b)):
                return True
    return False


def _returns_to_breaks(stmts: list, conv) -> list:
    out = []
    for st in stmts:
        if isinstance(st, ast.Return):
            out.extend(conv(st))
            out.append(ast.copy_location(ast.Break(), st))
            continue
        if isinstance(st, (ast.FunctionDef, ast.AsyncFunctionDef, ast.ClassDef)):
            out.append(st)
            continue
        for fld in ("body", "orelse", "finalbody"):
            blk = getattr(st, fld, None)
            if isinstance(blk, list) and blk and isinstance(blk[0], ast.stmt):
                setattr(st, fld, _returns_to_breaks(blk, conv))
        for h in getattr(st, "handlers", []) or []:
            h.body = _returns_to_breaks(h.body, conv)
        out.append(st)
    return out


def _loop_level(stmts):
    """Statements of a loop body that belong to THIS loop (not to nested loops / defs)."""
    stack = list(stmts)
    while stack:
        n = stack.pop()
        yield n
        if isinstance(n, (ast.For, ast.AsyncFor, ast.While)):
            stack.extend(n.orelse)
            continue
        if isinstance(n, (ast.FunctionDef, ast.AsyncFunctionDef, ast.ClassDef, ast.Lambda)):
            continue
        stack.extend(x for x in ast.iter_child_nodes(n) if isinstance(x, (ast.stmt, ast.ExceptHandler, ast.match_case)))


def _replace_yields(stmts: list, loop: ast.For, has_continue: bool, enclosing_loop) -> list:
    """`yield X` -> `TARGET = X; BODY`,  `yield from X` -> `for TARGET in X: BODY`."""
    out = []
    for i, st in enumerate(stmts):
        if isinstance(st, ast.Expr) and isinstance(st.value, ast.Yield):
            if has_continue and not (enclosing_loop is not None and i == len(stmts) - 1 and stmts is enclosing_loop.body):
                raise NotInlinable("continue in the loop body and the yield is not the tail of a loop")
            val = st.value.value if st.value.value is not None else ast.Constant(value=None)
            out.append(ast.copy_location(ast.Assign(targets=[copy.deepcopy(loop.target)], value=val, lineno=st.lineno), st))
            out.extend(copy.deepcopy(loop.body))
        elif isinstance(st, ast.Expr) and isinstance(st.value, ast.YieldFrom):
            out.append(ast.copy_location(ast.For(target=copy.deepcopy(loop.target), iter=st.value.value, body=copy.deepcopy(loop.body), orelse=[], lineno=st.lineno), st))
        elif isinstance(st, (ast.FunctionDef, ast.AsyncFunctionDef, ast.ClassDef)):
            out.append(st)
        else:
            inner_loop = st if isinstance(st, (ast.For, ast.While)) else enclosing_loop
            for fld in ("body", "orelse", "finalbody"):
                block = getattr(st, fld, None)
                if isinstance(block, list) and block and isinstance(block[0], ast.stmt):
                    setattr(st, fld, _replace_yields(block, loop, has_continue, inner_loop if fld == "body" else enclosing_loop))
            for h in getattr(st, "handlers", []) or []:
                h.body = _replace_yields(h.body, loop, has_continue, enclosing_loop)
            out.append(st)
    return out


class _Renamer(ast.NodeTransformer):
    def __init__(self, rename: dict, subst: dict):
        self.rename = rename
        self.subst = subst

    def visit_Name(self, node: ast.Name):
        if node.id in self.subst and isinstance(node.ctx, ast.Load):
            return ast.copy_location(copy.deepcopy(self.subst[node.id]), node)
        if node.id in self.rename:
            return ast.copy_location(ast.Name(id=self.rename[node.id], ctx=node.ctx), node)
        return node

    def visit_arg(self, node: ast.arg):
        return node

    def visit_Lambda(self, node: ast.Lambda):
        shadow = {a.arg for a in node.args.posonlyargs + node.args.args + node.args.kwonlyargs}
        saved = (self.rename, self.subst)
        self.rename = {k: v for k, v in self.rename.items() if k not in shadow}
        self.subst = {k: v for k, v in self.subst.items() if k not in shadow}
        self.generic_visit(node)
        self.rename, self.subst = saved
        return node

    def visit_ExceptHandler(self, node: ast.ExceptHandler):
        self.generic_visit(node)
        if node.name and node.name in self.rename:
            node.name = self.rename[node.name]
        return node

    def _nested_def(self, node):
        # a function defined inside the helper: its own parameters and locals shadow the
        # helper's; everything else it mentions is the helper's (closure) and is rewritten
        a = node.args
        shadow = {x.arg for x in a.posonlyargs + a.args + a.kwonlyargs}
        if a.vararg:
            shadow.add(a.vararg.arg)
        if a.kwarg:
            shadow.add(a.kwarg.arg)
        shadow |= {x.id for x in ast.walk(node) if isinstance(x, ast.Name) and isinstance(x.ctx, ast.Store)}
        saved = (self.rename, self.subst)
        self.rename = {k: v for k, v in self.rename.items() if k not in shadow}
        self.subst = {k: v for k, v in self.subst.items() if k not in shadow}
        node.body = [self.visit(s_) for s_ in node.body]
        self.rename, self.subst = saved
        if node.name in self.rename:
            node.name = self.rename[node.name]
        return node

    visit_FunctionDef = _nested_def
    visit_AsyncFunctionDef = _nested_def


def _vararg_only_forwarded(fn, name: str) -> bool:
    """The *args parameter is only ever splatted into calls (`f(*args)`)."""
    splats = {id(x.value) for c in ast.walk(fn) if isinstance(c, ast.Call) for x in c.args if isinstance(x, ast.Starred) and isinstance(x.value, ast.Name) and x.value.id == name}
    return all(id(n) in splats for n in ast.walk(fn) if isinstance(n, ast.Name) and n.id == name)


def _simple(expr) -> bool:
    if isinstance(expr, (ast.Name, ast.Constant)):
        return True
    if isinstance(expr, ast.Attribute):
        return _simple(expr.value)
    return False


class Inliner:
    def __init__(self, project, analysis):
        self.p = project
        self.a = analysis
        self.counter = itertools.count(1)
        self.log: list = []

    # ------------------------------------------------------------------ candidates
    def candidates(self) -> dict:
        funcs = [f for f in self.p.all_functions() if f.parent is None and not f.is_lambda]
        used_as_value: set = set()
        for mod in self.p.modules.values():
            call_funcs = {id(n.func) for n in ast.walk(mod.tree) if isinstance(n, ast.Call)}
            for n in ast.walk(mod.tree):
                if isinstance(n, ast.Attribute) and id(n) not in call_funcs and isinstance(n.ctx, ast.Load):
                    used_as_value.add(n.attr)
                elif isinstance(n, ast.Name) and id(n) not in call_funcs and isinstance(n.ctx, ast.Load):
                    used_as_value.add(n.id)
            for n in ast.walk(mod.tree):
                if isinstance(n, ast.ImportFrom):
                    for al in n.names:
                        pass
        exported = set()
        init_mod = self.p.modules.get("__init__")
        if init_mod is not None:
            exported = set(init_mod.imports)
        # reference graph (calls AND value references) for cycle detection
        by_name: dict = {}
        for f in funcs:
            by_name.setdefault(f.name, []).append(f)
        refs: dict = {}
        for f in funcs:
            names = set()
            for n in ast.walk(f.node):
                if isinstance(n, ast.Name):
                    names.add(n.id)
                elif isinstance(n, ast.Attribute):
                    names.add(n.attr)
            refs[f.name] = {x for x in names if x in by_name and x != f.name} | ({f.name} if any(isinstance(n, ast.Call) and ((isinstance(n.func, ast.Name) and n.func.id == f.name) or (isinstance(n.func, ast.Attribute) and n.func.attr == f.name)) for n in ast.walk(f.node)) else set())

        def in_cycle(name: str) -> bool:
            seen, stack = set(), list(refs.get(name, ()))
            while stack:
                x = stack.pop()
                if x == name:
                    return True
                if x in seen:
                    continue
                seen.add(x)
                stack.extend(refs.get(x, ()))
            return False

        out = {}
        for f in funcs + self._nested_candidates(used_as_value):
            if f.name.startswith("__"):
                continue
            if f.parent is not None:
                pass  # a closure is private to the function that defines it
            elif not f.name.startswith("_"):
                # a module-level function that is not part of the package's public API, or a
                # method of a private helper class (`_TeardownEntry.invoke`)
                if f.cls is not None:
                    if not f.cls.name.startswith("_") or f.cls.name in exported:
                        continue
                elif f.name in exported or f.name in ("main", "run"):
                    continue
            # on a reference cycle (a spawned function that calls back into its spawner) only a
            # pure extraction - exactly one call site - is folded back; anything else would
            # unroll the recursion into its callers
            if in_cycle(f.name) and self._call_site_count(f) != 1:
                continue
            decos = set(f.decorators)
            if decos - {"staticmethod"}:
                continue
            if f.is_generator:
                continue
            # helpers that define functions of their own: fine unless those rebind the
            # helper's variables (nonlocal)
            if f.nested and any(isinstance(x, ast.Nonlocal) for g_ in f.nested.values() for x in ast.walk(g_.node)):
                continue
            if f.name in used_as_value:
                continue
            a = f.node.args
            if a.kwarg or a.posonlyargs:
                continue
            if a.vararg and not _vararg_only_forwarded(f.node, a.vararg.arg):
                continue
            if any(isinstance(n, (ast.Global, ast.Nonlocal, ast.Yield, ast.YieldFrom)) for n in walk_own(f.node)):
                continue
            # recursion
            if any(isinstance(n, ast.Call) and ((isinstance(n.func, ast.Name) and n.func.id == f.name) or (isinstance(n.func, ast.Attribute) and n.func.attr == f.name)) for n in walk_own(f.node)):
                continue
            # pure guards stay (they are anchors of the guard rules)
            has_value_return = any(isinstance(n, ast.Return) and n.value is not None for n in walk_own(f.node))
            has_raise = any(isinstance(n, ast.Raise) for n in walk_own(f.node))
            mutates = bool(self.a.func_mutations(f)) or any(isinstance(n, ast.Call) and isinstance(n.func, ast.Attribute) and n.func.attr in MUTATORS for n in walk_own(f.node))
            awaits = any(isinstance(n, (ast.Await, ast.AsyncWith, ast.AsyncFor)) for n in walk_own(f.node))
            calls_pkg = any(c.kind in ("func", "class") for _, c in self.a.func_calls(f))
            if has_raise and not has_value_return and not mutates and not awaits:
                # a shared guard (several call sites) is an anchor of the guard rules and stays;
                # a guard extracted for a single caller is just a moved block
                if self._call_site_count(f) != 1 and self._reads_instance_state(f):
                    continue
            # docstring-only / trivial bodies are not worth it
            out[id(f)] = f
        return out

    def _names_used_as_value(self) -> set:
        used: set = set()
        for mod in self.p.modules.values():
            call_funcs = {id(n.func) for n in ast.walk(mod.tree) if isinstance(n, ast.Call)}
            for n in ast.walk(mod.tree):
                if isinstance(n, ast.Attribute) and id(n) not in call_funcs and isinstance(n.ctx, ast.Load):
                    used.add(n.attr)
                elif isinstance(n, ast.Name) and id(n) not in call_funcs and isinstance(n.ctx, ast.Load):
                    used.add(n.id)
        return used

    def _nested_candidates(self, used_as_value: set, generators: bool = False) -> list:
        """Closures that are only ever called (never passed around, decorated, rebinding outer
        variables or recursive) by the function that defines them or by its other closures."""
        out = []
        for f in self.p.all_functions():
            if f.parent is None or f.is_lambda or f.parent.parent is not None:
                continue
            if f.decorators or f.is_generator != generators or f.name in used_as_value or f.nested:
                continue
            if any(isinstance(n, (ast.Global, ast.Nonlocal)) for n in walk_own(f.node)):
                continue
            # the definition must be a plain statement of the parent's body (bound once)
            if f.node not in f.parent.node.body:
                continue
            if sum(1 for n in ast.walk(f.parent.node) if isinstance(n, (ast.FunctionDef, ast.AsyncFunctionDef)) and n.name == f.name) != 1:
                continue
            if any(isinstance(n, ast.Name) and n.id == f.name and isinstance(n.ctx, (ast.Store, ast.Del)) for n in ast.walk(f.parent.node)):
                continue
            out.append(f)
        return out

    @staticmethod
    def _free_names(g: FuncInfo) -> set:
        bound = set(g.params)
        for n in walk_own(g.node):
            if isinstance(n, ast.Name) and isinstance(n.ctx, (ast.Store, ast.Del)):
                bound.add(n.id)
            elif isinstance(n, ast.ExceptHandler) and n.name:
                bound.add(n.name)
        # annotations are never evaluated inside a function and parameter annotations do not
        # travel with an inlined body; defaults do (they are substituted at the call site)
        skip: set = set()
        for n in ast.walk(g.node):
            if isinstance(n, ast.AnnAssign):
                skip |= {id(x) for x in ast.walk(n.annotation)}
        roots = list(g.node.body) + [d for d in g.node.args.defaults + g.node.args.kw_defaults if d is not None]
        return {n.id for r in roots for n in ast.walk(r) if isinstance(n, ast.Name) and isinstance(n.ctx, ast.Load) and id(n) not in skip} - bound

    @staticmethod
    def _reads_instance_state(f: FuncInfo) -> bool:
        """A guard that looks at the object's state (`self._state`) as opposed to one that only
        validates its arguments."""
        if f.cls is None or "staticmethod" in f.decorators or not f.node.args.args:
            return False
        me = f.node.args.args[0].arg
        return any(isinstance(n, ast.Attribute) and isinstance(n.value, ast.Name) and n.value.id == me for n in walk_own(f.node))

    def generator_candidates(self) -> dict:
        """Private synchronous generator helpers whose yields are plain statements: a
        `for T in helper(...): BODY` over one of them is the helper's body with BODY in place of
        each yield."""
        out = {}
        exported = set()
        init_mod = self.p.modules.get("__init__")
        if init_mod is not None:
            exported = set(init_mod.imports)
        closure_ok = {id(f) for f in self._nested_candidates(self._names_used_as_value(), generators=True)}
        for f in self.p.all_functions():
            if (f.parent is not None and id(f) not in closure_ok) or f.is_lambda or not f.is_generator or f.is_async or f.nested:
                continue
            if f.name.startswith("__") or f.decorators:
                continue
            if f.parent is None and not f.name.startswith("_") and (f.cls is not None or f.name in exported):
                continue
            a = f.node.args
            if a.vararg or a.kwarg or a.posonlyargs:
                continue
            if any(isinstance(n, ast.Call) and ((isinstance(n.func, ast.Name) and n.func.id == f.name) or (isinstance(n.func, ast.Attribute) and n.func.attr == f.name)) for n in walk_own(f.node)):
                continue
            ok = True
            stmt_yields = {id(st.value) for st in walk_own(f.node) if isinstance(st, ast.Expr) and isinstance(st.value, (ast.Yield, ast.YieldFrom))}
            for n in walk_own(f.node):
                if isinstance(n, (ast.Yield, ast.YieldFrom)) and id(n) not in stmt_yields:
                    ok = False
                elif isinstance(n, (ast.Return, ast.Global, ast.Nonlocal)):
                    ok = False
                elif isinstance(n, (ast.Try, ast.With, ast.AsyncWith)) and any(isinstance(x, (ast.Yield, ast.YieldFrom)) for x in ast.walk(n)):
                    ok = False
            if ok and 1 <= len(stmt_yields) <= 2:
                out[id(f)] = f
        return out

    def _call_site_count(self, g: FuncInfo) -> int:
        n = 0
        for mod in self.p.modules.values():
            for node in ast.walk(mod.tree):
                if isinstance(node, ast.Call):
                    if (isinstance(node.func, ast.Name) and node.func.id == g.name) or (isinstance(node.func, ast.Attribute) and node.func.attr == g.name):
                        n += 1
        return n

    # ------------------------------------------------------------------ pure single-expression helpers (expression position)
    _PURE_NODES = (ast.BoolOp, ast.Compare, ast.UnaryOp, ast.Name, ast.Attribute, ast.Constant, ast.Subscript, ast.Tuple, ast.And, ast.Or, ast.Not,
                   ast.Eq, ast.NotEq, ast.Is, ast.IsNot, ast.In, ast.NotIn, ast.Lt, ast.LtE, ast.Gt, ast.GtE, ast.Load, ast.IfExp, ast.BinOp, ast.Add, ast.Sub)
    _PURE_CALLS = {"isinstance", "issubclass", "callable", "len", "isclass", "iscoroutine", "isawaitable", "iscoroutinefunction", "get_origin", "type", "hasattr", "getattr"}

    def _pure_expr(self, e) -> bool:
        for n in ast.walk(e):
            if isinstance(n, ast.Call):
                if not (isinstance(n.func, ast.Name) and n.func.id in self._PURE_CALLS):
                    return False
            elif isinstance(n, (ast.keyword,)):
                continue
            elif not isinstance(n, self._PURE_NODES):
                return False
        return True

    @staticmethod
    def _bound_names(caller: FuncInfo) -> set:
        """Names that are local in `caller` (or in a function enclosing it)."""
        bound: set = set()
        f = caller
        while f is not None:
            bound |= set(f.params)
            for x in walk_own(f.node):
                if isinstance(x, ast.Name) and isinstance(x.ctx, (ast.Store, ast.Del)):
                    bound.add(x.id)
                elif isinstance(x, ast.ExceptHandler) and x.name:
                    bound.add(x.name)
                elif isinstance(x, (ast.FunctionDef, ast.AsyncFunctionDef, ast.ClassDef)):
                    bound.add(x.name)
                elif isinstance(x, (ast.Import, ast.ImportFrom)):
                    bound |= {(al.asname or al.name).split(".")[0] for al in x.names}
            f = f.parent
        return bound

    def _globals_agree(self, g: FuncInfo, caller: FuncInfo, expr, skip: set) -> bool:
        """The free names of `expr` (from g's body) mean the same at the call site in caller."""
        free = {n.id for n in ast.walk(expr) if isinstance(n, ast.Name) and isinstance(n.ctx, ast.Load)} - skip
        if free & self._bound_names(caller):
            return False
        gm, cm = g.module, caller.module
        if gm is cm:
            return True
        for name in free:
            if name in gm.imports:
                if cm.imports.get(name) != gm.imports[name]:
                    hv = cm.imports.get(name)
                    if not (hv and hv[0] == "pkg" and gm.imports[name][0] == "pkg" and hv[2] == gm.imports[name][2]):
                        return False
            elif name in gm.functions or name in gm.classes or name in gm.assigns:
                hv = cm.imports.get(name)
                if not (hv and hv[0] == "pkg" and hv[2] == name):
                    return False
        return True

    def inline_predicates(self) -> bool:
        """Replace calls of private helpers whose whole body is `return <pure expression>`."""
        preds = {}
        for f in self.p.all_functions():
            if f.parent is not None or f.is_lambda or f.is_async or not f.name.startswith("_") or f.name.startswith("__"):
                continue
            if set(f.decorators) - {"staticmethod"}:
                continue
            body = [s for s in f.node.body if not (isinstance(s, ast.Expr) and isinstance(s.value, ast.Constant))]
            if len(body) == 1 and isinstance(body[0], ast.Return) and body[0].value is not None and self._pure_expr(body[0].value):
                a = f.node.args
                if a.vararg or a.kwarg or a.posonlyargs or a.kwonlyargs:
                    continue
                preds[id(f)] = f
        # private read-only properties whose getter is `return <pure expression>` are the same
        # thing without the call syntax
        props = {}
        assigned_attrs = {t.attr for mod in self.p.modules.values() for n in ast.walk(mod.tree) if isinstance(n, (ast.Assign, ast.AnnAssign, ast.AugAssign)) for t in (n.targets if isinstance(n, ast.Assign) else [n.target]) if isinstance(t, ast.Attribute)}
        for f in self.p.all_functions():
            if f.parent is not None or f.cls is None or f.is_async or not f.name.startswith("_") or f.name.startswith("__"):
                continue
            if f.decorators != ["property"] or f.name in assigned_attrs:
                continue
            body = [s for s in f.node.body if not (isinstance(s, ast.Expr) and isinstance(s.value, ast.Constant))]
            if len(body) == 1 and isinstance(body[0], ast.Return) and body[0].value is not None and self._pure_expr(body[0].value) and len(f.node.args.args) == 1:
                if sum(1 for ci in self.p.classes.values() if f.name in ci.methods) == 1:
                    props[f.name] = f
        if not preds and not props:
            return False
        changed = False
        outer = self

        class T(ast.NodeTransformer):
            def __init__(self, func):
                self.func = func

            def visit_FunctionDef(self, node):
                return node if node is not self.func.node else self.generic_visit(node)

            visit_AsyncFunctionDef = visit_FunctionDef

            def visit_Lambda(self, node):
                return node

            def visit_Attribute(self, node):
                nonlocal changed
                self.generic_visit(node)
                g = props.get(node.attr)
                if g is None or not isinstance(node.ctx, ast.Load) or g is self.func or not _simple(node.value):
                    return node
                body = [s for s in g.node.body if not (isinstance(s, ast.Expr) and isinstance(s.value, ast.Constant))]
                if not outer._globals_agree(g, self.func, body[0].value, {g.node.args.args[0].arg}):
                    return node
                expr = _Renamer({}, {g.node.args.args[0].arg: node.value}).visit(copy.deepcopy(body[0].value))
                changed = True
                outer.log.append(f"property {g.qualname} -> {self.func.qualname}:{node.lineno}")
                return ast.copy_location(expr, node)

            def visit_Call(self, node):
                nonlocal changed
                self.generic_visit(node)
                c = outer.a.callee(self.func, node)
                if c.kind != "func" or id(c.func) not in preds or c.func is self.func:
                    return node
                g = c.func
                params = [x.arg for x in g.node.args.args]
                is_method = g.cls is not None and "staticmethod" not in g.decorators
                mapping = {}
                if is_method:
                    if not isinstance(node.func, ast.Attribute) or not _simple(node.func.value):
                        return node
                    mapping[params[0]] = node.func.value
                    params = params[1:]
                if len(node.args) + len(node.keywords) != len(params) or any(isinstance(x, ast.Starred) for x in node.args):
                    return node
                for i, arg in enumerate(node.args):
                    mapping[params[i]] = arg
                for kw in node.keywords:
                    if kw.arg not in params:
                        return node
                    mapping[kw.arg] = kw.value
                if not all(_simple(v) for v in mapping.values()):
                    return node
                body = [s for s in g.node.body if not (isinstance(s, ast.Expr) and isinstance(s.value, ast.Constant))]
                if not outer._globals_agree(g, self.func, body[0].value, set(mapping)):
                    return node
                expr = _Renamer({}, mapping).visit(copy.deepcopy(body[0].value))
                changed = True
                outer.log.append(f"predicate {g.qualname} -> {self.func.qualname}:{node.lineno}")
                return ast.copy_location(expr, node)

        for f in list(self.p.all_functions()):
            if f.is_lambda or f.parent is not None:
                continue
            T(f).visit(f.node)
            # nested functions
        for f in list(self.p.all_functions()):
            if f.parent is not None and not f.is_lambda:
                T(f).visit(f.node)
        if changed:
            for mod in self.p.modules.values():
                ast.fix_missing_locations(mod.tree)
            self._remove_dead_helpers(preds)
        return changed

    # ------------------------------------------------------------------ accumulator workers
    def fold_accumulator_workers(self) -> bool:
        """F(p0, p1):  R = <fresh copy of p0>; [if p1:] W(R, p1); return R      (W returns nothing)
        W(c, o):       ... N = <fresh copy of X>; [if Y:] W(N, Y); c[k] = N ...
        The three statements inside W are F's own body with p0 := X, p1 := Y, R := N, i.e. a call
        `N = F(X, Y)`.  Folding them makes the recursion go through F again, W loses its
        recursive call and can be inlined into F like any helper.  Nothing is assumed about W:
        the fold is a literal (alpha-renamed) match of F's statements."""
        changed = False
        for mod in self.p.modules.values():
            funcs = {st.name: st for st in mod.tree.body if isinstance(st, ast.FunctionDef)}
            for F in funcs.values():
                body = [s_ for s_ in F.body if not (isinstance(s_, ast.Expr) and isinstance(s_.value, ast.Constant) and isinstance(s_.value.value, str))]
                if len(body) < 3 or len(F.args.args) != 2 or F.args.vararg or F.args.kwarg or F.args.kwonlyargs:
                    continue
                ret = body[-1]
                if not (isinstance(ret, ast.Return) and isinstance(ret.value, ast.Name)):
                    continue
                R = ret.value.id
                p0, p1 = F.args.args[0].arg, F.args.args[1].arg
                callst = body[-2]
                inner = callst.body[0] if isinstance(callst, ast.If) and len(callst.body) == 1 and not callst.orelse and isinstance(callst.test, ast.Name) and callst.test.id == p1 else callst
                if not (isinstance(inner, ast.Expr) and isinstance(inner.value, ast.Call) and isinstance(inner.value.func, ast.Name) and inner.value.func.id in funcs and inner.value.func.id != F.name):
                    continue
                call = inner.value
                if not (len(call.args) == 2 and not call.keywords and isinstance(call.args[0], ast.Name) and call.args[0].id == R and isinstance(call.args[1], ast.Name) and call.args[1].id == p1):
                    continue
                W = funcs[call.func.id]
                if any(isinstance(x, ast.Return) and x.value is not None for x in ast.walk(W)):
                    continue
                head = body[:-2]
                if not head or len(head) > 2:
                    continue
                # the head only computes R from p0
                names = {x.id for h in head for x in ast.walk(h) if isinstance(x, ast.Name)}
                if not names <= {R, p0, "dict", "copy", "deepcopy"}:
                    continue
                pattern = head + [callst]

                def dump(stmts, ren):
                    out = []
                    for st_ in stmts:
                        c_ = _Renamer(ren, {}).visit(copy.deepcopy(st_))
                        out.append(ast.dump(c_, annotate_fields=True, include_attributes=False))
                    return out

                for owner in ast.walk(W):
                    for fld in ("body", "orelse", "finalbody"):
                        blk = getattr(owner, fld, None)
                        if not isinstance(blk, list) or len(blk) < len(pattern):
                            continue
                        for i in range(len(blk) - len(pattern) + 1):
                            window = blk[i : i + len(pattern)]
                            # candidate bindings: the recursive call inside the window
                            wc = window[-1]
                            winner = wc.body[0] if isinstance(wc, ast.If) and len(wc.body) == 1 and not wc.orelse else wc
                            if not (isinstance(winner, ast.Expr) and isinstance(winner.value, ast.Call) and isinstance(winner.value.func, ast.Name) and winner.value.func.id == W.name and len(winner.value.args) == 2 and all(isinstance(a_, ast.Name) for a_ in winner.value.args)):
                                continue
                            N, Y = winner.value.args[0].id, winner.value.args[1].id
                            xs = {x.id for h in window[:-1] for x in ast.walk(h) if isinstance(x, ast.Name)} - {N, "dict", "copy", "deepcopy"}
                            if len(xs) != 1:
                                continue
                            X = xs.pop()
                            ren = {R: N, p0: X, p1: Y}
                            if dump(pattern, ren) != dump(window, {}):
                                continue
                            new = ast.copy_location(ast.Assign(targets=[ast.Name(id=N, ctx=ast.Store())], value=ast.Call(func=ast.Name(id=F.name, ctx=ast.Load()), args=[ast.Name(id=X, ctx=ast.Load()), ast.Name(id=Y, ctx=ast.Load())], keywords=[]), lineno=window[0].lineno), window[0])
                            ast.fix_missing_locations(new)
                            blk[i : i + len(pattern)] = [new]
                            changed = True
                            self.log.append(f"folded {F.name}'s body inside {W.name}: {N} = {F.name}({X}, {Y})")
                            break
        return changed

    # ------------------------------------------------------------------ wrapper decorators
    def inline_wrapper_decorators(self) -> bool:
        """A private decorator (factory) whose wrapper only runs some statements and then calls
        the decorated function with the arguments it got

            def _requires(*states):                    @_requires(A, B)
                def decorator(method):                 def op(self, x): BODY
                    @wraps(method)
                    def wrapper(self, *args, **kw):     ->   def op(self, x):
                        self._check(*states)                     self._check(A, B)
                        return method(self, *args, **kw)         BODY
                    return wrapper
                return decorator

        is the decorated function with those statements in front.  Only when wrapper and
        function are both synchronous or both coroutine functions: a synchronous wrapper around a
        coroutine function runs its statements when the coroutine object is created, which is
        not the same thing - such a function keeps its decorator and the rules see a body without
        the statements."""
        changed = False
        decos: dict = {}
        for mod in self.p.modules.values():
            for st in mod.tree.body:
                if not isinstance(st, ast.FunctionDef) or st.decorator_list:
                    continue
                shape = self._wrapper_shape(st)
                if shape is not None:
                    decos[st.name] = (mod, st) + shape
        if not decos:
            return False
        # every reference to the decorator must be a decoration
        for name in list(decos):
            for mod in self.p.modules.values():
                deco_nodes = {id(x) for n in ast.walk(mod.tree) if isinstance(n, (ast.FunctionDef, ast.AsyncFunctionDef, ast.ClassDef)) for d in n.decorator_list for x in ast.walk(d)}
                for n in ast.walk(mod.tree):
                    if isinstance(n, ast.Name) and n.id == name and isinstance(n.ctx, ast.Load) and id(n) not in deco_nodes:
                        decos.pop(name, None)
                    elif isinstance(n, ast.Attribute) and n.attr == name:
                        decos.pop(name, None)
        for mod in self.p.modules.values():
            for fn in ast.walk(mod.tree):
                if not isinstance(fn, (ast.FunctionDef, ast.AsyncFunctionDef)) or not fn.decorator_list:
                    continue
                d = fn.decorator_list[-1]  # the innermost decorator is applied first
                dname = d.func.id if isinstance(d, ast.Call) and isinstance(d.func, ast.Name) else d.id if isinstance(d, ast.Name) else None
                if dname not in decos:
                    continue
                dmod, dnode, factory_args, wrapper, pre = decos[dname]
                if dmod is not mod:
                    continue
                if isinstance(wrapper, ast.AsyncFunctionDef) != isinstance(fn, ast.AsyncFunctionDef):
                    self.log.append(f"decorator {dname} kept on {fn.name}: synchronous wrapper around a coroutine function")
                    continue
                if not fn.args.args or not wrapper.args.args:
                    continue
                if factory_args is not None and not isinstance(d, ast.Call):
                    continue
                if factory_args is None and isinstance(d, ast.Call):
                    continue
                subst = {wrapper.args.args[0].arg: ast.Name(id=fn.args.args[0].arg, ctx=ast.Load())}
                extra_pos: list = []
                vararg = None
                if factory_args is not None:
                    fa = factory_args
                    if fa.kwarg or fa.posonlyargs or d.keywords and any(k.arg is None for k in d.keywords):
                        continue
                    params = [x.arg for x in fa.args]
                    # `@deco(*_STATES)` with a module-level tuple constant
                    dargs = []
                    for x in d.args:
                        if isinstance(x, ast.Starred) and isinstance(x.value, ast.Name) and isinstance(mod.assigns.get(x.value.id), ast.Tuple) and sum(1 for n_ in ast.walk(mod.tree) if isinstance(n_, ast.Name) and n_.id == x.value.id and isinstance(n_.ctx, ast.Store)) == 1:
                            dargs.extend(copy.deepcopy(mod.assigns[x.value.id].elts))
                        else:
                            dargs.append(x)
                    if any(isinstance(x, ast.Starred) for x in dargs):
                        continue
                    d = ast.copy_location(ast.Call(func=d.func, args=dargs, keywords=d.keywords), d)
                    ok = True
                    for i, arg in enumerate(d.args):
                        if i < len(params):
                            subst[params[i]] = arg
                        elif fa.vararg is not None:
                            extra_pos.append(arg)
                        else:
                            ok = False
                    for k in d.keywords:
                        if k.arg in params or k.arg in [x.arg for x in fa.kwonlyargs]:
                            subst[k.arg] = k.value
                        else:
                            ok = False
                    if not ok or any(p_ not in subst for p_ in params):
                        continue
                    vararg = fa.vararg.arg if fa.vararg is not None else None
                    if not all(_simple(x) for x in list(subst.values()) + extra_pos):
                        continue
                body = [_Renamer({}, subst).visit(copy.deepcopy(x)) for x in pre]
                if vararg is not None:
                    bad = False
                    for st_ in body:
                        for c_ in ast.walk(st_):
                            if isinstance(c_, ast.Call):
                                new_args = []
                                for x in c_.args:
                                    if isinstance(x, ast.Starred) and isinstance(x.value, ast.Name) and x.value.id == vararg:
                                        new_args.extend(copy.deepcopy(extra_pos))
                                    else:
                                        new_args.append(x)
                                c_.args = new_args
                        if any(isinstance(x, ast.Name) and x.id == vararg for x in ast.walk(st_)):
                            bad = True
                    if bad:
                        continue
                bound = {a.arg for a in fn.args.posonlyargs + fn.args.args + fn.args.kwonlyargs} | {x.id for x in ast.walk(fn) if isinstance(x, ast.Name) and isinstance(x.ctx, (ast.Store, ast.Del))}
                free = {x.id for st_ in body for x in ast.walk(st_) if isinstance(x, ast.Name) and isinstance(x.ctx, ast.Load)} - {fn.args.args[0].arg}
                if free & bound:
                    continue
                pos = 1 if fn.body and isinstance(fn.body[0], ast.Expr) and isinstance(fn.body[0].value, ast.Constant) and isinstance(fn.body[0].value.value, str) else 0
                for st_ in body:
                    ast.copy_location(st_, fn.body[pos] if len(fn.body) > pos else fn)
                    for sub in ast.walk(st_):
                        if hasattr(sub, "lineno"):
                            sub.lineno = fn.lineno
                            sub.end_lineno = fn.lineno
                fn.body[pos:pos] = body
                fn.decorator_list = fn.decorator_list[:-1]
                changed = True
                self.log.append(f"decorator {dname} folded into {fn.name}")
        if changed:
            for mod in self.p.modules.values():
                ast.fix_missing_locations(mod.tree)
        return changed

    @staticmethod
    def _wrapper_shape(fn: ast.FunctionDef):
        """(factory arguments or None, wrapper def, statements before the delegating return) if
        `fn` is a wrapper decorator / decorator factory of the supported shape, else None."""
        def strip(body):
            return [s_ for s_ in body if not (isinstance(s_, ast.Expr) and isinstance(s_.value, ast.Constant) and isinstance(s_.value.value, str))]

        def plain_decorator(d: ast.FunctionDef):
            a = d.args
            if len(a.args) != 1 or a.vararg or a.kwarg or a.kwonlyargs or a.posonlyargs:
                return None
            body = strip(d.body)
            if len(body) != 2 or not isinstance(body[0], (ast.FunctionDef, ast.AsyncFunctionDef)) or not isinstance(body[1], ast.Return):
                return None
            w = body[0]
            rv = body[1].value
            if isinstance(rv, ast.Call) and isinstance(rv.func, ast.Name) and rv.func.id == "cast" and len(rv.args) == 2:
                rv = rv.args[1]
            if not (isinstance(rv, ast.Name) and rv.id == w.name):
                return None
            for dd in w.decorator_list:
                if not (isinstance(dd, ast.Call) and isinstance(dd.func, ast.Name) and dd.func.id == "wraps"):
                    return None
            wa = w.args
            if not wa.args or len(wa.args) != 1 or wa.vararg is None or wa.kwarg is None or wa.kwonlyargs or wa.posonlyargs or wa.defaults:
                return None
            wb = strip(w.body)
            if not wb or not isinstance(wb[-1], ast.Return) or wb[-1].value is None:
                return None
            call = wb[-1].value
            if isinstance(w, ast.AsyncFunctionDef):
                if not isinstance(call, ast.Await):
                    return None
                call = call.value
            meth = a.args[0].arg
            if not (isinstance(call, ast.Call) and isinstance(call.func, ast.Name) and call.func.id == meth and len(call.args) == 2 and isinstance(call.args[0], ast.Name) and call.args[0].id == wa.args[0].arg and isinstance(call.args[1], ast.Starred) and isinstance(call.args[1].value, ast.Name) and call.args[1].value.id == wa.vararg.arg and len(call.keywords) == 1 and call.keywords[0].arg is None and isinstance(call.keywords[0].value, ast.Name) and call.keywords[0].value.id == wa.kwarg.arg):
                return None
            pre = wb[:-1]
            used = {x.id for st_ in pre for x in ast.walk(st_) if isinstance(x, ast.Name)}
            if used & {meth, wa.vararg.arg, wa.kwarg.arg} or any(isinstance(x, (ast.Return, ast.Yield, ast.YieldFrom, ast.Await, ast.FunctionDef, ast.AsyncFunctionDef, ast.Lambda, ast.Nonlocal, ast.Global)) for st_ in pre for x in ast.walk(st_)):
                return None
            if any(isinstance(x, ast.Name) and isinstance(x.ctx, (ast.Store, ast.Del)) for st_ in pre for x in ast.walk(st_)):
                return None
            return w, pre

        body = strip(fn.body)
        # plain decorator
        r = plain_decorator(fn)
        if r is not None:
            return (None,) + r
        # factory: def D(params): def decorator(method): ...; return decorator
        if len(body) == 2 and isinstance(body[0], ast.FunctionDef) and isinstance(body[1], ast.Return) and isinstance(body[1].value, ast.Name) and body[1].value.id == body[0].name and not body[0].decorator_list:
            r = plain_decorator(body[0])
            if r is not None and not fn.args.defaults and not fn.args.kw_defaults:
                return (fn.args,) + r
        return None

    # ------------------------------------------------------------------ one call site
    def _expand(self, caller: FuncInfo, stmt, call: ast.Call, awaited: bool, g: FuncInfo, mode: str, target):
        """Statements replacing `stmt`.  mode: 'expr' | 'assign' | 'return'"""
        await_results = False
        if g.is_async != awaited:
            # `await helper(...)` with a synchronous helper that hands back an awaitable: the
            # helper's body runs at the call, every value it returns is awaited in its place
            if not awaited or g.is_async or not _always_returns(g.node.body) or any(isinstance(n, ast.Return) and n.value is None for n in walk_own(g.node)):
                raise NotInlinable("await mismatch")
            await_results = True
        if g.parent is not None:
            # a closure's free variables must mean the same at the call site: the caller is the
            # defining function or another closure of it, and binds none of them itself
            if not (caller is g.parent or caller.parent is g.parent):
                raise NotInlinable("closure called from another scope")
            if caller is not g.parent:
                bound = set(caller.params)
                for x in walk_own(caller.node):
                    if isinstance(x, ast.Name) and isinstance(x.ctx, (ast.Store, ast.Del)):
                        bound.add(x.id)
                    elif isinstance(x, ast.ExceptHandler) and x.name:
                        bound.add(x.name)
                    elif isinstance(x, (ast.FunctionDef, ast.AsyncFunctionDef, ast.ClassDef)):
                        bound.add(x.name)
                if self._free_names(g) & bound:
                    raise NotInlinable("closure variable shadowed at the call site")
        if g.parent is None:
            # a global the helper reads must not be shadowed by a local of the caller
            free = self._free_names(g)
            bound = set(caller.params)
            for x in walk_own(caller.node):
                if isinstance(x, ast.Name) and isinstance(x.ctx, (ast.Store, ast.Del)):
                    bound.add(x.id)
                elif isinstance(x, ast.ExceptHandler) and x.name:
                    bound.add(x.name)
                elif isinstance(x, (ast.FunctionDef, ast.AsyncFunctionDef, ast.ClassDef)):
                    bound.add(x.name)
                elif isinstance(x, (ast.Import, ast.ImportFrom)):
                    bound |= {(al.asname or al.name).split(".")[0] for al in x.names}
            up = caller.parent
            while up is not None:  # enclosing function scopes of a nested caller shadow globals too
                bound |= set(up.params)
                bound |= {x.id for x in walk_own(up.node) if isinstance(x, ast.Name) and isinstance(x.ctx, (ast.Store, ast.Del))}
                up = up.parent
            captured_globals = {}
            for name in sorted(free & bound):
                # an imported module / object can be reached under another name; anything
                # else would need a new global and is left alone
                captured_globals[name] = self._alias_import(caller, g, name)
        else:
            captured_globals = {}
        n = next(self.counter)
        prefix = f"_inl{n}_"
        a = g.node.args
        params = [x.arg for x in a.args] + [x.arg for x in a.kwonlyargs]
        is_method = g.cls is not None and "staticmethod" not in g.decorators
        recv = call.func.value if isinstance(call.func, ast.Attribute) else None
        actual: dict = {}
        pos = list(params[: len(a.args)])
        if is_method:
            if recv is None or not pos:
                raise NotInlinable("method called without receiver")
            actual[pos[0]] = recv
            pos = pos[1:]
        extra_pos = []
        for i, arg in enumerate(call.args):
            if isinstance(arg, ast.Starred):
                raise NotInlinable("argument mismatch")
            if i >= len(pos):
                if a.vararg is None:
                    raise NotInlinable("argument mismatch")
                extra_pos.append(arg)
                continue
            actual[pos[i]] = arg
        for kw in call.keywords:
            if kw.arg is None or kw.arg not in params:
                raise NotInlinable("keyword mismatch")
            actual[kw.arg] = kw.value
        for p_ in params:
            if p_ not in actual:
                d = g.param_default(p_)
                if d is None:
                    raise NotInlinable(f"missing argument {p_}")
                actual[p_] = d
        assigned = set()
        for node in walk_own(g.node):
            if isinstance(node, ast.Name) and isinstance(node.ctx, (ast.Store, ast.Del)):
                assigned.add(node.id)
            elif isinstance(node, ast.ExceptHandler) and node.name:
                assigned.add(node.name)
        for node in g.node.body and ast.walk(g.node):
            if isinstance(node, (ast.FunctionDef, ast.AsyncFunctionDef)) and node is not g.node:
                assigned.add(node.name)
        subst, rename, binds = {}, dict(captured_globals), []
        for p_ in params:
            expr = actual[p_]
            if p_ not in assigned and _simple(expr):
                subst[p_] = expr
            elif (
                mode == "assign"
                and isinstance(target, ast.Name)
                and isinstance(expr, ast.Name)
                and expr.id == target.id
                and p_ in assigned
                and all(isinstance(r_.value, ast.Name) and r_.value.id == p_ for r_ in walk_own(g.node) if isinstance(r_, ast.Return))
                and _always_returns(g.node.body)
            ):
                # `x = helper(x)` where the helper works on its parameter and returns it: the
                # body works on x itself
                rename[p_] = target.id
            elif p_ in assigned and isinstance(expr, ast.Name) and self._dead_after(caller, stmt, expr.id):
                # the helper rebinds its parameter and the caller never looks at the argument
                # variable again: the body can work on that variable
                rename[p_] = expr.id
            else:
                rename[p_] = prefix + p_
                binds.append(ast.copy_location(ast.Assign(targets=[ast.Name(id=prefix + p_, ctx=ast.Store())], value=copy.deepcopy(expr), lineno=stmt.lineno), stmt))
        for v in assigned:
            if v not in rename and v not in params:
                rename[v] = prefix + v
        body = copy.deepcopy(g.node.body)
        if body and isinstance(body[0], ast.Expr) and isinstance(body[0].value, ast.Constant) and isinstance(body[0].value.value, str):
            body = body[1:]
        ren = _Renamer(rename, subst)
        body = [ren.visit(s) for s in body]
        if await_results:
            for st_ in body:
                for r_ in _walk_no_defs(st_):
                    if isinstance(r_, ast.Return):
                        r_.value = ast.copy_location(ast.Await(value=r_.value), r_.value)
        if a.vararg is not None:
            # `callee(*args)` inside the helper becomes `callee(<the extra positional arguments>)`
            if not all(_simple(x) for x in extra_pos):
                raise NotInlinable("non-trivial extra positional argument")
            for st_ in body:
                for c_ in ast.walk(st_):
                    if isinstance(c_, ast.Call):
                        new_args = []
                        for x in c_.args:
                            if isinstance(x, ast.Starred) and isinstance(x.value, ast.Name) and x.value.id == a.vararg.arg:
                                new_args.extend(copy.deepcopy(extra_pos))
                            else:
                                new_args.append(x)
                        c_.args = new_args

        if mode == "for":
            loop = stmt
            if any(isinstance(x, ast.Break) for x in _loop_level(loop.body)):
                raise NotInlinable("break in the loop body")
            has_continue = any(isinstance(x, ast.Continue) for x in _loop_level(loop.body))
            new = binds + _replace_yields(body, loop, has_continue, None)
        elif mode == "return":
            new = binds + body
            if not _always_returns(body):
                new.append(ast.copy_location(ast.Return(value=None), stmt))
        else:
            def conv(ret: ast.Return) -> list:
                if mode == "assign" and isinstance(target, ast.Tuple):
                    # `a, b = helper(...)`: every return must give the elements one by one
                    elts = self._tuple_elements(ret.value, len(target.elts))
                    if elts is None:
                        raise NotInlinable("tuple target, return value is not an explicit tuple / record")
                    tnames = {t.id for t in target.elts}
                    if any(isinstance(x, ast.Name) and x.id in tnames for e in elts for x in ast.walk(e)):
                        return [ast.copy_location(ast.Assign(targets=[copy.deepcopy(target)], value=ast.Tuple(elts=elts, ctx=ast.Load()), lineno=ret.lineno), ret)]
                    return [ast.copy_location(ast.Assign(targets=[ast.Name(id=t.id, ctx=ast.Store())], value=e, lineno=ret.lineno), ret) for t, e in zip(target.elts, elts)]
                if mode == "assign":
                    val = ret.value if ret.value is not None else ast.Constant(value=None)
                    if isinstance(target, ast.Name) and isinstance(val, ast.Name) and val.id == target.id:
                        return []  # `x = x`
                    return [ast.copy_location(ast.Assign(targets=[copy.deepcopy(target)], value=val, lineno=ret.lineno), ret)]
                if ret.value is None or isinstance(ret.value, (ast.Constant, ast.Name)):
                    return []
                return [ast.copy_location(ast.Expr(value=ret.value), ret)]

            try:
                lowered = _lower(body, conv)
            except NotInlinable:
                # returns inside try / with blocks (but not inside the helper's own loops): run
                # the body in a loop that executes exactly once and leave it with `break`
                if _return_in_loop(body):
                    raise
                lowered = [ast.copy_location(ast.While(test=ast.Constant(value=True), body=_returns_to_breaks(copy.deepcopy(body), conv) + [ast.copy_location(ast.Break(), stmt)], orelse=[]), stmt)]
            if mode == "assign" and isinstance(target, ast.Tuple) and not _always_returns(g.node.body):
                raise NotInlinable("tuple target, helper may fall off its end")
            if mode == "assign" and not _always_returns(g.node.body):
                # falls off the end: result is None on that path -> pre-assign
                binds.append(ast.copy_location(ast.Assign(targets=[copy.deepcopy(target)], value=ast.Constant(value=None), lineno=stmt.lineno), stmt))
            new = binds + lowered
        if not new:
            new = [ast.copy_location(ast.Pass(), stmt)]
        if g.module is not caller.module:
            self._carry_imports(caller, g, new)
        for s in new:
            ast.fix_missing_locations(s)
            for sub in ast.walk(s):
                if not hasattr(sub, "_inlined_from"):
                    sub._inlined_from = g.qualname  # type: ignore[attr-defined]
                    sub._inlined_relpath = g.module.relpath  # type: ignore[attr-defined]
        self.log.append(f"{g.qualname} -> {caller.qualname}:{stmt.lineno}")
        return new

    def _tuple_elements(self, value, arity: int):
        """The element expressions of a returned tuple literal or private NamedTuple
        constructor call, or None."""
        if isinstance(value, ast.Tuple) and len(value.elts) == arity and not any(isinstance(e, ast.Starred) for e in value.elts):
            return list(value.elts)
        if isinstance(value, ast.Call) and isinstance(value.func, ast.Name):
            rec = self.record_classes().get(value.func.id)
            if rec is None or not rec[2]:
                return None
            _ci, fields, _nt = rec
            if len(fields) != arity or any(isinstance(a_, ast.Starred) for a_ in value.args) or any(k.arg is None for k in value.keywords):
                return None
            vals = {}
            for i, a_ in enumerate(value.args):
                if i < len(fields):
                    vals[fields[i]] = a_
            for k in value.keywords:
                vals[k.arg] = k.value
            if set(vals) != set(fields):
                return None
            # keyword arguments are evaluated in call order; only reorder when that is invisible
            if value.keywords and [k.arg for k in value.keywords] != fields[len(value.args):] and not all(_simple(v) for v in vals.values()):
                return None
            return [vals[fl] for fl in fields]
        return None

    def _alias_import(self, caller: FuncInfo, g: FuncInfo, name: str) -> str:
        """`name` is a global of the helper that a local of the caller shadows.  If it is an
        import of the helper's module, import it into the caller's module under a fresh alias
        and return the alias."""
        gm, cm = g.module, caller.module
        src = gm.imports.get(name)
        if src is None or src[0] in ("pkg", "pkgmod"):
            raise NotInlinable(f"name capture: {name}")
        alias = f"_g_{name}"
        if alias in cm.imports:
            if cm.imports[alias] == src:
                return alias
            raise NotInlinable(f"name capture: {name}")
        dotted_ = src[1]
        if "." in dotted_:
            m_, _, sym = dotted_.rpartition(".")
            imp = ast.ImportFrom(module=m_, names=[ast.alias(name=sym, asname=alias)], level=0)
        else:
            imp = ast.Import(names=[ast.alias(name=dotted_, asname=alias)])
        imp.lineno = imp.end_lineno = 1
        imp.col_offset = imp.end_col_offset = 0
        ast.fix_missing_locations(imp)
        pos = 0
        for i, st in enumerate(cm.tree.body):
            if (isinstance(st, ast.Expr) and isinstance(st.value, ast.Constant) and isinstance(st.value.value, str)) or (isinstance(st, ast.ImportFrom) and st.module == "__future__"):
                pos = i + 1
        cm.tree.body.insert(pos, imp)
        cm.imports[alias] = src
        self.log.append(f"import {name} aliased as {alias} in {cm.name}")
        return alias

    def _carry_imports(self, caller: FuncInfo, g: FuncInfo, stmts: list) -> None:
        """A body moved into another module keeps meaning the same globals: names of the
        helper's module that the caller's module does not bind get an import there."""
        gm, cm = g.module, caller.module
        needed = set()
        for st in stmts:
            for n in ast.walk(st):
                if isinstance(n, ast.Name) and isinstance(n.ctx, ast.Load):
                    needed.add(n.id)
        for name in sorted(needed):
            if name in gm.imports:
                src = gm.imports[name]
            elif name in gm.functions or name in gm.classes or name in gm.assigns:
                src = ("pkg", gm.name, name)
            else:
                continue
            if name in cm.imports:
                have = cm.imports[name]
                if have == src or (have[0] == "pkg" and src[0] == "pkg" and have[2] == src[2]):
                    continue
                raise NotInlinable(f"`{name}` means something else in the caller's module")
            if name in cm.functions or name in cm.classes or name in cm.assigns:
                if src == ("pkg", cm.name, name):
                    continue
                raise NotInlinable(f"`{name}` means something else in the caller's module")
            if src[0] == "pkg":
                imp = ast.ImportFrom(module=src[1], names=[ast.alias(name=src[2], asname=name if name != src[2] else None)], level=1)
            elif src[0] == "pkgmod":
                imp = ast.ImportFrom(module=None, names=[ast.alias(name=src[1], asname=name if name != src[1] else None)], level=1)
            else:
                dotted_ = src[1]
                if "." in dotted_:
                    m_, _, sym = dotted_.rpartition(".")
                    imp = ast.ImportFrom(module=m_, names=[ast.alias(name=sym, asname=name if name != sym else None)], level=0)
                else:
                    imp = ast.Import(names=[ast.alias(name=dotted_, asname=name if name != dotted_ else None)])
            imp.lineno = imp.end_lineno = 1
            imp.col_offset = imp.end_col_offset = 0
            ast.fix_missing_locations(imp)
            # after the docstring / __future__ imports
            pos = 0
            for i, st in enumerate(cm.tree.body):
                if (isinstance(st, ast.Expr) and isinstance(st.value, ast.Constant) and isinstance(st.value.value, str)) or (isinstance(st, ast.ImportFrom) and st.module == "__future__"):
                    pos = i + 1
            cm.tree.body.insert(pos, imp)
            cm.imports[name] = src
            self.log.append(f"import {name} carried into {cm.name}")

    # ------------------------------------------------------------------ driver
    def run(self, rounds: int = 3) -> bool:
        changed_any = False
        from .normalize import normalize_tree

        if self.inline_wrapper_decorators():
            changed_any = True
            for mod in self.p.modules.values():
                normalize_tree(mod.tree)
            self.p.reindex()
            from .effects import Analysis as _A0

            self.a = _A0(self.p)
        if self.inline_predicates():
            changed_any = True
            for mod in self.p.modules.values():
                normalize_tree(mod.tree)
            self.p.reindex()
            from .effects import Analysis as _A

            self.a = _A(self.p)
        for _ in range(rounds):
            if self.fold_accumulator_workers():
                changed_any = True
                for mod in self.p.modules.values():
                    normalize_tree(mod.tree)
                self.p.reindex()
                from .effects import Analysis as _A3

                self.a = _A3(self.p)
            cands = self.candidates()
            self.gen_cands = self.generator_candidates()
            if not cands and not self.gen_cands:
                break
            cands = {**cands, **self.gen_cands}
            changed = False
            remaining_calls: dict = {k: 0 for k in cands}
            inlined_calls: dict = {k: 0 for k in cands}
            for f in list(self.p.all_functions()):
                if f.is_lambda:
                    continue
                if self._rewrite_block_owner(f, f.node, cands, remaining_calls, inlined_calls):
                    changed = True
            # calls that were not in statement position keep the helper alive
            for f in self.p.all_functions():
                for call, c in self.a.func_calls(f):
                    if c.kind == "func" and id(c.func) in cands and not getattr(call, "_inlined_gone", False):
                        pass
            if not changed:
                break
            changed_any = True
            self._remove_dead_helpers(cands)
            for mod in self.p.modules.values():
                normalize_tree(mod.tree)
            self.p.reindex()
            from .effects import Analysis

            self.a = Analysis(self.p)
        if self.scalarise_records():
            changed_any = True
            for mod in self.p.modules.values():
                normalize_tree(mod.tree)
            self.p.reindex()
            from .effects import Analysis as _A2

            self.a = _A2(self.p)
        return changed_any

    # ------------------------------------------------------------------ records
    def record_classes(self) -> dict:
        """Private NamedTuple / dataclass helper classes: name -> (ClassInfo, [fields], is_namedtuple)."""
        out = {}
        for ci in self.p.classes.values():
            if not ci.name.startswith("_"):
                continue
            is_nt = any("NamedTuple" in ast.unparse(b) for b in ci.bases)
            is_dc = "dataclass" in ci.decorators
            if not (is_nt or is_dc):
                continue
            fields = [st.target.id for st in ci.node.body if isinstance(st, ast.AnnAssign) and isinstance(st.target, ast.Name) and not ast.unparse(st.annotation).startswith("ClassVar")]
            if fields:
                out[ci.name] = (ci, fields, is_nt)
        return out

    def scalarise_records(self) -> bool:
        """A local that holds a record of a private helper class and is only ever read field by
        field is replaced by one local per field (`entry = stack.pop(); entry.callback(...)`
        -> `entry__callback, entry__flag = stack.pop(); entry__callback(...)`), and constructor
        calls of private NamedTuples become plain tuples.  Methods of such classes have been
        inlined before (they are candidates of the helper inlining)."""
        recs = self.record_classes()
        if not recs:
            return False
        changed = False
        for f in list(self.p.all_functions()):
            if f.is_lambda:
                continue
            # candidate locals: exactly one binding (Assign to a Name, or a for-loop target Name)
            binds: dict = {}
            for n in walk_own(f.node):
                if isinstance(n, ast.Assign) and len(n.targets) == 1 and isinstance(n.targets[0], ast.Name):
                    binds.setdefault(n.targets[0].id, []).append(("assign", n))
                elif isinstance(n, (ast.For, ast.AsyncFor)) and isinstance(n.target, ast.Name):
                    binds.setdefault(n.target.id, []).append(("for", n))
                elif isinstance(n, ast.Name) and isinstance(n.ctx, (ast.Store, ast.Del)):
                    binds.setdefault(n.id, [])
            stores = {}
            for n in walk_own(f.node):
                if isinstance(n, ast.Name) and isinstance(n.ctx, (ast.Store, ast.Del)):
                    stores[n.id] = stores.get(n.id, 0) + 1
            parents = {}
            for n in walk_own(f.node):
                for c in ast.iter_child_nodes(n):
                    parents[id(c)] = n
            for v, bl in binds.items():
                if len(bl) > 1 and stores.get(v) == len(bl) and v not in f.params:
                    if self._scalarise_multi(f, v, bl, recs, parents):
                        changed = True
                    continue
                if len(bl) != 1 or stores.get(v) != 1 or v in f.params:
                    continue
                kind, bnode = bl[0]
                loads = [n for n in walk_own(f.node) if isinstance(n, ast.Name) and n.id == v and isinstance(n.ctx, ast.Load)]
                if not loads:
                    continue
                used = set()
                ok = True
                splats = []
                meth_refs = []
                method_names = {m_ for _ci, _f, _nt in recs.values() for m_ in _ci.methods if not m_.startswith("__")}
                for ld in loads:
                    par = parents.get(id(ld))
                    if isinstance(par, ast.Attribute) and par.value is ld and isinstance(par.ctx, ast.Load) and par.attr in method_names:
                        meth_refs.append((ld, par))  # bound method taken as a value (callback)
                    elif isinstance(par, ast.Attribute) and par.value is ld and isinstance(par.ctx, ast.Load):
                        used.add(par.attr)
                    elif isinstance(par, ast.Starred) and isinstance(parents.get(id(par)), ast.Call) and par in parents[id(par)].args:
                        splats.append((ld, par, parents[id(par)]))  # f(*record): all fields, in order
                    else:
                        ok = False
                if not ok or any(v in {x.id for x in ast.walk(g.node) if isinstance(x, ast.Name)} for g in self.p.all_functions() if g.parent is f):
                    continue
                # which record class?
                ctor = None
                if kind == "assign" and isinstance(bnode.value, ast.Call):
                    cal = self.a.callee(f, bnode.value)
                    if cal.kind == "class" and cal.cls is not None and cal.cls.name in recs:
                        ctor = cal.cls.name
                owners = [nm for nm, (_ci, flds, _nt) in recs.items() if used <= set(flds)]
                cname = ctor or (owners[0] if len(owners) == 1 else None)
                if cname is None:
                    continue
                ci, fields, is_nt = recs[cname]
                if not used <= set(fields) or (splats and not is_nt):
                    continue
                names = {fl: f"{v}__{fl}" for fl in fields}
                if meth_refs and not ctor:
                    continue
                if ctor:
                    call = bnode.value
                    if any(isinstance(a_, ast.Starred) for a_ in call.args) or any(k.arg is None for k in call.keywords):
                        continue
                    if any(par_.attr not in ci.methods or "staticmethod" in ci.methods[par_.attr].decorators or "classmethod" in ci.methods[par_.attr].decorators for _ld, par_ in meth_refs):
                        continue
                    vals = {}
                    for i, a_ in enumerate(call.args):
                        if i < len(fields):
                            vals[fields[i]] = a_
                    for k in call.keywords:
                        vals[k.arg] = k.value
                    if set(vals) != set(fields):
                        continue
                    new = [ast.copy_location(ast.Assign(targets=[ast.Name(id=names[fl], ctx=ast.Store())], value=vals[fl], lineno=bnode.lineno), bnode) for fl in fields]
                    # a bound method of the record used as a value becomes a closure over the fields
                    for mname in sorted({par_.attr for _ld, par_ in meth_refs}):
                        m_ = ci.methods[mname]
                        fn = copy.deepcopy(m_.node)
                        self_name = fn.args.args[0].arg
                        fn.args.args = fn.args.args[1:]
                        fn.name = f"{v}__{mname}"
                        fn.decorator_list = []

                        class _S(ast.NodeTransformer):
                            def visit_Attribute(self_, node):
                                self_.generic_visit(node)
                                if isinstance(node.value, ast.Name) and node.value.id == self_name and node.attr in names and isinstance(node.ctx, ast.Load):
                                    return ast.copy_location(ast.Name(id=names[node.attr], ctx=ast.Load()), node)
                                return node

                        fn = _S().visit(fn)
                        if any(isinstance(x, ast.Name) and x.id == self_name for x in ast.walk(fn)):
                            new = None  # the method uses `self` in another way: leave everything alone
                            break
                        new.append(fn)
                    if new is None or not self._replace_stmt(f.node, bnode, new):
                        continue
                    for _ld, par_ in meth_refs:
                        gp_ = parents.get(id(par_))
                        repl_ = ast.copy_location(ast.Name(id=f"{v}__{par_.attr}", ctx=ast.Load()), par_)
                        for fld_, val in ast.iter_fields(gp_):
                            if val is par_:
                                setattr(gp_, fld_, repl_)
                            elif isinstance(val, list):
                                for i_, x in enumerate(val):
                                    if x is par_:
                                        val[i_] = repl_
                elif is_nt:
                    tgt = ast.Tuple(elts=[ast.Name(id=names[fl], ctx=ast.Store()) for fl in fields], ctx=ast.Store())
                    if kind == "assign":
                        bnode.targets = [tgt]
                    else:
                        bnode.target = tgt
                else:
                    continue
                for ld, star, call in splats:
                    k = call.args.index(star)
                    call.args[k : k + 1] = [ast.copy_location(ast.Name(id=names[fl], ctx=ast.Load()), star) for fl in fields]
                splat_ids = {id(ld) for ld, _s, _c in splats} | {id(ld) for ld, _p in meth_refs}
                for ld in loads:
                    if id(ld) in splat_ids:
                        continue
                    par = parents.get(id(ld))
                    gp = parents.get(id(par))
                    repl = ast.copy_location(ast.Name(id=names[par.attr], ctx=ast.Load()), par)
                    if gp is None:
                        continue
                    for fld_, val in ast.iter_fields(gp):
                        if val is par:
                            setattr(gp, fld_, repl)
                        elif isinstance(val, list):
                            for i_, x in enumerate(val):
                                if x is par:
                                    val[i_] = repl
                changed = True
                self.log.append(f"record {cname} scalarised: {v} in {f.qualname}")
        # constructor calls of private NamedTuples are tuples
        for mod in self.p.modules.values():
            class T(ast.NodeTransformer):
                def visit_Call(self_, node):
                    nonlocal changed
                    self_.generic_visit(node)
                    if isinstance(node.func, ast.Name) and node.func.id in recs and recs[node.func.id][2] and recs[node.func.id][0].module is mod:
                        ci, fields, _ = recs[node.func.id]
                        if any(isinstance(a_, ast.Starred) for a_ in node.args) or any(k.arg is None for k in node.keywords):
                            return node
                        vals = {}
                        for i, a_ in enumerate(node.args):
                            if i < len(fields):
                                vals[fields[i]] = a_
                        for k in node.keywords:
                            vals[k.arg] = k.value
                        if set(vals) != set(fields):
                            return node
                        changed = True
                        return ast.copy_location(ast.Tuple(elts=[vals[fl] for fl in fields], ctx=ast.Load()), node)
                    return node

            T().visit(mod.tree)
            ast.fix_missing_locations(mod.tree)
        return changed

    def _scalarise_multi(self, f: FuncInfo, v: str, bl: list, recs: dict, parents: dict) -> bool:
        """A record local bound on several branches, every time by a constructor call of the
        same private record class, and only read field by field / splatted."""
        cname = None
        for kind, bnode in bl:
            if kind != "assign" or not isinstance(bnode.value, ast.Call):
                return False
            cal = self.a.callee(f, bnode.value)
            if cal.kind != "class" or cal.cls is None or cal.cls.name not in recs or (cname is not None and cal.cls.name != cname):
                return False
            cname = cal.cls.name
            call = bnode.value
            if any(isinstance(a_, ast.Starred) for a_ in call.args) or any(k.arg is None for k in call.keywords):
                return False
        ci, fields, is_nt = recs[cname]
        loads = [n for n in walk_own(f.node) if isinstance(n, ast.Name) and n.id == v and isinstance(n.ctx, ast.Load)]
        if not loads or any(v in {x.id for x in ast.walk(g.node) if isinstance(x, ast.Name)} for g in self.p.all_functions() if g.parent is f):
            return False
        splats, reads = [], []
        for ld in loads:
            par = parents.get(id(ld))
            if isinstance(par, ast.Attribute) and par.value is ld and isinstance(par.ctx, ast.Load) and par.attr in fields:
                reads.append((ld, par))
            elif is_nt and isinstance(par, ast.Starred) and isinstance(parents.get(id(par)), ast.Call) and par in parents[id(par)].args:
                splats.append((ld, par, parents[id(par)]))
            else:
                return False
        names = {fl: f"{v}__{fl}" for fl in fields}
        plans = []
        for _kind, bnode in bl:
            call = bnode.value
            vals = {}
            for i, a_ in enumerate(call.args):
                if i < len(fields):
                    vals[fields[i]] = a_
            for k in call.keywords:
                vals[k.arg] = k.value
            if set(vals) != set(fields):
                return False
            plans.append((bnode, [ast.copy_location(ast.Assign(targets=[ast.Name(id=names[fl], ctx=ast.Store())], value=vals[fl], lineno=bnode.lineno), bnode) for fl in fields]))
        for bnode, new in plans:
            if not self._replace_stmt(f.node, bnode, new):
                return False
        for _ld, star, call in splats:
            k = call.args.index(star)
            call.args[k : k + 1] = [ast.copy_location(ast.Name(id=names[fl], ctx=ast.Load()), star) for fl in fields]
        for _ld, par in reads:
            gp = parents.get(id(par))
            repl = ast.copy_location(ast.Name(id=names[par.attr], ctx=ast.Load()), par)
            for fld_, val in ast.iter_fields(gp):
                if val is par:
                    setattr(gp, fld_, repl)
                elif isinstance(val, list):
                    for i_, x in enumerate(val):
                        if x is par:
                            val[i_] = repl
        self.log.append(f"record {cname} scalarised (several bindings): {v} in {f.qualname}")
        return True

    @staticmethod
    def _replace_stmt(root, old, new_list) -> bool:
        for n in ast.walk(root):
            for fld in ("body", "orelse", "finalbody"):
                blk = getattr(n, fld, None)
                if isinstance(blk, list) and old in blk:
                    i = blk.index(old)
                    blk[i : i + 1] = new_list
                    for s_ in new_list:
                        ast.fix_missing_locations(s_)
                    return True
        return False

    def _rewrite_block_owner(self, f: FuncInfo, node, cands, remaining, inlined) -> bool:
        changed = False
        for fld in ("body", "orelse", "finalbody"):
            block = getattr(node, fld, None)
            if not isinstance(block, list) or not block or not isinstance(block[0], ast.stmt):
                continue
            new_block = []
            for st in block:
                rep = self._try_inline_stmt(f, st, cands)
                if rep is not None:
                    new_block.extend(rep)
                    changed = True
                else:
                    new_block.append(st)
            setattr(node, fld, new_block)
            for st in new_block:
                if isinstance(st, (ast.FunctionDef, ast.AsyncFunctionDef, ast.ClassDef)):
                    continue
                if self._rewrite_block_owner(f, st, cands, remaining, inlined):
                    changed = True
        if isinstance(node, ast.Try):
            for h in node.handlers:
                if self._rewrite_block_owner(f, h, cands, remaining, inlined):
                    changed = True
        return changed

    def _try_inline_stmt(self, f: FuncInfo, st, cands):
        if isinstance(st, ast.For) and not st.orelse and isinstance(st.iter, ast.Call):
            c = self.a.callee(f, st.iter)
            gc = getattr(self, "gen_cands", {})
            if c.kind == "func" and id(c.func) in gc and c.func is not f and not (isinstance(st.iter.func, ast.Attribute) and not _simple(st.iter.func.value)):
                try:
                    return self._expand(f, st, st.iter, False, c.func, "for", st.target)
                except NotInlinable as e:
                    self.log.append(f"not inlined generator {c.func.qualname} in {f.qualname}: {e}")
            return None
        if isinstance(st, ast.If):
            # `if helper(...):` / `if not await helper(...):` - the test is evaluated exactly once,
            # so the call can be hoisted into a temporary in front of the statement
            test, neg = st.test, False
            if isinstance(test, ast.UnaryOp) and isinstance(test.op, ast.Not):
                test, neg = test.operand, True
            # `if (x := helper(...)) is not None:` - the walrus is evaluated first: bind in front
            lead = test
            if isinstance(lead, ast.Compare):
                lead = lead.left
            if isinstance(lead, ast.NamedExpr) and isinstance(lead.target, ast.Name):
                wv = lead.value
                winner = wv.value if isinstance(wv, ast.Await) else wv
                if isinstance(winner, ast.Call):
                    c = self.a.callee(f, winner)
                    if c.kind == "func" and id(c.func) in cands and id(c.func) not in getattr(self, "gen_cands", {}) and c.func is not f and not (isinstance(winner.func, ast.Attribute) and not _simple(winner.func.value)):
                        try:
                            pre = self._expand(f, st, winner, isinstance(wv, ast.Await), c.func, "assign", ast.Name(id=lead.target.id, ctx=ast.Store()))
                        except NotInlinable as e:
                            self.log.append(f"not inlined {c.func.qualname} in {f.qualname}: {e}")
                            return None
                        use = ast.copy_location(ast.Name(id=lead.target.id, ctx=ast.Load()), lead)
                        if isinstance(test, ast.Compare) and test.left is lead:
                            test.left = use
                        elif neg:
                            st.test.operand = use
                        else:
                            st.test = use
                        ast.fix_missing_locations(st)
                        return pre + [st]
                return None
            inner = test.value if isinstance(test, ast.Await) else test
            if isinstance(inner, ast.Call):
                c = self.a.callee(f, inner)
                if c.kind == "func" and id(c.func) in cands and id(c.func) not in getattr(self, "gen_cands", {}) and c.func is not f and not (isinstance(inner.func, ast.Attribute) and not _simple(inner.func.value)):
                    tmp = ast.Name(id=f"_inl{next(self.counter)}_test", ctx=ast.Store())
                    try:
                        pre = self._expand(f, st, inner, isinstance(test, ast.Await), c.func, "assign", tmp)
                    except NotInlinable as e:
                        self.log.append(f"not inlined {c.func.qualname} in {f.qualname}: {e}")
                        return None
                    use = ast.Name(id=tmp.id, ctx=ast.Load())
                    last = pre[-1] if pre else None
                    if isinstance(last, ast.Assign) and len(last.targets) == 1 and isinstance(last.targets[0], ast.Name) and last.targets[0].id == tmp.id:
                        use, pre = last.value, pre[:-1]
                    st.test = ast.copy_location(ast.UnaryOp(op=ast.Not(), operand=use) if neg else use, st.test)
                    ast.fix_missing_locations(st)
                    return pre + [st]
            return None
        if isinstance(st, (ast.With, ast.AsyncWith)) and len(st.items) == 1 and isinstance(st.items[0].context_expr, ast.Call):
            rep_cm = self._inline_contextmanager(f, st)
            if rep_cm is not None:
                return rep_cm
        if isinstance(st, (ast.With, ast.AsyncWith)) and st.items and isinstance(st.items[0].context_expr, ast.Call):
            # `with helper(...) as x:` - the context expression is evaluated first, so the
            # helper's body can run in front of the statement
            inner = st.items[0].context_expr
            c = self.a.callee(f, inner)
            if c.kind == "func" and id(c.func) in cands and id(c.func) not in getattr(self, "gen_cands", {}) and c.func is not f and not c.func.is_async and not (isinstance(inner.func, ast.Attribute) and not _simple(inner.func.value)):
                tmp = ast.Name(id=f"_inl{next(self.counter)}_cm", ctx=ast.Store())
                try:
                    pre = self._expand(f, st, inner, False, c.func, "assign", tmp)
                except NotInlinable as e:
                    self.log.append(f"not inlined {c.func.qualname} in {f.qualname}: {e}")
                    return None
                last = pre[-1] if pre else None
                if isinstance(last, ast.Assign) and len(last.targets) == 1 and isinstance(last.targets[0], ast.Name) and last.targets[0].id == tmp.id:
                    # the helper ends in `return <expr>`: the expression takes the call's place
                    st.items[0].context_expr = last.value
                    pre = pre[:-1]
                else:
                    st.items[0].context_expr = ast.copy_location(ast.Name(id=tmp.id, ctx=ast.Load()), inner)
                ast.fix_missing_locations(st)
                return pre + [st]
            return None
        if isinstance(st, (ast.Assign, ast.AnnAssign, ast.Expr, ast.Return)) and getattr(st, "value", None) is not None:
            # the right-hand side is evaluated before any target
            v_ = st.value.value if isinstance(st.value, ast.Await) else st.value
            if isinstance(v_, ast.Call):
                hoisted = self._hoist_argument(f, st, v_, cands)
                if hoisted is not None:
                    return hoisted
        if isinstance(st, ast.Expr) and isinstance(st.value, ast.Yield) and isinstance(st.value.value, ast.Call):
            # `yield helper(...)`: the value is computed before the generator suspends
            inner = st.value.value
            c = self.a.callee(f, inner)
            if c.kind == "func" and id(c.func) in cands and id(c.func) not in getattr(self, "gen_cands", {}) and c.func is not f and not c.func.is_async and not (isinstance(inner.func, ast.Attribute) and not _simple(inner.func.value)):
                tmp = ast.Name(id=f"_inl{next(self.counter)}_yield", ctx=ast.Store())
                try:
                    pre = self._expand(f, st, inner, False, c.func, "assign", tmp)
                except NotInlinable as e:
                    self.log.append(f"not inlined {c.func.qualname} in {f.qualname}: {e}")
                    return None
                last = pre[-1] if pre else None
                if isinstance(last, ast.Assign) and len(last.targets) == 1 and isinstance(last.targets[0], ast.Name) and last.targets[0].id == tmp.id:
                    st.value.value, pre = last.value, pre[:-1]
                else:
                    st.value.value = ast.copy_location(ast.Name(id=tmp.id, ctx=ast.Load()), inner)
                ast.fix_missing_locations(st)
                return pre + [st]
            return None
        mode, target, value = None, None, None
        if isinstance(st, ast.Expr):
            mode, value = "expr", st.value
        elif isinstance(st, ast.Assign) and len(st.targets) == 1 and (isinstance(st.targets[0], ast.Name) or (isinstance(st.targets[0], ast.Attribute) and _simple(st.targets[0].value)) or (isinstance(st.targets[0], ast.Subscript) and _simple(st.targets[0].value) and _simple(st.targets[0].slice))):
            mode, target, value = "assign", st.targets[0], st.value
        elif isinstance(st, ast.AnnAssign) and st.value is not None and (isinstance(st.target, ast.Name) or (isinstance(st.target, ast.Attribute) and _simple(st.target.value))):
            mode, target, value = "assign", st.target, st.value
        elif isinstance(st, ast.Assign) and len(st.targets) == 1 and isinstance(st.targets[0], ast.Tuple) and all(isinstance(t, ast.Name) for t in st.targets[0].elts):
            mode, target, value = "assign", st.targets[0], st.value
        elif isinstance(st, ast.Return) and st.value is not None:
            mode, value = "return", st.value
        if mode is None:
            return None
        awaited = False
        if isinstance(value, ast.Await):
            awaited, value = True, value.value
        if not isinstance(value, ast.Call):
            return None
        c = self.a.callee(f, value)
        if c.kind != "func" or id(c.func) not in cands or c.func is f:
            return None
        g = c.func
        # the receiver must be a simple expression (evaluated once, no side effects)
        if isinstance(value.func, ast.Attribute) and not _simple(value.func.value):
            return None
        try:
            return self._expand(f, st, value, awaited, g, mode, target)
        except NotInlinable as e:
            self.log.append(f"not inlined {g.qualname} in {f.qualname}: {e}")
            return None

    def _inline_contextmanager(self, f: FuncInfo, st):
        """`with _helper(args) [as x]: BODY` where _helper is a private generator-based context
        manager (`@contextmanager` for `with`, `@asynccontextmanager` for `async with`) with
        exactly one `yield`, not inside a loop: the helper's body with BODY in place of the
        yield.  An exception raised in BODY is thrown into the generator at the yield, i.e. it
        meets exactly the handlers / finally blocks that enclose the yield."""
        inner = st.items[0].context_expr
        c = self.a.callee(f, inner)
        if c.kind != "func" or c.func is f:
            return None
        g = c.func
        want = "asynccontextmanager" if isinstance(st, ast.AsyncWith) else "contextmanager"
        if g.decorators != [want] or g.parent is not None or g.is_lambda or g.nested:
            return None
        if not g.name.startswith("_"):
            return None  # named context managers of the package (coalesce_exceptions) are anchors
        if isinstance(inner.func, ast.Attribute) and not _simple(inner.func.value):
            return None
        a = g.node.args
        if a.vararg or a.kwarg or a.posonlyargs:
            return None
        yields = [n for n in walk_own(g.node) if isinstance(n, (ast.Yield, ast.YieldFrom))]
        if len(yields) != 1 or isinstance(yields[0], ast.YieldFrom):
            return None
        ystmts = [n for n in walk_own(g.node) if isinstance(n, ast.Expr) and n.value is yields[0]]
        if len(ystmts) != 1:
            return None
        if any(isinstance(n, (ast.For, ast.AsyncFor, ast.While)) and any(x is ystmts[0] for x in ast.walk(n)) for n in walk_own(g.node)):
            return None
        if any(isinstance(n, (ast.Return, ast.Global, ast.Nonlocal)) for n in walk_own(g.node)):
            return None
        if any(isinstance(n, ast.Call) and ((isinstance(n.func, ast.Name) and n.func.id == g.name) or (isinstance(n.func, ast.Attribute) and n.func.attr == g.name)) for n in walk_own(g.node)):
            return None
        # BODY must not leave through break / continue of an enclosing loop (it would now sit
        # inside the helper's try blocks - fine - but keep to the plain case) nor bind the
        # helper's names
        try:
            pre = self._expand(f, st, inner, g.is_async, g, "expr", None)
        except NotInlinable as e:
            self.log.append(f"not inlined context manager {g.qualname} in {f.qualname}: {e}")
            return None
        # find the (renamed) yield statement in the expansion and put BODY there
        placed = False
        for owner in [ast.Module(body=pre, type_ignores=[])] + [n for s_ in pre for n in ast.walk(s_)]:
            for fld in ("body", "orelse", "finalbody"):
                blk = getattr(owner, fld, None)
                if not isinstance(blk, list):
                    continue
                for i, x in enumerate(blk):
                    if isinstance(x, ast.Expr) and isinstance(x.value, ast.Yield):
                        new = []
                        if st.items[0].optional_vars is not None:
                            val = x.value.value if x.value.value is not None else ast.Constant(value=None)
                            new.append(ast.copy_location(ast.Assign(targets=[st.items[0].optional_vars], value=val, lineno=st.lineno), st))
                        new.extend(st.body)
                        blk[i : i + 1] = new
                        placed = True
                        if owner.__class__ is ast.Module:
                            pre = owner.body
                        break
                if placed:
                    break
            if placed:
                break
        if not placed:
            return None
        for s_ in pre:
            ast.fix_missing_locations(s_)
        self.log.append(f"context manager {g.qualname} -> {f.qualname}:{st.lineno}")
        return pre

    @staticmethod
    def _dead_after(caller: FuncInfo, stmt, name: str) -> bool:
        """`name` (a local / parameter of caller) is not read after `stmt`: not later in the
        function, not through a loop back edge, not by a closure."""
        order: dict = {}

        def number(n):
            order[id(n)] = len(order)
            for c in ast.iter_child_nodes(n):
                number(c)

        number(caller.node)
        if id(stmt) not in order:
            return False
        # end of the statement = highest number inside it
        end = max(order[id(x)] for x in ast.walk(stmt))
        for n in ast.walk(caller.node):
            if isinstance(n, (ast.For, ast.AsyncFor, ast.While)) and any(x is stmt for x in ast.walk(n)):
                return False
            if isinstance(n, (ast.FunctionDef, ast.AsyncFunctionDef, ast.Lambda)) and n is not caller.node and any(isinstance(x, ast.Name) and x.id == name for x in ast.walk(n)):
                return False
        inside = {id(x) for x in ast.walk(stmt)}
        for n in ast.walk(caller.node):
            if isinstance(n, ast.Name) and n.id == name and isinstance(n.ctx, ast.Load) and id(n) not in inside and order.get(id(n), -1) > end:
                return False
        return True

    def _exported(self) -> set:
        init_mod = self.p.modules.get("__init__")
        return set(init_mod.imports) if init_mod is not None else set()

    @staticmethod
    def _as_plain(g: FuncInfo) -> FuncInfo:
        """The generator function seen as a plain procedure (its yield is replaced afterwards)."""
        import copy as _c

        h = _c.copy(g)
        return h

    def _hoist_argument(self, f: FuncInfo, st, call: ast.Call, cands):
        """`x = f(a, **helper(b))`: when everything the call evaluates before the helper call is
        a plain name / attribute chain, the helper's body can run in front of the statement."""
        if isinstance(call.func, ast.Attribute) and not _simple(call.func.value):
            return None
        if not isinstance(call.func, (ast.Attribute, ast.Name)):
            return None
        slots = [(call.args, i, a.value if isinstance(a, ast.Starred) else a, isinstance(a, ast.Starred)) for i, a in enumerate(call.args)]
        slots += [(call.keywords, i, k.value, k.arg is None) for i, k in enumerate(call.keywords)]
        for seq, i, expr, starred in slots:
            if _simple(expr):
                if starred:
                    return None  # unpacking iterates the object: not something to reorder with
                continue
            if not isinstance(expr, ast.Call):
                return None
            c = self.a.callee(f, expr)
            if c.kind != "func" or id(c.func) not in cands or id(c.func) in getattr(self, "gen_cands", {}) or c.func is f or c.func.is_async:
                return None
            if isinstance(expr.func, ast.Attribute) and not _simple(expr.func.value):
                return None
            tmp = ast.Name(id=f"_inl{next(self.counter)}_arg", ctx=ast.Store())
            try:
                pre = self._expand(f, st, expr, False, c.func, "assign", tmp)
            except NotInlinable as e:
                self.log.append(f"not inlined {c.func.qualname} in {f.qualname}: {e}")
                return None
            use = ast.copy_location(ast.Name(id=tmp.id, ctx=ast.Load()), expr)
            last = pre[-1] if pre else None
            if isinstance(last, ast.Assign) and len(last.targets) == 1 and isinstance(last.targets[0], ast.Name) and last.targets[0].id == tmp.id:
                # the helper ends in `return <expr>`: the expression takes the call's place
                use, pre = last.value, pre[:-1]
            if seq is call.args:
                if isinstance(call.args[i], ast.Starred):
                    call.args[i].value = use
                else:
                    call.args[i] = use
            else:
                call.keywords[i].value = use
            ast.fix_missing_locations(st)
            return pre + [st]
        return None

    def _remove_dead_helpers(self, cands) -> None:
        # a helper is dead when no call to it is left anywhere
        names_called: set = set()
        for mod in self.p.modules.values():
            for n in ast.walk(mod.tree):
                if isinstance(n, ast.Call):
                    if isinstance(n.func, ast.Name):
                        names_called.add(n.func.id)
                    elif isinstance(n.func, ast.Attribute):
                        names_called.add(n.func.attr)
        for g in cands.values():
            if g.name in names_called:
                continue
            owner_body = g.parent.node.body if g.parent is not None else g.cls.node.body if g.cls is not None else g.module.tree.body
            if g.node in owner_body:
                owner_body.remove(g.node)
                if not owner_body:
                    owner_body.append(ast.Pass())
                self.log.append(f"removed {g.qualname}")
                if g.cls is None and g.parent is None:
                    # imports of the removed function elsewhere in the package go with it
                    for mod in self.p.modules.values():
                        for st in list(ast.walk(mod.tree)):
                            if isinstance(st, ast.ImportFrom) and st.level >= 1 and any(al.name == g.name for al in st.names):
                                st.names = [al for al in st.names if al.name != g.name]
                        for owner in ast.walk(mod.tree):
                            for fld in ("body", "orelse", "finalbody"):
                                blk = getattr(owner, fld, None)
                                if isinstance(blk, list) and any(isinstance(x, ast.ImportFrom) and not x.names for x in blk):
                                    kept = [x for x in blk if not (isinstance(x, ast.ImportFrom) and not x.names)]
                                    setattr(owner, fld, kept or [ast.Pass()])
