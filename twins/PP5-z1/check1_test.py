"""
Behaviour checks for refactoring 1 (state-error lookup table, hoisted "teardown
states" constant, local renames in ``__aenter__`` / ``__aexit__`` /
``_run_teardown_callbacks``).

Only the public API is used (plus monkeypatching of the ``create_task_group`` module
global, which no refactoring touches, to provoke a failure inside ``__aenter__``).
"""

from __future__ import annotations

import sys
from typing import Any, NoReturn

import pytest
from anyio import CancelScope, get_cancelled_exc_class
from anyio.lowlevel import checkpoint

from asphalt.core import (
    Context,
    NoCurrentContext,
    add_teardown_callback,
    current_context,
)

if sys.version_info < (3, 11):
    from exceptiongroup import BaseExceptionGroup, ExceptionGroup

pytestmark = pytest.mark.anyio()

NOT_ENTERED = "this context has not been entered yet"
ALREADY_ENTERED = "this context has already been entered"
ALREADY_CLOSED = "this context has already been closed"
TORN_DOWN = "this context is being torn down"


def state_error(func: Any, *args: Any, **kwargs: Any) -> str:
    """Call ``func`` and return the message of the RuntimeError it must raise."""
    with pytest.raises(RuntimeError) as exc_info:
        func(*args, **kwargs)

    assert type(exc_info.value) is RuntimeError
    assert exc_info.value.__cause__ is None
    return str(exc_info.value)


async def test_state_messages_for_every_operation() -> None:
    ctx = Context()

    # inactive
    assert state_error(ctx.add_teardown_callback, lambda: None) == NOT_ENTERED
    assert state_error(ctx.add_resource, 1) == NOT_ENTERED
    assert state_error(ctx.add_resource_factory, lambda: 1, types=[int]) == (
        NOT_ENTERED
    )
    assert state_error(ctx.get_resource_nowait, int) == NOT_ENTERED
    with pytest.raises(RuntimeError) as exc_info:
        await ctx.get_resource(int)

    assert str(exc_info.value) == NOT_ENTERED

    # The state check comes before the callable check
    assert state_error(ctx.add_teardown_callback, None) == NOT_ENTERED

    async with ctx:
        # open: only entering again is refused
        with pytest.raises(RuntimeError) as exc_info:
            await ctx.__aenter__()

        assert str(exc_info.value) == ALREADY_ENTERED
        assert type(exc_info.value) is RuntimeError
        # The failed second entry must not have disturbed the state
        ctx.add_teardown_callback(lambda: None)
        ctx.add_resource(1)
        ctx.add_resource_factory(lambda: "x", types=[str])
        assert ctx.get_resource_nowait(int) == 1
        assert await ctx.get_resource(str) == "x"
        assert current_context() is ctx
        with pytest.raises(TypeError, match="^callback must be a callable$"):
            ctx.add_teardown_callback(None)  # type: ignore[arg-type]

    # closed
    assert state_error(ctx.add_teardown_callback, lambda: None) == ALREADY_CLOSED
    assert state_error(ctx.add_teardown_callback, None) == ALREADY_CLOSED
    assert state_error(ctx.add_resource, 1) == ALREADY_CLOSED
    assert state_error(ctx.add_resource_factory, lambda: 1, types=[int]) == (
        ALREADY_CLOSED
    )
    assert state_error(ctx.get_resource_nowait, int) == ALREADY_CLOSED
    with pytest.raises(RuntimeError) as exc_info:
        await ctx.__aenter__()

    assert str(exc_info.value) == ALREADY_CLOSED
    with pytest.raises(RuntimeError) as exc_info:
        await ctx.get_resource(int)

    assert str(exc_info.value) == ALREADY_CLOSED


async def test_state_messages_during_teardown() -> None:
    seen: dict[str, Any] = {}

    async def callback() -> None:
        seen["closed"] = ctx.closed
        # Allowed while closing
        ctx.add_resource("late", types=[str])
        seen["resource"] = ctx.get_resource_nowait(str)
        seen["resource_async"] = await ctx.get_resource(str)
        ctx.add_teardown_callback(lambda: seen.setdefault("late_callback", True))
        # Not allowed while closing
        seen["factory"] = state_error(
            ctx.add_resource_factory, lambda: 1, types=[int]
        )
        try:
            await ctx.__aenter__()
        except RuntimeError as exc:
            seen["enter"] = str(exc)

        seen["closed_after"] = ctx.closed

    async with Context():
        async with Context() as ctx:
            ctx.add_teardown_callback(callback)
            assert ctx.closed is False

    assert seen == {
        "closed": True,
        "resource": "late",
        "resource_async": "late",
        "factory": TORN_DOWN,
        "enter": TORN_DOWN,
        "closed_after": True,
        "late_callback": True,
    }
    assert ctx.closed is True


async def test_closed_property_lifecycle() -> None:
    ctx = Context()
    assert ctx.closed is False
    values: list[bool] = []
    async with ctx:
        assert ctx.closed is False
        ctx.add_teardown_callback(lambda: values.append(ctx.closed))

    assert values == [True]
    assert ctx.closed is True

    # Also closed when the teardown failed
    def fail() -> NoReturn:
        raise ValueError("teardown failed")

    async with Context():
        failing = Context()
        with pytest.raises(ExceptionGroup):
            async with failing:
                failing.add_teardown_callback(fail)

        assert failing.closed is True
        assert state_error(failing.add_resource, 1) == ALREADY_CLOSED


async def test_teardown_error_group_shape_and_cause() -> None:
    calls: list[Any] = []
    error1 = ValueError("first")
    error2 = KeyError("second")
    original = LookupError("original")

    def ok(exc: BaseException | None) -> None:
        calls.append(("ok", exc))

    def raise1() -> NoReturn:
        calls.append("raise1")
        raise error1

    async def raise2(exc: BaseException | None) -> NoReturn:
        calls.append(("raise2", exc))
        await checkpoint()
        raise error2

    async with Context():
        with pytest.raises(ExceptionGroup) as exc_info:
            async with Context() as ctx:
                ctx.add_teardown_callback(ok, pass_exception=True)
                ctx.add_teardown_callback(raise1)
                ctx.add_teardown_callback(raise2, True)
                raise original

        group = exc_info.value
        assert type(group) is ExceptionGroup
        assert group.message == "Exceptions were raised during context teardown"
        assert group.exceptions == (error2, error1)
        assert group.__cause__ is original
        assert group.__suppress_context__ is True
        assert calls == [("raise2", original), "raise1", ("ok", original)]

        # No exception ended the block -> no cause
        with pytest.raises(ExceptionGroup) as exc_info:
            async with Context() as ctx:
                ctx.add_teardown_callback(raise1)

        assert exc_info.value.exceptions == (error1,)
        assert exc_info.value.__cause__ is None
        assert current_context() is ctx.parent


async def test_aexit_return_value_and_context_reset() -> None:
    with pytest.raises(NoCurrentContext):
        current_context()

    root = Context()
    assert await root.__aenter__() is root
    assert current_context() is root
    child = Context()
    assert await child.__aenter__() is child
    assert child.parent is root
    assert current_context() is child
    order: list[str] = []
    add_teardown_callback(lambda: order.append("child"))
    root.add_teardown_callback(lambda: order.append("root"))

    error = RuntimeError("not suppressed")
    assert await child.__aexit__(type(error), error, None) is False
    assert order == ["child"]
    assert current_context() is root
    assert await root.__aexit__(None, None, None) is False
    assert order == ["child", "root"]
    with pytest.raises(NoCurrentContext):
        current_context()

    assert root.closed and child.closed


async def test_stack_corruption_message() -> None:
    async with Context():
        outer = Context()
        with pytest.raises(RuntimeError) as exc_info:
            async with outer:
                inner1 = await Context().__aenter__()
                inner2 = await Context(outer).__aenter__()

        assert str(exc_info.value) == (
            f"Context stack corruption detected: context {id(outer):x} still has "
            f"2 active child context(s)"
        )
        assert outer.closed is True
        assert inner1.closed is False and inner2.closed is False
        assert inner1.parent is outer and inner2.parent is outer


async def test_failed_enter_restores_inactive_state(
    monkeypatch: pytest.MonkeyPatch,
) -> None:
    def broken_task_group() -> NoReturn:
        raise OSError("no task group for you")

    ctx = Context()
    with monkeypatch.context() as patcher:
        patcher.setattr("asphalt.core._context.create_task_group", broken_task_group)
        with pytest.raises(OSError, match="^no task group for you$"):
            await ctx.__aenter__()

    assert ctx.closed is False
    assert state_error(ctx.add_teardown_callback, lambda: None) == NOT_ENTERED
    with pytest.raises(NoCurrentContext):
        current_context()

    # The context can be entered for real afterwards
    called: list[int] = []
    async with ctx:
        assert current_context() is ctx
        ctx.add_teardown_callback(lambda: called.append(1))

    assert called == [1]
    assert ctx.closed is True


async def test_cancellation_during_teardown() -> None:
    events: list[Any] = []
    cancelled_exc_class = get_cancelled_exc_class()

    async def slow(exc: BaseException | None) -> None:
        events.append(("slow", type(exc)))
        await checkpoint()
        events.append("not reached")

    def sync_callback() -> None:
        events.append("sync")

    caught: BaseException | None = None
    async with Context():
        with CancelScope() as scope:
            try:
                async with Context() as ctx:
                    ctx.add_teardown_callback(sync_callback)
                    ctx.add_teardown_callback(slow, pass_exception=True)
                    scope.cancel()
                    await checkpoint()
                    events.append("not reached either")
            except BaseException as exc:
                caught = exc

        assert events == [("slow", cancelled_exc_class), "sync"]
        assert isinstance(caught, BaseExceptionGroup)
        assert not isinstance(caught, ExceptionGroup)
        assert len(caught.exceptions) == 1
        assert isinstance(caught.exceptions[0], cancelled_exc_class)
        assert isinstance(caught.__cause__, cancelled_exc_class)
        assert ctx.closed is True
        assert current_context() is ctx.parent
