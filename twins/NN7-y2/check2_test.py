"""
Behaviour checks for refactoring 2 (ComponentContext: display name property, resource
description formatting, event stream helper used by ``get_resource()``).

Everything goes through the public API only.
"""

from __future__ import annotations

import logging
from typing import Any

import anyio
import pytest
from anyio import fail_after
from anyio.abc import TaskStatus
from pytest import LogCaptureFixture

from asphalt.core import (
    Component,
    ComponentStartError,
    Context,
    ResourceNotFound,
    add_resource,
    add_resource_factory,
    current_context,
    get_resource,
    get_resource_nowait,
    start_background_task_factory,
    start_component,
    start_service_task,
)

pytestmark = pytest.mark.anyio()


@pytest.fixture(params=["asyncio", "trio"])
def anyio_backend(request: Any) -> str:
    return request.param


def component_messages(caplog: LogCaptureFixture, prefix: str) -> list[str]:
    return [msg for msg in caplog.messages if msg.startswith(prefix)]


async def test_wait_for_resource_through_burst_of_events(
    caplog: LogCaptureFixture,
) -> None:
    """
    The waiting component must be woken up by exactly the matching event, even after
    a long burst of non-matching events (more than the default queue size of 50).
    """
    results: dict[str, Any] = {}

    class Provider(Component):
        async def start(self) -> None:
            await anyio.sleep(0.05)
            # Same type, different names
            for i in range(120):
                add_resource(f"noise {i}", f"noise{i}")

            # Same name, different type
            add_resource(4, "wanted")
            assert "value" not in results
            add_resource("the value", "wanted", description="wanted resource")
            assert "value" not in results

    class Consumer(Component):
        async def start(self) -> None:
            assert await get_resource(str, "wanted", optional=True) is None
            assert await get_resource(int, "preexisting") == 99
            results["value"] = await get_resource(str, "wanted")

    class Root(Component):
        def __init__(self) -> None:
            self.add_component("consumer", Consumer)
            self.add_component("provider", Provider)

    caplog.set_level(logging.DEBUG, "asphalt.core")
    async with Context() as ctx:
        ctx.add_resource(99, "preexisting")
        with fail_after(5):
            await start_component(Root)

    assert results == {"value": "the value"}
    assert component_messages(caplog, "Component 'consumer'") == [
        "Component 'consumer' is waiting for another component to provide a resource "
        "(type=str, name='wanted')",
        "Component 'consumer' got the resource it was waiting for (type=str, "
        "name='wanted')",
    ]
    provider_messages = component_messages(caplog, "Component 'provider'")
    assert len(provider_messages) == 122
    assert provider_messages[-2:] == [
        "Component 'provider' added a resource (type=int, name='wanted')",
        "Component 'provider' added a resource (type=str, name='wanted', "
        "description='wanted resource')",
    ]
    # The waiter only got its resource after the provider had added it
    messages = caplog.messages
    assert messages.index(provider_messages[-1]) < messages.index(
        "Component 'consumer' got the resource it was waiting for (type=str, "
        "name='wanted')"
    )


async def test_wait_for_resource_factory_and_multiple_types(
    caplog: LogCaptureFixture,
) -> None:
    results: dict[str, Any] = {}

    class Provider(Component):
        async def start(self) -> None:
            await anyio.sleep(0.05)

            def factory() -> float:
                return 3.5

            add_resource_factory(factory, description="a float factory")
            await anyio.sleep(0.05)
            add_resource(b"payload", types=[bytes, object])

    class FloatConsumer(Component):
        async def start(self) -> None:
            results["float"] = await get_resource(float, "main")

    class ObjectConsumer(Component):
        async def start(self) -> None:
            results["object"] = await get_resource(object, "main")

    class Root(Component):
        def __init__(self) -> None:
            self.add_component("floats", FloatConsumer)
            self.add_component("objects", ObjectConsumer)
            self.add_component("provider/main", Provider)

    caplog.set_level(logging.DEBUG, "asphalt.core")
    async with Context() as ctx:
        with fail_after(5):
            await start_component(Root)

        # The factory resource was generated for the surrounding context
        assert ctx.get_resource_nowait(float, "main") == 3.5
        assert ctx.get_resource_nowait(bytes, "main") == b"payload"

    assert results == {"float": 3.5, "object": b"payload"}
    assert component_messages(caplog, "Component 'floats'") == [
        "Component 'floats' is waiting for another component to provide a resource "
        "(type=float, name='main')",
        "Component 'floats' got the resource it was waiting for (type=float, "
        "name='main')",
    ]
    assert component_messages(caplog, "Component 'objects'") == [
        "Component 'objects' is waiting for another component to provide a resource "
        "(type=object, name='main')",
        "Component 'objects' got the resource it was waiting for (type=object, "
        "name='main')",
    ]
    assert component_messages(caplog, "Component 'provider/main'") == [
        "Component 'provider/main' added a resource factory (type=float, "
        "name='main', description='a float factory')",
        "Component 'provider/main' added a resource (types=[bytes, object], "
        "name='main')",
    ]
    messages = caplog.messages
    assert (
        messages.index(
            "Component 'provider/main' added a resource factory (type=float, "
            "name='main', description='a float factory')"
        )
        < messages.index(
            "Component 'floats' got the resource it was waiting for (type=float, "
            "name='main')"
        )
        < messages.index(
            "Component 'provider/main' added a resource (types=[bytes, object], "
            "name='main')"
        )
        < messages.index(
            "Component 'objects' got the resource it was waiting for (type=object, "
            "name='main')"
        )
    )


async def test_waiting_names_must_match(caplog: LogCaptureFixture) -> None:
    """A resource of the right type under another name must not wake up the waiter."""
    order: list[str] = []

    class Provider(Component):
        async def start(self) -> None:
            await anyio.sleep(0.05)
            add_resource("wrong one", "other")
            await anyio.sleep(0.05)
            order.append("adding right one")
            add_resource("right one")

    class Consumer(Component):
        async def start(self) -> None:
            value = await get_resource(str)
            order.append(f"got {value}")

    class Root(Component):
        def __init__(self) -> None:
            self.add_component("consumer", Consumer)
            self.add_component("provider", Provider)

    async with Context():
        with fail_after(5):
            await start_component(Root)

    assert order == ["adding right one", "got right one"]


async def test_wait_timeout_and_cleanup(caplog: LogCaptureFixture) -> None:
    class Consumer(Component):
        async def start(self) -> None:
            await get_resource(int, "never")

    class Root(Component):
        def __init__(self) -> None:
            self.add_component("consumer", Consumer)

    caplog.set_level(logging.DEBUG, "asphalt.core")
    async with Context() as ctx:
        with pytest.raises(TimeoutError, match="timeout starting component tree"):
            await start_component(Root, timeout=0.2)

        # The cancelled waiter must have stopped listening; adding the resource now
        # must work and not wake up anything
        ctx.add_resource(5, "never")
        assert ctx.get_resource_nowait(int, "never") == 5

    assert component_messages(caplog, "Component 'consumer'") == [
        "Component 'consumer' is waiting for another component to provide a resource "
        "(type=int, name='never')",
    ]
    error_records = [rec for rec in caplog.records if rec.levelno == logging.ERROR]
    assert len(error_records) == 1
    message = error_records[0].getMessage()
    assert message.startswith("Timeout waiting for the component tree to start")
    assert "  consumer: starting" in message
    assert "await get_resource(int, \"never\")" in message


async def test_spurious_wakeup_raises_resource_not_found() -> None:
    """
    If the matching event does not actually lead to the resource being available, the
    second lookup fails with ResourceNotFound, raised while handling the first one.
    """

    class AlwaysEqualMeta(type):
        def __eq__(cls, other: object) -> bool:
            return True

        def __hash__(cls) -> int:
            return type.__hash__(cls)

    class Odd(metaclass=AlwaysEqualMeta):
        pass

    class Provider(Component):
        async def start(self) -> None:
            await anyio.sleep(0.05)
            add_resource(5, "thing")

    class Consumer(Component):
        async def start(self) -> None:
            await get_resource(Odd, "thing")

    class Root(Component):
        def __init__(self) -> None:
            self.add_component("consumer", Consumer)
            self.add_component("provider", Provider)

    async with Context():
        with fail_after(5), pytest.raises(ComponentStartError) as exc_info:
            await start_component(Root)

    exc_info.match("error starting component 'consumer'")
    cause = exc_info.value.__cause__
    assert type(cause) is ResourceNotFound
    assert cause.type is Odd
    assert cause.name == "thing"
    assert type(cause.__context__) is ResourceNotFound
    assert cause.__context__ is not cause
    assert cause.__context__.__context__ is None


async def test_get_resource_on_closed_context() -> None:
    captured: list[Context] = []

    class Root(Component):
        async def start(self) -> None:
            captured.append(current_context())

    async with Context():
        await start_component(Root)
        component_ctx = captured[0]
        # The target context is still open
        assert await component_ctx.get_resource(str, optional=True) is None
        with pytest.raises(ResourceNotFound):
            component_ctx.get_resource_nowait(str)

    with pytest.raises(RuntimeError, match="this context has already been closed"):
        await component_ctx.get_resource(str)

    with pytest.raises(RuntimeError, match="this context has already been closed"):
        await component_ctx.get_resource(str, optional=True)


async def test_task_logging_and_errors(caplog: LogCaptureFixture) -> None:
    events: list[str] = []

    async def service(*, task_status: TaskStatus[str]) -> None:
        task_status.started("start value")
        events.append("service running")
        await anyio.sleep_forever()

    async def failing_service(*, task_status: TaskStatus[str]) -> None:
        raise RuntimeError("service failed to start")

    async def background_task() -> None:
        events.append(f"background sees {get_resource_nowait(str, 'named')}")

    class Child(Component):
        async def start(self) -> None:
            add_resource("child resource")
            factory = await start_background_task_factory()
            await factory.start_task(background_task, "bg")
            events.append(str(await start_service_task(service, "Good service")))
            with pytest.raises(ValueError, match="teardown_action must be a callable"):
                await start_service_task(
                    service,
                    "Bad teardown",
                    teardown_action="bogus",  # type: ignore[arg-type]
                )

            await start_service_task(failing_service, "Bad service")

    class Root(Component):
        def __init__(self) -> None:
            self.add_component("child/named", Child)

    caplog.set_level(logging.DEBUG, "asphalt.core")
    with pytest.raises(ComponentStartError) as exc_info:
        async with Context():
            with fail_after(5):
                await start_component(Root)

    cause = exc_info.value.__cause__
    assert type(cause) is RuntimeError
    assert str(cause) == "service failed to start"
    assert events[-1] == "start value"
    assert sorted(events[:-1]) == [
        "background sees child resource",
        "service running",
    ]
    assert component_messages(caplog, "Component 'child/named'") == [
        "Component 'child/named' added a resource (type=str, name='named')",
        "Component 'child/named' started a background task factory",
        "Component 'child/named' started a service task (Good service)",
    ]


async def test_root_component_display_name(caplog: LogCaptureFixture) -> None:
    async def service() -> None:
        pass

    class Root(Component):
        async def start(self) -> None:
            add_resource(1, description="")
            await start_background_task_factory(exception_handler=lambda exc: True)
            await start_service_task(service, "svc", teardown_action=None)

    caplog.set_level(logging.DEBUG, "asphalt.core")
    async with Context():
        await start_component(Root)

    assert component_messages(caplog, "The root component") == [
        "The root component added a resource (type=int, name='default')",
        "The root component started a background task factory",
        "The root component started a service task (svc)",
    ]
