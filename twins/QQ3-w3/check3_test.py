"""
Behaviour checks for refactoring 3 (alias validation helper in add_component(),
description formatter built from parts, shared ``_debug()`` logging helper, named
event filter and local context alias in get_resource()).
"""

from __future__ import annotations

import logging
from typing import Any, Union

import anyio
import pytest
from anyio import fail_after
from pytest import LogCaptureFixture

from asphalt.core import (
    Component,
    ComponentStartError,
    Context,
    ResourceEvent,
    ResourceNotFound,
    add_resource,
    add_resource_factory,
    current_context,
    get_resource,
    qualified_name,
    start_background_task_factory,
    start_component,
    start_service_task,
)

pytestmark = pytest.mark.anyio()


@pytest.fixture
def anyio_backend() -> str:
    return "asyncio"


class Plain(Component):
    pass


class Thing:
    pass


def debug_records(caplog: LogCaptureFixture, marker: str) -> list[logging.LogRecord]:
    return [
        record
        for record in caplog.records
        if record.name == "asphalt.core"
        and record.levelno == logging.DEBUG
        and marker in record.getMessage()
    ]


class TestAddComponent:
    def test_check_order_started_first(self) -> None:
        component = Plain()
        component.add_component("existing", Plain)
        component._component_started = True
        for alias in ("", 5, "existing", "new"):
            with pytest.raises(RuntimeError, match="^child components cannot be added"):
                component.add_component(alias, Plain)  # type: ignore[arg-type]

        assert component._child_components == {"existing": {"type": Plain}}

    def test_check_order_alias_before_duplicate(self) -> None:
        component = Plain()
        with pytest.raises(TypeError, match="^alias must be a nonempty string$"):
            component.add_component("")

        assert component._child_components is None
        component.add_component("one", "sometype", option=[1, 2])
        with pytest.raises(TypeError, match="^alias must be a nonempty string$"):
            component.add_component(("one",))  # type: ignore[arg-type]

        with pytest.raises(ValueError, match='child component named "one"$'):
            component.add_component("one")

        component.add_component("One")
        assert component._child_components == {
            "one": {"type": "sometype", "option": [1, 2]},
            "One": {"type": "One"},
        }

    def test_str_subclass_alias(self) -> None:
        class MyStr(str):
            pass

        component = Plain()
        component.add_component(MyStr("x"), Plain)
        with pytest.raises(ValueError):
            component.add_component("x", Plain)

        with pytest.raises(TypeError):
            component.add_component(MyStr(""), Plain)

    def test_instances_do_not_share_children(self) -> None:
        first, second = Plain(), Plain()
        first.add_component("a")
        second.add_component("a", Plain, x=1)
        assert first._child_components == {"a": {"type": "a"}}
        assert second._child_components == {"a": {"type": Plain, "x": 1}}

    async def test_children_are_started_with_merged_config(self) -> None:
        started: dict[str, Any] = {}

        class Child(Component):
            def __init__(self, **kwargs: Any) -> None:
                self.kwargs = kwargs

            async def start(self) -> None:
                started[current_context().path] = self.kwargs  # type: ignore[attr-defined]

        class Root(Component):
            def __init__(self) -> None:
                self.add_component("a", Child, x=1, y={"p": 1})
                self.add_component("b", Child, x=2)

        async with Context():
            root = await start_component(
                Root, {"components": {"a": {"y": {"q": 2}}, "b": {"x": 3}}}
            )

        assert started == {"a": {"x": 1, "y": {"p": 1, "q": 2}}, "b": {"x": 3}}
        with pytest.raises(RuntimeError):
            root.add_component("c", Child)


async def test_resource_descriptions(caplog: LogCaptureFixture) -> None:
    caplog.set_level(logging.DEBUG, "asphalt.core")

    class Inner(Component):
        async def start(self) -> None:
            add_resource(Thing(), "t1")
            add_resource(Thing(), "t2", (Thing, object), description="it's \"a\" thing")
            add_resource(Thing(), "t3", Thing, description="")
            add_resource([1], "t4", [], description=None)
            add_resource_factory(self.make_union, "u")
            add_resource_factory(self.make_thing, types=(), description="made")
            add_resource_factory(self.make_thing, "t6", types=Thing)

        def make_union(self) -> Union[int, float]:
            return 1

        def make_thing(self) -> Thing:
            return Thing()

    class Middle(Component):
        def __init__(self) -> None:
            self.add_component("inner/deep", Inner)

    class Root(Component):
        def __init__(self) -> None:
            self.add_component("middle", Middle)

    async with Context():
        await start_component(Root)

    thing = f"{Thing.__module__}.Thing"
    records = debug_records(caplog, " added a resource")
    prefix = "Component 'middle.inner/deep' added a resource"
    assert [record.getMessage() for record in records] == [
        f"{prefix} (type={thing}, name='t1')",
        f"{prefix} (types=[{thing}, object], name='t2', "
        f"description='it\\'s \"a\" thing')",
        f"{prefix} (type={thing}, name='t3')",
        f"{prefix} (type=list, name='t4')",
        f"{prefix} factory (type={qualified_name(Union[int, float])}, name='u')",
        f"{prefix} factory (type={thing}, name='deep', description='made')",
        f"{prefix} factory (type={thing}, name='t6')",
    ]
    # The records keep the unformatted message and the arguments
    assert [record.msg for record in records] == ["%s added a resource (%s)"] * 4 + [
        "%s added a resource factory (%s)"
    ] * 3
    assert all(
        isinstance(record.args, tuple)
        and len(record.args) == 2
        and record.args[0] == "Component 'middle.inner/deep'"
        for record in records
    )
    assert [record.funcName for record in records] == ["add_resource"] * 4 + [
        "add_resource_factory"
    ] * 3
    assert {record.module for record in records} == {"_component"}


async def test_task_log_records(caplog: LogCaptureFixture) -> None:
    caplog.set_level(logging.DEBUG, "asphalt.core")

    class Root(Component):
        async def prepare(self) -> None:
            await start_service_task(anyio.sleep_forever, "%s %d", teardown_action=None)
            await start_background_task_factory(exception_handler=lambda exc: True)

    with fail_after(5):
        async with Context() as ctx:
            await start_component(Root)
            records = debug_records(caplog, "The root component started")
            # The context of the component is gone; cancel the sleeper through the host
            ctx._task_group.cancel_scope.cancel()  # type: ignore[attr-defined]

    assert [(r.funcName, r.msg, r.args) for r in records] == [
        (
            "start_service_task",
            "%s started a service task (%s)",
            ("The root component", "%s %d"),
        ),
        (
            "start_background_task_factory",
            "%s started a background task factory",
            ("The root component",),
        ),
    ]


async def test_wait_filter_matches_name_and_type(caplog: LogCaptureFixture) -> None:
    caplog.set_level(logging.DEBUG, "asphalt.core")
    order: list[str] = []

    class Base:
        pass

    class Derived(Base):
        pass

    class Waiter(Component):
        def __init__(self, type_: type, name: str) -> None:
            self.type = type_
            self.name = name

        async def start(self) -> None:
            value = await get_resource(self.type, self.name)
            order.append(f"{self.type.__name__}/{self.name}={type(value).__name__}")

    class Producer(Component):
        async def start(self) -> None:
            await anyio.sleep(0.05)
            add_resource(Derived(), "x")  # only registered as Derived
            await anyio.sleep(0.05)
            order.append("checkpoint 1")
            add_resource(Derived(), "y", [Base, Derived])
            await anyio.sleep(0.05)
            order.append("checkpoint 2")
            add_resource_factory(Base, "x", types=[Base])

    class Root(Component):
        def __init__(self) -> None:
            self.add_component("w1", Waiter, type_=Derived, name="x")
            self.add_component("w2", Waiter, type_=Base, name="x")
            self.add_component("w3", Waiter, type_=Base, name="y")
            self.add_component("producer", Producer)

    with fail_after(5):
        async with Context():
            await start_component(Root)

    assert order == [
        "Derived/x=Derived",
        "checkpoint 1",
        "Base/y=Derived",
        "checkpoint 2",
        "Base/x=Base",
    ]
    records = debug_records(caplog, "Component 'w2'")
    assert [(r.funcName, r.msg) for r in records] == [
        (
            "get_resource",
            "%s is waiting for another component to provide a resource (%s)",
        ),
        ("get_resource", "%s got the resource it was waiting for (%s)"),
    ]
    assert [r.args for r in records] == [
        ("Component 'w2'", f"type={Base.__module__}.{Base.__qualname__}, name='x'")
    ] * 2


async def test_error_while_waiting_has_lookup_failure_as_context() -> None:
    class Waiter(Component):
        async def start(self) -> None:
            await get_resource(Thing, "phantom")

    class Liar(Component):
        async def start(self) -> None:
            await anyio.sleep(0.05)
            signal = current_context()._context.resource_added  # type: ignore[attr-defined]
            signal.dispatch(ResourceEvent((object,), "phantom", None, False))
            signal.dispatch(ResourceEvent((Thing,), "other", None, False))
            await anyio.sleep(0.05)
            signal.dispatch(ResourceEvent((int, Thing), "phantom", None, True))

    class Root(Component):
        def __init__(self) -> None:
            self.add_component("waiter", Waiter)
            self.add_component("liar", Liar)

    with fail_after(5):
        async with Context():
            with pytest.raises(ComponentStartError) as exc_info:
                await start_component(Root)

    assert str(exc_info.value).startswith("error starting component 'waiter'")
    second_failure = exc_info.value.__cause__
    assert isinstance(second_failure, ResourceNotFound)
    assert isinstance(second_failure.__context__, ResourceNotFound)
    assert second_failure.__context__ is not second_failure


async def test_optional_lookup_does_not_wait(caplog: LogCaptureFixture) -> None:
    caplog.set_level(logging.DEBUG, "asphalt.core")
    results: list[Any] = []

    class Root(Component):
        async def start(self) -> None:
            with fail_after(1):
                results.append(await get_resource(Thing, optional=True))
                results.append(await get_resource(Thing, "x", optional=1))  # type: ignore[call-overload]

            add_resource("found")
            results.append(await get_resource(str, optional=True))
            results.append(await get_resource(str, optional=False))

    async with Context():
        await start_component(Root)

    assert results == [None, None, "found", "found"]
    assert not debug_records(caplog, "is waiting for")
