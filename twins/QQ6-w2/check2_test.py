"""
Behaviour checks for refactoring 2 (_cli.py: ``run`` split into phase helpers).
The command is driven through click's test runner exactly like the project's own
tests do; ``run_application`` is replaced by a mock where the resulting call is the
thing under observation.
"""

from __future__ import annotations

import json
from pathlib import Path
from typing import Any
from unittest.mock import patch

import click
import pytest
from click.testing import CliRunner, Result

from asphalt.core import CLIApplicationComponent, _cli


class EchoComponent(CLIApplicationComponent):
    def __init__(self, **kwargs: Any) -> None:
        self.kwargs = kwargs

    async def run(self) -> int | None:
        print(json.dumps(self.kwargs, sort_keys=True, default=repr))
        return self.kwargs.get("exit_code")


ECHO = f"{EchoComponent.__module__}:{EchoComponent.__name__}"


def invoke(
    files: dict[str, str],
    args: list[str],
    env: dict[str, str] | None = None,
    mock: bool = True,
) -> tuple[Result, list[Any]]:
    runner = CliRunner()
    calls: list[Any] = []
    with runner.isolated_filesystem():
        for name, content in files.items():
            Path(name).write_text(content)

        if mock:
            with patch("asphalt.core._cli.run_application") as run_app:
                result = runner.invoke(_cli.run, args, env=env)
            calls = [(c.args, c.kwargs) for c in run_app.call_args_list]
        else:
            result = runner.invoke(_cli.run, args, env=env)

    return result, calls


def error_text(result: Result) -> str:
    # click >= 8.2 separates stderr; older versions mix it into stdout
    return result.output if "Error" in result.output else result.stderr


BASE = """\
component:
  type: mytype
  a: 1
  nested:
    x: 1
    "dotted.key": old
logging:
  version: 1
max_threads: 5
"""


def test_single_file_default_service() -> None:
    result, calls = invoke({"c.yml": BASE}, ["c.yml"])
    assert result.exit_code == 0, result.output
    assert calls == [
        (
            ("mytype", {"a": 1, "nested": {"x": 1, "dotted.key": "old"}}),
            {
                "logging": {"version": 1},
                "max_threads": 5,
                "backend": "asyncio",
                "backend_options": {},
            },
        )
    ]


def test_multiple_files_are_merged_in_order() -> None:
    second = """\
backend: trio
backend_options:
  restrict_keyboard_interrupt_to_checkpoints: true
component:
  a: 2
  nested:
    y: 2
logging: 10
"""
    result, calls = invoke({"a.yml": BASE, "b.yml": second}, ["a.yml", "b.yml"])
    assert result.exit_code == 0, result.output
    assert calls == [
        (
            (
                "mytype",
                {"a": 2, "nested": {"x": 1, "dotted.key": "old", "y": 2}},
            ),
            {
                "logging": 10,
                "max_threads": 5,
                "backend": "trio",
                "backend_options": {
                    "restrict_keyboard_interrupt_to_checkpoints": True
                },
            },
        )
    ]
    # Reversed order: the first file's scalars win
    result, calls = invoke({"a.yml": BASE, "b.yml": second}, ["b.yml", "a.yml"])
    assert calls[0][0][1]["a"] == 1
    assert calls[0][1]["logging"] == {"version": 1}


def test_overrides() -> None:
    result, calls = invoke(
        {"c.yml": BASE},
        [
            "c.yml",
            "--set",
            "component.a=[1, 2]",
            "--set",
            "component.nested.new.deep=text=with=equals",
            "--set",
            r"component.nested.dotted\.key=new",
            "--set",
            "max_threads=",
            "--set",
            "component.a=3",
            "--set",
            "start_timeout=2.5",
        ],
    )
    assert result.exit_code == 0, result.output
    assert calls == [
        (
            (
                "mytype",
                {
                    "a": 3,
                    "nested": {
                        "x": 1,
                        "dotted.key": "new",
                        "new": {"deep": "text=with=equals"},
                    },
                },
            ),
            {
                "logging": {"version": 1},
                "max_threads": None,
                "start_timeout": 2.5,
                "backend": "asyncio",
                "backend_options": {},
            },
        )
    ]


def test_override_creates_component_without_files() -> None:
    result, calls = invoke(
        {}, ["--set", "component.type=sometype", "--set", "component.opt=yes"]
    )
    assert result.exit_code == 0, result.output
    assert calls == [
        (
            ("sometype", {"opt": True}),
            {"backend": "asyncio", "backend_options": {}},
        )
    ]


def test_override_with_empty_key() -> None:
    result, calls = invoke({"c.yml": BASE}, ["c.yml", "--set", "=5"])
    assert result.exit_code == 0, result.output
    assert calls[0][1][""] == 5


def test_override_without_equals() -> None:
    result, calls = invoke(
        {"c.yml": BASE}, ["c.yml", "--set", "component.a=1", "--set", "foobar"]
    )
    assert result.exit_code == 1
    assert error_text(result) == (
        "Error: Configuration must be set with '=', got: foobar\n"
    )
    assert calls == []


@pytest.mark.parametrize(
    "override, path, typename",
    [
        ("component.a.b=1", "component ⟶ a", "int"),
        ("component.a.b.c.d=1", "component ⟶ a", "int"),
        ("max_threads.x=1", "max_threads", "int"),
        ("component.type.x.y=1", "component ⟶ type", "str"),
    ],
)
def test_override_through_non_mapping(override: str, path: str, typename: str) -> None:
    result, calls = invoke({"c.yml": BASE}, ["c.yml", "--set", override])
    assert result.exit_code == 1
    key = override.split("=")[0]
    assert error_text(result) == (
        f"Error: Cannot apply override for {key!r}: value at {path} is not a "
        f"mapping, but {typename}\n"
    )
    assert calls == []


def test_override_value_yaml_error_propagates() -> None:
    result, calls = invoke({"c.yml": BASE}, ["c.yml", "--set", "component.a=[1,"])
    assert result.exit_code == 1
    assert type(result.exception).__module__.startswith("yaml")
    assert calls == []


def test_root_must_be_a_dictionary() -> None:
    result, calls = invoke({"c.yml": "- 1\n- 2\n"}, ["c.yml"])
    assert isinstance(result.exception, AssertionError)
    assert str(result.exception) == "the document root element must be a dictionary"
    assert calls == []


def test_bad_file_stops_before_overrides_are_looked_at() -> None:
    # The files are all read before any override is validated
    result, calls = invoke({"c.yml": "just a string"}, ["c.yml", "--set", "foobar"])
    assert isinstance(result.exception, AssertionError)


SERVICES = """\
max_threads: 15
services:
  server:
    max_threads: 30
    component:
      type: server_type
      mode: server
  client:
    component:
      type: client_type
      mode: client
component:
  shared: 1
"""


@pytest.mark.parametrize(
    "args, env, expected_type, expected_threads",
    [
        (["-s", "server"], None, "server_type", 30),
        (["--service", "client"], None, "client_type", 15),
        ([], {"ASPHALT_SERVICE": "client"}, "client_type", 15),
        (["-s", "server"], {"ASPHALT_SERVICE": "client"}, "server_type", 30),
        (["-s", ""], {"ASPHALT_SERVICE": "server"}, "server_type", 30),
    ],
)
def test_service_selection(
    args: list[str],
    env: dict[str, str] | None,
    expected_type: str,
    expected_threads: int,
) -> None:
    result, calls = invoke({"c.yml": SERVICES}, [*args, "c.yml"], env=env)
    assert result.exit_code == 0, result.output
    (posargs, kwargs), = calls
    assert posargs[0] == expected_type
    assert posargs[1]["mode"] == expected_type.split("_")[0]
    assert "shared" not in posargs[1]
    assert kwargs == {
        "max_threads": expected_threads,
        "backend": "asyncio",
        "backend_options": {},
    }


def test_top_level_component_becomes_default_service() -> None:
    # three services now (server, client and the implied default) -> default wins
    result, calls = invoke(
        {"c.yml": SERVICES}, ["c.yml", "--set", "component.type=fallback"]
    )
    assert result.exit_code == 0, result.output
    assert calls[0][0] == ("fallback", {"shared": 1})


def test_explicit_default_is_not_replaced_by_top_level_component() -> None:
    config = """\
services:
  default:
    component:
      type: explicit
  other:
    component:
      type: other
component:
  type: toplevel
"""
    result, calls = invoke({"c.yml": config}, ["c.yml"])
    assert result.exit_code == 0, result.output
    assert calls[0][0] == ("explicit", {})


def test_only_service_is_picked() -> None:
    config = """\
services:
  whatever:
    component:
      type: only
"""
    result, calls = invoke({"c.yml": config}, ["c.yml"])
    assert result.exit_code == 0, result.output
    assert calls[0][0] == ("only", {})


def test_service_not_found() -> None:
    result, calls = invoke({"c.yml": SERVICES}, ["-s", "nope", "c.yml"])
    assert result.exit_code == 1
    assert error_text(result) == "Error: Service 'nope' has not been defined\n"
    assert isinstance(result.exception, SystemExit) or isinstance(
        result.exception, click.ClickException
    )
    assert calls == []


def test_no_service_selected() -> None:
    config = SERVICES.replace("component:\n  shared: 1\n", "")
    result, calls = invoke({"c.yml": config}, ["c.yml"])
    assert result.exit_code == 1
    assert error_text(result) == (
        "Error: Multiple services present in configuration file but no default "
        "service has been defined and no service was explicitly selected with -s / "
        "--service\n"
    )
    assert calls == []


def test_no_services_defined() -> None:
    # The emptiness check comes before the lookup of an explicitly selected service
    result, calls = invoke({"c.yml": "max_threads: 1\n"}, ["-s", "x", "c.yml"])
    assert result.exit_code == 1
    assert error_text(result) == "Error: No services have been defined\n"
    assert calls == []


def test_bad_services_type() -> None:
    result, calls = invoke({"c.yml": "services: [1]\ncomponent: {type: x}\n"}, ["c.yml"])
    assert result.exit_code == 1
    assert error_text(result) == 'Error: The "services" key must be a dict, not list\n'
    assert calls == []


def test_missing_component_key() -> None:
    result, calls = invoke({"c.yml": "services:\n  default: {}\n"}, ["c.yml"])
    assert result.exit_code == 1
    assert error_text(result) == (
        "Error: Service configuration is missing the 'component' key\n"
    )
    assert calls == []


def test_missing_type_key() -> None:
    result, calls = invoke({"c.yml": "component:\n  foo: 1\n"}, ["c.yml"])
    assert result.exit_code == 1
    assert error_text(result) == (
        "Error: Root component configuration is missing the 'type' key\n"
    )
    assert calls == []


def test_component_not_a_mapping_is_not_translated() -> None:
    # only KeyError is converted to a usage error
    result, calls = invoke({"c.yml": "component: 5\n"}, ["c.yml"])
    assert isinstance(result.exception, AttributeError)
    assert calls == []


def test_constructors(tmp_path: Path) -> None:
    data = tmp_path / "data.txt"
    data.write_bytes(b"payload")
    config = f"""\
component:
  type: t
  env: !Env CHECK2_VAR
  missing: !Env CHECK2_MISSING_VAR
  text: !TextFile {data}
  binary: !BinaryFile {data}
"""
    result, calls = invoke(
        {"c.yml": config},
        ["c.yml", "--set", "component.fromset=!Env CHECK2_VAR"],
        env={"CHECK2_VAR": "value"},
    )
    assert result.exit_code == 0, result.output
    assert calls[0][0][1] == {
        "env": "value",
        "missing": None,
        "text": "payload",
        "binary": b"payload",
        "fromset": "value",
    }


def test_end_to_end_run_and_exit_code() -> None:
    config = f"""\
logging: null
services:
  default:
    component:
      type: "{ECHO}"
      greeting: hello
"""
    result, _ = invoke({"c.yml": config}, ["c.yml"], mock=False)
    assert result.exit_code == 0, result.output
    assert json.loads(result.stdout.strip().splitlines()[-1]) == {"greeting": "hello"}

    # A top-level "component" is dropped when a "default" service already exists
    result, _ = invoke(
        {"c.yml": config}, ["c.yml", "--set", "component.exit_code=3"], mock=False
    )
    assert result.exit_code == 0
    assert json.loads(result.stdout.strip().splitlines()[-1]) == {"greeting": "hello"}

    result, _ = invoke(
        {"c.yml": config},
        ["c.yml", "--set", "services.default.component.exit_code=3"],
        mock=False,
    )
    assert result.exit_code == 3
    assert json.loads(result.stdout.strip().splitlines()[-1]) == {
        "greeting": "hello",
        "exit_code": 3,
    }


def test_unknown_toplevel_option_reaches_run_application() -> None:
    config = f"""\
logging: null
bogus_option: 1
component:
  type: "{ECHO}"
"""
    result, _ = invoke({"c.yml": config}, ["c.yml"], mock=False)
    assert isinstance(result.exception, TypeError)
    assert "bogus_option" in str(result.exception)
