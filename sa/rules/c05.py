"""C05 - component trees start in order: construct all, prepare, children, then start."""
from __future__ import annotations

import ast

from ..cfg import CFG, Node, iter_own
from ..dataflow import ReachingDefs
from ..loader import AnalysisError, FuncInfo, dotted, walk_own
from .common import Anchors, call_name, include_rules, names_in, self_attr
from .discharge import controlling_tests
from .tables import enclosing_loops


class StarterFacts:
    """Where prepare(), the child group and start() sit in the starter coroutine."""

    def __init__(self, ctx, an: Anchors):
        self.ctx = ctx
        a = ctx.a
        self.f = an.starter
        self.cfg = a.cfg(self.f)
        self.rd = ReachingDefs(a, self.f)
        f, cfg = self.f, self.cfg
        self.phase_calls = {"prepare": [], "start": []}
        for n in cfg.live_nodes():
            root = cfg.own_ast(n)
            if root is None:
                continue
            for e in iter_own(root):
                # the component's own prepare() / start() take no arguments (tg.start(...) does)
                if isinstance(e, ast.Call) and isinstance(e.func, ast.Attribute) and e.func.attr in ("prepare", "start") and not e.args and not e.keywords:
                    self.phase_calls[e.func.attr].append((n, e))
        self.phase_awaits = {"prepare": [], "start": []}
        for ph, lst in self.phase_calls.items():
            for cn, call in lst:
                root = cfg.own_ast(cn)
                if any(isinstance(e, ast.Await) and e.value is call for e in iter_own(root)):
                    self.phase_awaits[ph].append(cn)
                    continue
                tgts = []
                if isinstance(cn.ast, ast.Assign):
                    for t in cn.ast.targets:
                        if isinstance(t, ast.Name):
                            tgts.append(t.id)
                for n in cfg.live_nodes():
                    r2 = cfg.own_ast(n)
                    if r2 is None:
                        continue
                    for e in iter_own(r2):
                        if isinstance(e, ast.Await) and isinstance(e.value, ast.Name) and e.value.id in tgts and cn.id in self.rd.at(n.id, e.value.id):
                            self.phase_awaits[ph].append(n)
        # the child task group
        self.tg_with = [w for w in walk_own(f.node) if isinstance(w, ast.AsyncWith) and any("create_task_group" in ast.unparse(i.context_expr) for i in w.items)]
        self.tg_enter = [n for n in cfg.live_nodes() if n.kind == "with_enter" and self.tg_with and n.ast is self.tg_with[0] and "create_task_group" in ast.unparse(n.item.context_expr)]
        self.tg_exit = [n for n in cfg.live_nodes() if n.kind == "with_exit" and self.tg_with and n.ast is self.tg_with[0] and "create_task_group" in ast.unparse(n.item.context_expr)]
        self.spawns = []
        for n in cfg.live_nodes():
            for call, c in a.node_calls(f, cfg, n):
                if call_name(call) in ("start_soon", "start") and isinstance(call.func, ast.Attribute) and call.args:
                    self.spawns.append((n, call))


def _only_idle_children_skipped(ctx, an, sf, starter, cfg, head, sn, tgt, be) -> bool:
    """A child may bypass the spawn only where it is known to have nothing to run - no children
    of its own and neither prepare() nor start() overridden - and is marked started there."""
    from ..facts import Facts

    a = ctx.a
    child = tgt.elts[-1].id if isinstance(tgt, ast.Tuple) and isinstance(tgt.elts[-1], ast.Name) else (tgt.id if isinstance(tgt, ast.Name) else None)
    if child is None:
        return False
    normal = lambda s_, d_, lab: lab not in ("e", "h")  # noqa: E731
    body = cfg.reach(be, avoid=[head.id], edge_ok=normal)
    after_spawn = cfg.reach([sn.id], avoid=[head.id], edge_ok=normal)
    bypass = [cfg.nodes[i] for i in body if i != sn.id and i not in after_spawn and sn.id not in cfg.reach([i], avoid=[head.id], edge_ok=normal)]
    if not bypass or cfg.exit in cfg.reach(be, avoid=[head.id, sn.id], edge_ok=normal):
        return False
    facts = Facts(a, starter, sf.rd)
    wrapped = an.wrapped_component_attr if hasattr(an, "wrapped_component_attr") else "_component"
    entry_nodes = [n for n in bypass if any(p_ not in {b.id for b in bypass} for p_, _l in n.pred)]
    cls_text = f"type({child}.{wrapped})"
    for n in entry_nodes:
        # spellings of "the child's component class" at this point: the expression itself or a
        # local that holds it
        spellings = [cls_text]
        for x in walk_own(starter.node):
            if isinstance(x, ast.Assign) and len(x.targets) == 1 and isinstance(x.targets[0], ast.Name) and ast.unparse(x.value) == cls_text:
                v = x.targets[0].id
                defs = sf.rd.at(n.id, v)
                if defs and all((sf.rd.def_info(d, v) or (None, None))[1] is not None and ast.unparse(sf.rd.def_info(d, v)[1]) == cls_text for d in defs):
                    spellings.append(v)
        if not facts.implied(n.id, ast.parse(f"{child}.{an.children_attr}", mode="eval").body, False, within=[head.id]):
            return False
        for meth in ("prepare", "start"):
            if not any(facts.implied(n.id, ast.parse(f"{sp}.{meth} is Component.{meth}", mode="eval").body, True, within=[head.id]) for sp in spellings):
                return False
    # marked as started on the bypass
    marks = [n for n in bypass if n.kind == "stmt" and isinstance(n.ast, ast.Assign) and any(isinstance(t, ast.Attribute) and dotted(t.value) == child for t in n.ast.targets) and "started" in ast.unparse(n.ast.value)]
    if not marks:
        return False
    ctx.rep.note(f"C05.R3: children bypassing the spawn are only those with no children and no prepare()/start() of their own ({len(entry_nodes)} bypass entry node(s))")
    return True


def run(ctx) -> None:
    rep = ctx.rep
    a = ctx.a
    an = Anchors(a)
    SC = an.start_component
    init = an.init_component
    starter = an.starter
    sccfg = a.cfg(SC)
    normal = lambda s, d, lab: lab not in ("e", "h")  # noqa: E731

    # ------------------------------------------------------------------ R1 construct all first
    init_nodes = [n for n in sccfg.live_nodes() if any(c.kind == "func" and c.func is init for _, c in a.node_calls(SC, sccfg, n))]
    starter_nodes = [n for n in sccfg.live_nodes() if any(c.kind == "func" and c.func is starter for _, c in a.node_calls(SC, sccfg, n))]
    if not init_nodes or not starter_nodes:
        rep.violate("C05.R1", SC, SC.node, "start_component does not build the tree and then start it")
        return
    rep.check("C05.R1", not ({sn_.id for sn_ in starter_nodes} & sccfg.reach([sccfg.entry], edge_ok=lambda s_, d_, lab: not (s_.id in {i_.id for i_ in init_nodes} and lab not in ("e", "h")))), SC, init_nodes[0].ast, "the whole tree is instantiated before the starter coroutine is awaited", "the starter can run before the tree has been instantiated")
    rep.check("C05.R1", not init.is_async, init, init.node, "instantiation is synchronous (no interleaving with prepare/start of other components)", "the init function is a coroutine: instantiation interleaves with startup")
    phase_in_init = [c for c in walk_own(init.node) if isinstance(c, ast.Call) and isinstance(c.func, ast.Attribute) and c.func.attr in ("prepare", "start")]
    rep.check("C05.R1", not phase_in_init, init, phase_in_init[0] if phase_in_init else init.node, "instantiation calls no prepare()/start()", "prepare()/start() is called while the tree is still being instantiated")
    rec = [c for c, cal in a.func_calls(init) if cal.kind == "func" and cal.func is init]
    rep.check("C05.R1", bool(rec), init, rec[0] if rec else init.node, "instantiation recurses into every configured child (details: C14.R2)", "children are not instantiated eagerly")
    # the returned context of init is what is started
    rc = [c for c, cal in a.func_calls(SC) if cal.kind == "func" and cal.func is starter][0]
    rd = ReachingDefs(a, SC)
    cl = rd.closure_at(starter_nodes[0].id, rc.args[0]) if rc.args else None
    rep.check("C05.R1", cl is not None and any(c2 in cl.calls for c2, cal in a.func_calls(SC) if cal.kind == "func" and cal.func is init), SC, rc, "the starter receives the root context built by the init function", "the starter is not given the tree that was just built")

    # ------------------------------------------------------------------ R2 phase order
    sf = StarterFacts(ctx, an)
    cfg = sf.cfg
    for ph in ("prepare", "start"):
        calls = sf.phase_calls[ph]
        rep.check("C05.R2", len(calls) == 1 and not enclosing_loops(starter, calls[0][1]) if calls else False, starter, calls[0][1] if calls else starter.node, f"{ph}() is called at exactly one site, outside any loop (exactly once per component)", f"{ph}() is called at {len(calls)} sites / inside a loop")
        rep.check("C05.R2", len(sf.phase_awaits[ph]) == len(calls) and bool(calls), starter, calls[0][1] if calls else starter.node, f"the coroutine returned by {ph}() is awaited once", f"{ph}() is not awaited exactly once")
        for cn, call in calls:
            from .discharge import controlling_conditions

            for e_, truth, t in controlling_conditions(cfg, cn):
                txt = ast.unparse(e_)
                # normalised: `X.prepare is Component.prepare` must be FALSE for the call to run
                ok = (not truth) and isinstance(e_, ast.Compare) and isinstance(e_.ops[0], ast.Is) and txt.count(f".{ph}") == 2
                rep.check("C05.R2", ok, starter, t.ast, f"{ph}() is skipped only when the component does not override it", f"{ph}() is additionally guarded by `{ast.unparse(t.ast)}`: some components' {ph}() never runs")
    if not sf.tg_enter or not sf.tg_exit:
        rep.violate("C05.R3", starter, starter.node, "children are not started inside an `async with create_task_group()` block of the starter")
    elif sf.phase_awaits["prepare"] and sf.phase_calls["start"]:
        pa = sf.phase_awaits["prepare"][0]
        stc = sf.phase_calls["start"][0][0]
        te = sf.tg_enter[0]
        after_tg = cfg.reach([te.id], edge_ok=normal)
        rep.check("C05.R2", pa.id not in after_tg and sf.phase_calls["prepare"][0][0].id not in after_tg, starter, pa.ast, "prepare() completes before the child task group is opened", "prepare() can run after (or while) the children are started")
        after_start = cfg.reach([stc.id], edge_ok=normal)
        rep.check("C05.R2", te.id not in after_start and pa.id not in after_start, starter, stc.ast, "start() comes after prepare() and after the children", "prepare() or the children can run after start() was called")
        rep.check("C05.R2", cfg.all_paths_pass(te.id, [stc.id], [x.id for x in sf.tg_exit if not x.exc_path], edge_ok=normal), starter, stc.ast, "start() is reachable from the child block only through the task group's exit (all descendants have returned from start())", "start() can be reached while children are still running")
        # state started after start
        # ------------------------------------------------------------------ R3 children concurrent and joined
        spawn = [(n, c) for n, c in sf.spawns if any(x is c for x in ast.walk(sf.tg_with[0]))]
        if not spawn:
            rep.violate("C05.R3", starter, sf.tg_with[0], "no child is spawned inside the task group block")
        else:
            sn, scall = spawn[0]
            rep.check("C05.R3", call_name(scall) == "start_soon", starter, scall, "children are spawned with start_soon (all scheduled before any runs)", f"children are started with `{call_name(scall)}`: each child is awaited before the next one is spawned (siblings run sequentially; a sibling waiting for a later sibling's resource deadlocks)")
            tgv = sf.tg_with[0].items[-1].optional_vars
            tg_names = {ast.unparse(i.optional_vars) for i in sf.tg_with[0].items if i.optional_vars is not None}
            rep.check("C05.R3", ast.unparse(scall.func.value) in tg_names, starter, scall, "the children run on the task group opened by this very block (joined at its exit)", f"children are spawned on `{ast.unparse(scall.func.value)}`, not on the block's own task group: the parent does not wait for them")
            loops = [l for l in enclosing_loops(starter, scall) if isinstance(l[2], ast.For)]
            if not loops:
                rep.violate("C05.R3", starter, scall, "the spawn is not inside a loop over the child contexts")
            else:
                it, tgt, lp = loops[-1]
                child_attr = an.children_attr
                it_n = [n for n in cfg.live_nodes() if n.kind == "for_iter" and n.ast is it]
                it_r = sf.rd.resolve(it_n[0].id, it) if it_n else it
                whole = isinstance(it_r, ast.Call) and call_name(it_r) in ("items", "values") and isinstance(it_r.func.value, ast.Attribute) and it_r.func.value.attr == child_attr and dotted(it_r.func.value.value) == starter.params[0]
                rep.check("C05.R3", bool(whole), starter, lp, "the loop iterates all child contexts of this component", f"the loop iterates `{ast.unparse(it_r)}`, not all of this component's child contexts")
                head = [n for n in cfg.live_nodes() if n.kind == "for_next" and n.ast is lp][0]
                body = cfg.reach([d for d, lab in head.succ if lab == "t"], avoid=[head.id], edge_ok=normal)
                cps = [r for i in body for r in a.node_checkpoints(starter, cfg, cfg.nodes[i])]
                rep.check("C05.R3", not cps, starter, lp, "no checkpoint inside the spawning loop: every sibling is scheduled before any of them runs", f"checkpoint in the spawning loop ({cps[0] if cps else ''})")
                be = [d for d, lab in head.succ if lab == "t"]
                ok = bool(be) and cfg.all_paths_pass(be[0], [head.id], [sn.id], edge_ok=normal) and cfg.exit not in cfg.reach(be, avoid=[head.id, sn.id], edge_ok=normal)
                if not ok and be:
                    ok = _only_idle_children_skipped(ctx, an, sf, starter, cfg, head, sn, tgt, be)
                rep.check("C05.R3", ok, starter, scall, "every iteration spawns its child (no child is skipped - except children that provably have nothing to run)", "some children are skipped by the spawning loop (conditional spawn / continue): their prepare()/start() and their whole subtree never run")
                # the child's context is what is passed
                lv = {x.id for x in ast.walk(tgt) if isinstance(x, ast.Name)}
                rep.check("C05.R3", len(scall.args) >= 2 and isinstance(scall.args[1], ast.Name) and scall.args[1].id in lv, starter, scall, "each spawned starter receives its own child context", "the spawned task does not get the child's context")
            # ------------------------------------------------------------------ R6 recursion reaches every depth
            tgt0 = scall.args[0] if scall.args else None
            same = isinstance(tgt0, ast.Name) and a.r.resolve_name(starter, tgt0.id) is starter
            rep.check("C05.R6", same, starter, scall, "each child is started by the same starter coroutine: the order holds at every depth by induction", f"children are started by `{ast.unparse(tgt0) if tgt0 is not None else '?'}`, not by the starter itself")
        rep.floor("C05.R3", len(spawn), 1)
    rep.floor("C05.R2", len(sf.phase_calls["prepare"]) + len(sf.phase_calls["start"]), 2)
    # the children block is guarded only by "has children"
    if sf.tg_enter:
        from .discharge import controlling_conditions

        for e, truth, t in controlling_conditions(cfg, sf.tg_enter[0]):
            e = sf.rd.resolve(t.id, e)
            ok = truth and isinstance(e, ast.Attribute) and e.attr == an.children_attr and dotted(e.value) == starter.params[0]
            rep.check("C05.R3", ok, starter, t.ast, "the child block is skipped only when there are no children", f"the child block is additionally guarded by `{ast.unparse(t.ast)}`")

    # ------------------------------------------------------------------ R4 return after root start
    aw = [n for n in starter_nodes if any(isinstance(e, ast.Await) for e in iter_own(sccfg.own_ast(n)))]
    rets = [n for n in sccfg.live_nodes() if n.kind == "stmt" and isinstance(n.ast, ast.Return) and n.ast.value is not None]
    ok_ret = bool(aw) and bool(rets) and all(sccfg.all_paths_pass(sccfg.entry, [r.id], [x.id for x in aw], edge_ok=normal) for r in rets)
    rep.check("C05.R4", ok_ret, SC, rets[0].ast if rets else SC.node, "start_component returns the root only after the starter (hence the root's start()) has completed", "start_component can return before the root's start() has returned")
    spawned_starter = [c for c, cal in a.func_calls(SC) if call_name(c) in ("start_soon", "create_task") and any(isinstance(x, ast.Name) and a.r.resolve_name(SC, x.id) is starter for x in c.args)]
    rep.check("C05.R4", not spawned_starter, SC, spawned_starter[0] if spawned_starter else SC.node, "the root starter is awaited, not spawned", "the root starter is spawned in the background")
    for r in rets:
        rep.check("C05.R4", "component" in ast.unparse(r.ast.value), SC, r.ast, "the root component instance is returned", f"start_component returns `{ast.unparse(r.ast.value)}`")

    # ------------------------------------------------------------------ R5 ownership by the caller's context
    include_rules(ctx, "c02", "C05.R5", only=("C02.R4",))
    # ------------------------------------------------------------------ R7 liveness premise: waiting has no lost wake-up
    include_rules(ctx, "c06", "C05.R7", only=("C06.R1", "C06.R2", "C06.R4", "C06.R7"))
    rep.assume("anyio task group: `async with` exits only after every child task finished; liveness additionally needs a fair event loop (not decided)")
