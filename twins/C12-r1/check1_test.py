"""
Behaviour check for refactoring 1 (extraction of the "register with parent" and
"make current" steps of Context.__aenter__ into helper methods).

Exercises entering/leaving ``async with Context()`` by every route and checks that
current_context() follows strict stack discipline. Only the public API is used.
"""

from __future__ import annotations

import sys
from typing import Any

import anyio
import pytest
from anyio import CancelScope, create_task_group, sleep_forever
from anyio.lowlevel import checkpoint

from asphalt.core import Context, NoCurrentContext, current_context

if sys.version_info < (3, 11):
    from exceptiongroup import BaseExceptionGroup, ExceptionGroup

pytestmark = pytest.mark.anyio


@pytest.fixture(params=["asyncio", "trio"])
def anyio_backend(request: Any) -> str:
    return request.param


def assert_no_current() -> None:
    with pytest.raises(NoCurrentContext, match="there is no active context"):
        current_context()


async def nest(depth: int, seen: list[Context]) -> None:
    """Enter ``depth`` nested contexts recursively, checking on the way in and out."""
    if depth == 0:
        return

    try:
        before: Context | None = current_context()
    except NoCurrentContext:
        before = None

    ctx = Context()
    assert ctx.parent is before
    async with ctx as entered:
        assert entered is ctx
        assert current_context() is ctx
        seen.append(ctx)
        await checkpoint()
        await nest(depth - 1, seen)
        assert current_context() is ctx

    if before is None:
        assert_no_current()
    else:
        assert current_context() is before


@pytest.mark.parametrize("depth", [1, 2, 5, 12])
async def test_nesting_restores_previous(depth: int) -> None:
    assert_no_current()
    seen: list[Context] = []
    await nest(depth, seen)
    assert len(seen) == depth
    for parent, child in zip(seen, seen[1:]):
        assert child.parent is parent

    assert seen[0].parent is None
    assert_no_current()


async def test_leave_by_return() -> None:
    async def inner() -> Context:
        async with Context() as ctx:
            assert current_context() is ctx
            return ctx

    async with Context() as outer:
        inner_ctx = await inner()
        assert inner_ctx.parent is outer
        assert inner_ctx.closed
        assert current_context() is outer

    assert_no_current()


async def test_leave_by_exception() -> None:
    async with Context() as outer:
        with pytest.raises(ValueError, match="boom"):
            async with Context() as mid:
                async with Context() as inner:
                    assert current_context() is inner
                    assert inner.parent is mid
                    raise ValueError("boom")

        assert current_context() is outer

    with pytest.raises(KeyError):
        async with Context():
            raise KeyError("x")

    assert_no_current()


async def test_leave_with_teardown_raising() -> None:
    observed: list[Context] = []

    def failing_callback() -> None:
        # The context being torn down is still the current one at this point
        observed.append(current_context())
        raise RuntimeError("teardown failed")

    async with Context() as outer:
        with pytest.raises(BaseExceptionGroup) as exc_info:
            async with Context() as inner:
                inner.add_teardown_callback(failing_callback)
                inner.add_teardown_callback(failing_callback)

        assert observed == [inner, inner]
        assert len(exc_info.value.exceptions) == 2
        assert all(
            isinstance(exc, RuntimeError) and str(exc) == "teardown failed"
            for exc in exc_info.value.exceptions
        )
        assert current_context() is outer

        # Both the body and the teardown raising
        with pytest.raises(BaseExceptionGroup) as exc_info:
            async with Context() as inner2:
                inner2.add_teardown_callback(failing_callback)
                raise ValueError("body failed")

        assert isinstance(exc_info.value.__cause__, ValueError)
        assert observed[-1] is inner2
        assert current_context() is outer

    # Root context whose teardown raises
    with pytest.raises(ExceptionGroup):
        async with Context() as root:
            root.add_teardown_callback(failing_callback)

    assert observed[-1] is root
    assert_no_current()


async def test_leave_by_cancellation_in_same_task() -> None:
    async with Context() as outer:
        with CancelScope() as scope:
            async with Context() as mid:
                async with Context() as inner:
                    assert current_context() is inner
                    scope.cancel()
                    await sleep_forever()

        assert scope.cancelled_caught
        assert inner.closed and mid.closed
        assert current_context() is outer

    assert_no_current()


async def test_leave_by_cancellation_in_child_task() -> None:
    trail: list[tuple[str, Context]] = []

    async def worker() -> None:
        assert current_context() is outer
        try:
            async with Context() as first:
                try:
                    async with Context() as second:
                        try:
                            started.set()
                            await sleep_forever()
                        finally:
                            trail.append(("in second", current_context()))
                            assert current_context() is second
                finally:
                    trail.append(("in first", current_context()))
                    assert current_context() is first
        finally:
            trail.append(("after", current_context()))

    started = anyio.Event()
    async with Context() as outer:
        async with create_task_group() as tg:
            tg.start_soon(worker)
            await started.wait()
            assert current_context() is outer
            tg.cancel_scope.cancel()

        assert [label for label, _ in trail] == ["in second", "in first", "after"]
        assert trail[0][1].parent is trail[1][1]
        assert trail[1][1].parent is outer
        assert trail[2][1] is outer
        assert current_context() is outer

    assert_no_current()


async def test_failed_enter_does_not_disturb_current() -> None:
    async with Context() as outer:
        async with Context() as inner:
            with pytest.raises(RuntimeError, match="already been entered"):
                async with inner:
                    pass  # pragma: no cover

            with pytest.raises(RuntimeError, match="already been entered"):
                await outer.__aenter__()

            assert current_context() is inner

        with pytest.raises(RuntimeError, match="already been closed"):
            async with inner:
                pass  # pragma: no cover

        assert current_context() is outer

    assert_no_current()


async def test_reentering_sequentially_and_siblings() -> None:
    async with Context() as outer:
        siblings = []
        for _ in range(4):
            async with Context() as sibling:
                assert sibling.parent is outer
                assert current_context() is sibling
                siblings.append(sibling)

            assert current_context() is outer

        assert len(set(map(id, siblings))) == 4

        # The parent can be closed cleanly once all its children are gone
    assert outer.closed
    assert_no_current()


async def test_out_of_order_exit_is_detected() -> None:
    """
    Closing a parent while a child is still open is reported as stack corruption.

    Run in a child task so the (deliberately) mangled context variable does not leak to
    other tests.
    """
    result: list[str] = []

    async def scenario() -> None:
        outer = Context()
        await outer.__aenter__()
        inner = Context()
        await inner.__aenter__()
        assert inner.parent is outer
        with pytest.raises(RuntimeError, match="Context stack corruption detected"):
            await outer.__aexit__(None, None, None)

        assert outer.closed
        await inner.__aexit__(None, None, None)
        assert inner.closed
        result.append("done")

    async with create_task_group() as tg:
        tg.start_soon(scenario)

    assert result == ["done"]
    assert_no_current()
