"""
Behaviour checks for refactoring 2 (control-flow restructuring: state error dispatch
table, guard clauses in ``__init__`` / ``__aexit__`` / the teardown runner, hoisted
constants, argument-tuple based teardown callback invocation).

Everything here goes through the public API only.
"""

from __future__ import annotations

import sys
from collections.abc import Generator
from typing import Any, Callable

import pytest
from anyio.lowlevel import checkpoint

from asphalt.core import (
    Component,
    Context,
    current_context,
    start_component,
)

if sys.version_info < (3, 11):
    from exceptiongroup import BaseExceptionGroup, ExceptionGroup

pytestmark = pytest.mark.anyio()

NOT_ENTERED = "this context has not been entered yet"
ALREADY_ENTERED = "this context has already been entered"
ALREADY_CLOSED = "this context has already been closed"
TORN_DOWN = "this context is being torn down"


def outcome(func: Callable[[], Any]) -> Any:
    """Call ``func`` and return either its return value or (exc type, message)."""
    try:
        return func()
    except Exception as exc:
        return type(exc), str(exc)


async def async_outcome(func: Callable[[], Any]) -> Any:
    try:
        return await func()
    except Exception as exc:
        return type(exc), str(exc)


def sync_operations(ctx: Context) -> dict[str, Any]:
    return {
        "closed": ctx.closed,
        "add_resource": outcome(lambda: ctx.add_resource(object(), "obj")),
        "add_resource_factory": outcome(
            lambda: ctx.add_resource_factory(lambda: 1.5, "flt", types=[float])
        ),
        "get_resource_nowait": outcome(
            lambda: ctx.get_resource_nowait(int, "n", optional=True)
        ),
        "add_teardown_callback": outcome(lambda: ctx.add_teardown_callback(int)),
    }


class TestStateMachine:
    async def test_inactive(self) -> None:
        ctx = Context()
        assert sync_operations(ctx) == {
            "closed": False,
            "add_resource": (RuntimeError, NOT_ENTERED),
            "add_resource_factory": (RuntimeError, NOT_ENTERED),
            "get_resource_nowait": (RuntimeError, NOT_ENTERED),
            "add_teardown_callback": (RuntimeError, NOT_ENTERED),
        }
        assert await async_outcome(lambda: ctx.get_resource(int, optional=True)) == (
            RuntimeError,
            NOT_ENTERED,
        )

    async def test_open(self) -> None:
        async with Context() as ctx:
            assert sync_operations(ctx) == {
                "closed": False,
                "add_resource": None,
                "add_resource_factory": None,
                "get_resource_nowait": None,
                "add_teardown_callback": None,
            }
            assert await async_outcome(ctx.__aenter__) == (
                RuntimeError,
                ALREADY_ENTERED,
            )
            assert not ctx.closed
            assert current_context() is ctx

    async def test_closing(self) -> None:
        results: dict[str, Any] = {}

        async def callback() -> None:
            results.update(sync_operations(ctx))
            results["enter"] = await async_outcome(ctx.__aenter__)
            results["get_resource"] = await async_outcome(
                lambda: ctx.get_resource(int, "n", optional=True)
            )

        async with Context():
            async with Context() as ctx:
                ctx.add_teardown_callback(callback)

        assert results == {
            "closed": True,
            "add_resource": None,
            "add_resource_factory": (RuntimeError, TORN_DOWN),
            "get_resource_nowait": None,
            "add_teardown_callback": None,
            "enter": (RuntimeError, TORN_DOWN),
            "get_resource": None,
        }

    async def test_closed(self) -> None:
        async with Context() as ctx:
            pass

        assert sync_operations(ctx) == {
            "closed": True,
            "add_resource": (RuntimeError, ALREADY_CLOSED),
            "add_resource_factory": (RuntimeError, ALREADY_CLOSED),
            "get_resource_nowait": (RuntimeError, ALREADY_CLOSED),
            "add_teardown_callback": (RuntimeError, ALREADY_CLOSED),
        }
        assert await async_outcome(ctx.__aenter__) == (RuntimeError, ALREADY_CLOSED)
        assert await async_outcome(lambda: ctx.get_resource(int)) == (
            RuntimeError,
            ALREADY_CLOSED,
        )

    async def test_closed_even_if_teardown_fails(self) -> None:
        def fail() -> None:
            raise ValueError("teardown failure")

        async with Context():
            with pytest.raises(ExceptionGroup):
                async with Context() as ctx:
                    ctx.add_teardown_callback(fail)

            assert ctx.closed
            assert outcome(lambda: ctx.add_resource(1)) == (
                RuntimeError,
                ALREADY_CLOSED,
            )


class TestConstruction:
    async def test_root_context_starts_empty(self) -> None:
        async with Context() as root:
            assert root.parent is None
            assert root.get_resources(object) == {}
            assert root.get_resource_nowait(int, optional=True) is None

    async def test_inheritance_chain_skips_generated_resources(self) -> None:
        counter = iter(range(100))

        async with Context() as root:
            root.add_resource("a", "first")
            root.add_resource("b", "second")
            root.add_resource_factory(lambda: next(counter), "gen", types=[int])
            assert root.get_resource_nowait(int, "gen") == 0
            assert root.get_resources(int) == {"gen": 0}

            async with Context() as child:
                assert child.get_resources(str) == {"first": "a", "second": "b"}
                assert list(child.get_resources(str)) == ["first", "second"]
                assert child.get_resources(int) == {}
                child.add_resource("c", "third")
                assert child.get_resource_nowait(int, "gen") == 1

                async with Context() as grandchild:
                    assert grandchild.get_resources(str) == {
                        "first": "a",
                        "second": "b",
                        "third": "c",
                    }
                    assert grandchild.get_resources(int) == {}
                    assert grandchild.get_resource_nowait(int, "gen") == 2

                assert child.get_resources(int) == {"gen": 1}

            assert root.get_resources(str) == {"first": "a", "second": "b"}
            assert root.get_resources(int) == {"gen": 0}

    async def test_context_created_in_component(self) -> None:
        parents: list[Context | None] = []

        class Leaf(Component):
            async def start(self) -> None:
                parents.append(Context().parent)
                parents.append(Context(current_context()).parent)

        async with Context() as root:
            await start_component(Leaf)

        assert parents == [root, root]

    async def test_task_group_inherited_from_parent(self) -> None:
        started: list[str] = []

        async def task() -> None:
            started.append("task")

        async with Context():
            async with Context() as child:
                factory = await child.start_background_task_factory()
                await factory.start_task(task, "t")
                await checkpoint()

        assert started == ["task"]


class Awaitable:
    """An awaitable that is neither a coroutine nor a future."""

    def __init__(self, trace: list[Any], label: str) -> None:
        self.trace = trace
        self.label = label

    def __await__(self) -> Generator[Any, Any, None]:
        self.trace.append(self.label)
        return
        yield  # pragma: no cover


class TestTeardownInvocation:
    async def test_argument_lists(self) -> None:
        trace: list[Any] = []

        def variadic(*args: Any, **kwargs: Any) -> None:
            trace.append((args, kwargs))

        error = KeyError("reason")
        async with Context():
            with pytest.raises(KeyError):
                async with Context() as ctx:
                    ctx.add_teardown_callback(variadic)
                    ctx.add_teardown_callback(variadic, True)
                    ctx.add_teardown_callback(variadic, False)
                    ctx.add_teardown_callback(variadic, pass_exception=True)
                    raise error

            async with Context() as ctx:
                ctx.add_teardown_callback(variadic, True)
                ctx.add_teardown_callback(variadic)

        assert trace == [
            ((error,), {}),
            ((), {}),
            ((error,), {}),
            ((), {}),
            ((), {}),
            ((None,), {}),
        ]

    async def test_return_values(self) -> None:
        trace: list[Any] = []

        async def coro_func() -> str:
            trace.append("coroutine")
            return "ignored"

        async with Context():
            async with Context() as ctx:
                ctx.add_teardown_callback(lambda: 42)
                ctx.add_teardown_callback(lambda: Awaitable(trace, "custom awaitable"))
                ctx.add_teardown_callback(coro_func)
                ctx.add_teardown_callback(lambda exc: coro_func(), True)
                ctx.add_teardown_callback(lambda: [trace.append("list")])

        assert trace == ["list", "coroutine", "coroutine", "custom awaitable"]

    async def test_wrong_arity_is_reported(self) -> None:
        def no_args() -> None:
            pass  # pragma: no cover

        def one_arg(exc: BaseException | None) -> None:
            pass  # pragma: no cover

        async with Context():
            with pytest.raises(ExceptionGroup) as exc:
                async with Context() as ctx:
                    ctx.add_teardown_callback(no_args, True)
                    ctx.add_teardown_callback(one_arg, False)

        assert [type(e) for e in exc.value.exceptions] == [TypeError, TypeError]
        assert "missing 1 required positional argument" in str(exc.value.exceptions[0])
        assert "takes 0 positional arguments but 1" in str(exc.value.exceptions[1])

    async def test_failures_chain_from_original_exception(self) -> None:
        original = OSError("original")
        failures = [ValueError("v"), KeyboardInterrupt()]

        def make(exc: BaseException) -> Callable[[], None]:
            def callback() -> None:
                raise exc

            return callback

        async with Context():
            with pytest.raises(BaseExceptionGroup) as exc:
                async with Context() as ctx:
                    for failure in failures:
                        ctx.add_teardown_callback(make(failure))

                    raise original

        assert str(exc.value).startswith(
            "Exceptions were raised during context teardown"
        )
        assert list(exc.value.exceptions) == failures[::-1]
        assert exc.value.__cause__ is original
        assert not isinstance(exc.value, ExceptionGroup)

    async def test_no_failures_means_original_exception_only(self) -> None:
        original = OSError("original")
        async with Context():
            with pytest.raises(OSError) as exc:
                async with Context() as ctx:
                    ctx.add_teardown_callback(lambda: None)
                    raise original

        assert exc.value is original
        assert exc.value.__cause__ is None


class TestExit:
    async def test_aexit_return_value(self) -> None:
        async with Context():
            ctx = Context()
            await ctx.__aenter__()
            assert await ctx.__aexit__(None, None, None) is False

            ctx = Context()
            await ctx.__aenter__()
            error = ValueError("not suppressed")
            assert await ctx.__aexit__(ValueError, error, None) is False
            assert ctx.closed

    async def test_corruption_with_two_children(self) -> None:
        async with Context():
            outer = Context()
            children = [Context(outer), Context(outer)]
            with pytest.raises(RuntimeError) as exc:
                async with outer:
                    for child in children:
                        await child.__aenter__()

            assert str(exc.value) == (
                f"Context stack corruption detected: context {id(outer):x} still has "
                f"2 active child context(s)"
            )
            assert outer.closed
            for child in reversed(children):
                await child.__aexit__(None, None, None)

    async def test_corruption_check_comes_after_teardown_errors(self) -> None:
        def fail() -> None:
            raise ValueError("teardown failure")

        async with Context():
            outer = Context()
            inner = Context(outer)
            with pytest.raises(ExceptionGroup) as exc:
                async with outer:
                    outer.add_teardown_callback(fail)
                    await inner.__aenter__()

            assert exc.value.message == "Exceptions were raised during context teardown"
            assert outer.closed
            await inner.__aexit__(None, None, None)
