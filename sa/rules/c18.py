"""C18 - resource_added announces every publication exactly once, on the right context."""
from __future__ import annotations

import ast

from ..cfg import iter_own
from ..dataflow import ReachingDefs
from ..loader import FuncInfo, dotted, walk_own
from .c06 import event_fields
from .common import Anchors, call_name, is_const, self_attr
from .discharge import controlling_tests
from .tables import enclosing_loops, expand_alias, loop_var_source, norm, store_key


def publication_sites(ctx, an: Anchors) -> list:
    """(func, table attr, is_factory literal expected, is generation)"""
    return [
        (an.ctx_method("add_resource"), an.resource_table, False, False),
        (an.ctx_method("add_resource_factory"), an.factory_table, True, False),
        (an.ctx_method("get_resource_nowait"), an.resource_table, False, True),
        (an.ctx_method("get_resource"), an.resource_table, False, True),
    ]


def hit_test_rule(ctx, an: Anchors, rule: str) -> None:
    """The hit/miss decision of a lookup must be a presence test on the table entry, not a
    test of the stored value (a factory may legitimately produce None)."""
    rep = ctx.rep
    a = ctx.a
    value_field = an.dataclass_fields(an.container_class)[0]
    for name in ("get_resource_nowait", "get_resource"):
        f = an.ctx_method(name)
        cfg = a.cfg(f)
        rd = ReachingDefs(a, f)
        fac_reads = [n for n in cfg.live_nodes() if cfg.own_ast(n) is not None and any(isinstance(e, ast.Attribute) and e.attr == an.factory_table for e in iter_own(cfg.own_ast(n)))]
        if not fac_reads:
            continue
        first = min(fac_reads, key=lambda n: n.lineno)
        tests = [(t, lab) for t, lab in controlling_tests(cfg, first)]
        hit = None
        for t, lab in tests:
            cl = rd.closure_at(t.id, t.ast)
            if any(x.endswith("." + an.resource_table) for x in cl.attrs) or any(_helper_reads_table(ctx, f, c, an) for c in cl.calls):
                hit = (t, cl)
        if hit is None:
            rep.unrecognised(rule, f, first.ast, "cannot find the test that separates a hit on the resource table from a miss")
            continue
        t, cl = hit
        uses_value = any(x.endswith("." + value_field) for x in cl.attrs)
        for c in cl.calls:
            h = _helper_reads_table(ctx, f, c, an)
            if h is not None and any(isinstance(x, ast.Attribute) and x.attr == value_field for r in walk_own(h.node) if isinstance(r, ast.Return) and r.value is not None for x in ast.walk(r.value)):
                uses_value = True
        rep.check(
            rule,
            not uses_value,
            f,
            t.ast,
            "a hit is decided by the presence of the table entry",
            f"hit/miss is decided from the stored value (.{value_field}): a resource whose value is None (a factory may return None) is treated as missing, regenerated and announced again on every lookup",
        )


def _helper_reads_table(ctx, f: FuncInfo, call: ast.Call, an: Anchors):
    c = ctx.a.callee(f, call)
    if c.kind == "func" and c.func.cls is an.Context and any(isinstance(x, ast.Attribute) and x.attr == an.resource_table for x in walk_own(c.func.node)):
        return c.func
    return None


def run(ctx) -> None:
    rep = ctx.rep
    a = ctx.a
    an = Anchors(a)
    fields = event_fields(an)
    n_sites = 0
    for f, table, want_factory, is_gen in publication_sites(ctx, an):
        cfg = a.cfg(f)
        stores = [n for n, m in a.func_mutations(f) if m.kind != "rebind" and any(len(p) >= 2 and p[-1] == table for p in expand_alias(f, m.path))]
        store_muts = [m for n, m in a.func_mutations(f) if m.kind != "rebind" and any(len(p) >= 2 and p[-1] == table for p in expand_alias(f, m.path))]
        disp = an.dispatch_calls(f)
        dnodes = [x for d in disp for x in cfg.nodes_containing(d)]
        if not stores:
            rep.unrecognised("C18.R1", f, f.node, "no insertion into the table in a publication function")
            continue
        if not disp:
            rep.violate("C18.R1", f, stores[0].ast, "a successful publication dispatches no resource_added event")
            continue
        n_sites += len(disp)
        normal = lambda s, d, lab: lab not in ("e", "h")  # noqa: E731
        # R1: at least one dispatch on every path from an insertion to a normal exit
        marks = [s.id for s in stores]
        ok_some = all(cfg.all_paths_pass(s.id, [cfg.exit], [d.id for d in dnodes], edge_ok=normal) for s in stores)
        rep.check("C18.R1", ok_some, f, disp[0], "every path from an insertion to a normal return passes a dispatch", "some successful path inserts without dispatching (e.g. the dispatch is conditional): listeners never learn about that publication")
        # ... and at most one: no dispatch reachable after a dispatch
        twice = False
        for d in dnodes:
            after = cfg.reach([x for x, lab in d.succ if lab not in ("e", "h")], edge_ok=normal)
            if any(o.id in after for o in dnodes):
                twice = True
        in_loop = any(enclosing_loops(f, d) for d in disp)
        rep.check("C18.R1", not twice and not in_loop, f, disp[0], "at most one dispatch per publication (none in a loop, none after another)", "a publication can dispatch more than one event (dispatch inside a loop / two dispatches on one path)")
        # after the last insertion
        late = [s for s in stores for d in dnodes if s.id in cfg.reach([x for x, lab in d.succ if lab not in ("e", "h")], edge_ok=normal)]
        rep.check("C18.R1", not late, f, disp[0], "the dispatch comes after the last insertion", "an insertion can still happen after the event was dispatched")

        # R2: a dispatch only after an insertion: failing calls and plain hits stay silent
        heads = list(marks)
        for m in store_muts:
            for it, tgt, loopnode in enclosing_loops(f, m.node):
                heads += [x.id for x in cfg.live_nodes() if x.kind == "for_next" and x.ast is loopnode]
        ok_dom = all(cfg.all_paths_pass(cfg.entry, [d.id], heads) for d in dnodes)
        rep.check("C18.R2", ok_dom, f, disp[0], "no dispatch is reachable without a preceding insertion (failed calls and lookups that hit an existing resource are silent)", "a dispatch is reachable on a path that inserted nothing: failing calls or plain hits announce a publication")
        # no raise after the dispatch
        for d in dnodes:
            after = cfg.reach([x for x, lab in d.succ if lab not in ("e", "h")], edge_ok=normal)
            raises = [cfg.nodes[i] for i in after if cfg.nodes[i].kind == "stmt" and isinstance(cfg.nodes[i].ast, ast.Raise)]
            rep.check("C18.R2", not raises, f, d.ast if isinstance(d.ast, ast.AST) else f.node, "nothing raises after the event was dispatched", "the call can still fail (raise) after it has dispatched the event")

        # R3: own context only
        for d in disp:
            recv = d.func.value if isinstance(d.func, ast.Attribute) else None
            ok = isinstance(recv, ast.Attribute) and recv.attr == an.signal_attr and isinstance(recv.value, ast.Name) and recv.value.id == "self"
            rep.check("C18.R3", ok, f, d, "the event is dispatched on the signal of the context in which it happened (self)", f"the event is dispatched on `{ast.unparse(recv) if recv is not None else '?'}`, not on this context's own signal")

        # R4: event contents
        for d in disp:
            from .common import defining_call

            ev = d.args[0] if d.args else None
            ev = defining_call(a, f, ev, d) or ev
            if not (isinstance(ev, ast.Call) and a.callee(f, ev).kind == "class" and a.callee(f, ev).cls is an.event_class):
                rep.unrecognised("C18.R4", f, d, "the dispatched event is not a direct ResourceEvent construction")
                continue
            vals = {}
            for i, arg in enumerate(ev.args):
                if i < len(fields):
                    vals[fields[i]] = arg
            for kw in ev.keywords:
                if kw.arg:
                    vals[kw.arg] = kw.value
            # types = what the insertion iterates
            its = set()
            names = set()
            for m in store_muts:
                key = store_key(m)
                loops = enclosing_loops(f, m.node)
                if isinstance(key, ast.Tuple) and len(key.elts) == 2:
                    names.add(norm(key.elts[1]))
                    if isinstance(key.elts[0], ast.Name):
                        it = loop_var_source(loops, key.elts[0].id)
                        if it is not None:
                            its.add(norm(it))
            tv = vals.get(fields[0])
            rep.check("C18.R4", tv is not None and norm(tv) in its, f, ev, "the event carries the registered type tuple", f"the event's types `{norm(tv)}` are not the registered types {sorted(its)}")
            nv = vals.get(fields[1])
            accept = set(names)
            if is_gen:
                accept |= {"name", "factory.name"} | {x for x in names}
            rep.check("C18.R4", nv is not None and norm(nv) in accept, f, ev, "the event carries the registered name", f"the event's name `{norm(nv)}` is not the name the resource was registered under {sorted(accept)}")
            dv = vals.get(fields[2])
            want_desc = {"description"} if not is_gen else {x for x in (norm(dv),) if x.endswith(".description")}
            rep.check("C18.R4", dv is not None and norm(dv) in want_desc, f, ev, "the event carries the description", f"the event's description `{norm(dv)}` is not the registered description")
            fv = vals.get(fields[3])
            rep.check("C18.R4", fv is not None and is_const(fv, want_factory), f, ev, f"is_factory is {want_factory}", f"is_factory is `{norm(fv)}` but a {'factory' if want_factory else 'resource'} was published")
    rep.floor("C18.R1", n_sites, 4)
    hit_test_rule(ctx, an, "C18.R2")

    # the factory table keys and the stored factory name come from the same variable
    f = an.ctx_method("add_resource_factory")
    fac_ctor = [c for c, cal in a.func_calls(f) if cal.kind == "class" and cal.cls is an.factory_class]
    keys = [store_key(m) for n, m in a.func_mutations(f) if m.path == ("self", an.factory_table) and m.depth_key]
    if fac_ctor and keys and isinstance(keys[0], ast.Tuple):
        ffields = an.dataclass_fields(an.factory_class)
        idx = ffields.index("name") if "name" in ffields else 2
        stored = fac_ctor[0].args[idx] if len(fac_ctor[0].args) > idx else next((k.value for k in fac_ctor[0].keywords if k.arg == "name"), None)
        rep.check("C18.R4", stored is not None and norm(stored) == norm(keys[0].elts[1]), f, fac_ctor[0], "factory table key (t, n) implies stored factory name n", "the stored factory's name differs from the name in its table key")

    # R3 package-wide: nobody dispatches resource_added on another context
    for g in ctx.p.all_functions():
        for n in walk_own(g.node):
            if isinstance(n, ast.Call) and call_name(n) == "dispatch" and isinstance(n.func, ast.Attribute):
                recv = n.func.value
                if isinstance(recv, ast.Attribute) and recv.attr == an.signal_attr:
                    base = dotted(recv.value)
                    if base != "self" or g.owner_class is not an.Context:
                        rep.violate("C18.R3", g, n, f"resource_added is dispatched on `{ast.unparse(recv)}` (another context than the one the publication happened in)")

    # a registration that raises after the context was changed (in the method itself or in a
    # ComponentContext wrapper after delegating) is a failing call that has already announced
    # - or a publication that is never announced: the failure-atomicity obligation of C03
    from .common import include_rules

    include_rules(ctx, "c03", "C18.R2", only=("C03.R1",))
    # "a lookup that merely returns an existing resource dispatches nothing" needs the child to
    # inherit every non-generated resource of the parent (else the lookup regenerates + announces)
    from . import c04 as _c04

    _c04.rule_r2(ctx, an, rule="C18.R2")

    # an announcement reaches whoever is listening: nothing but a listener's own exit ends its
    # subscription (C10.R4)
    include_rules(ctx, "c10", "C18.R3", only=("C10.R4",))

    # R5 wrappers add none
    for nm, w in an.ComponentContext.methods.items():
        ds = an.dispatch_calls(w)
        if ds:
            rep.violate("C18.R5", w, ds[0], "a ComponentContext override dispatches events itself: the publication is announced twice / on the wrong context")
    rep.hold("C18.R5", None, None, f"none of the {len(an.ComponentContext.methods)} ComponentContext methods dispatches", nontrivial=False)
