"""Check driver: load the tree, run a property's rules, controls, write evidence."""
from __future__ import annotations

import importlib
import os
import sys
import traceback

from .effects import Analysis
from .loader import AnalysisError, Project
from .report import Report, finish

PROPS = [f"C{n:02d}" for n in range(1, 20)]


class Ctx:
    def __init__(self, project: Project, rep: Report, tier: str):
        self.p = project
        self.a = Analysis(project)
        self.rep = rep
        self.tier = tier

    @property
    def thorough(self) -> bool:
        return self.tier == "thorough"


def repo_root() -> str:
    return os.environ.get("VERIF_REPO", "/repo")


def run_rules(prop: str, project: Project, tier: str, seed: int) -> Report:
    """Run the rule module of one property on a loaded project; never raises for
    analysis problems (they become UNRECOGNISED / error entries)."""
    rep = Report(prop, tier, seed)
    mod = importlib.import_module(f"sa.rules.{prop.lower()}")
    ctx = Ctx(project, rep, tier)
    mod.run(ctx)
    return rep


def thorough_extras(project: Project, functions: set) -> dict:
    """Thorough tier: (1) explicit enumeration of the acyclic entry->exit paths (loops unrolled
    once) of every function the property's rules looked at; (2) an independent second derivation
    of the dominance relation (reachability with the candidate dominator removed) compared with
    the iterative dominator sets - a disagreement is an analysis error."""
    a = Analysis(project)
    paths = 0
    capped = []
    dom_checked = 0
    disagreements = []
    per_func = {}
    for q in sorted(functions):
        f = project.find_func(q)
        if f is None:
            continue
        cfg = a.cfg(f)
        ps = cfg.enumerate_paths(cfg.entry, [cfg.exit, cfg.raise_exit], limit=5000, unroll=1)
        paths += len(ps)
        if len(ps) >= 5000:
            capped.append(q)
        per_func[q] = {"nodes": len(cfg.live), "paths": len(ps)}
        dom = cfg.dominators()
        live = sorted(cfg.live - {cfg.exit, cfg.raise_exit})
        for b in live:
            if b == cfg.entry or b not in dom:
                continue
            reach_b = b in cfg.reach([cfg.entry])
            if not reach_b:
                continue
            for d in live:
                if d == b:
                    continue
                second = b not in cfg.reach([cfg.entry], avoid=[d]) if d != cfg.entry else True
                first = d in dom[b]
                dom_checked += 1
                if first != second:
                    disagreements.append(f"{q}: dominates({d},{b}) iterative={first} path-based={second}")
    return {"paths_enumerated": paths, "path_enumeration_capped": capped, "dominance_facts_cross_checked": dom_checked, "dominance_disagreements": disagreements[:10], "per_function": per_func}


def analyse_variant(prop: str, overrides: dict, tier: str = "quick", inherited_known: bool = False) -> tuple:
    """(verdict, report) for an in-memory variant of the tree: 'violation' | 'holds' | 'error'.

    inherited_known: for behaviour-preserving variants (twins).  A known finding of the tree
    is identified by its exact construct; a refactoring that re-spells that construct still
    has the defect, and the report of it is the tree's, not the refactoring's - it is matched
    by rule and function alone and not charged to the variant.  Never used by a registered
    command, nor for variants that are expected to fire."""
    try:
        project = Project(repo_root(), overrides=overrides)
        rep = run_rules(prop, project, tier, 0)
    except AnalysisError as e:
        return "error", str(e)
    except Exception as e:  # checker bug on a variant
        return "error", f"{type(e).__name__}: {e}"
    from .report import VIOLATION, UNRECOGNISED, split_known

    listed, unlisted = split_known(rep)
    for v, _ in listed:
        v.verdict = "KNOWN"
    if inherited_known and unlisted:
        from .report import load_known_findings

        kn = [(k.get("rule"), k.get("function", "").split(".")[-1], k.get("why_contains", "")) for k in load_known_findings() if k.get("property") == prop and k.get("status") == "known"]
        still = []
        for v, m_ in unlisted:
            if any(v.rule == r_ and (v.function or "").split(".")[-1] == f_ and w_ in v.why for r_, f_, w_ in kn):
                v.verdict = "KNOWN"
            else:
                still.append((v, m_))
        unlisted = still
    if unlisted:
        return "violation", rep
    if any(i.verdict == UNRECOGNISED for i in rep.instances) or any(f < m for _, f, m in rep.floors):
        return "error", rep
    return "holds", rep


def main(argv: list) -> int:
    if not argv:
        print("usage: check <ID>|all [--thorough] [--replay FILE]")
        return 2
    prop = argv[0].upper()
    if prop == "SELFTEST":
        from selftest import campaign

        return campaign.main(argv[1:])
    tier = "thorough" if "--thorough" in argv or os.environ.get("VERIF_TIER") == "thorough" else "quick"
    try:
        seed = int(os.environ.get("VERIF_SEED", "0"))
    except ValueError:
        seed = 0
    if prop == "ALL":
        worst = 0
        for p in PROPS:
            worst = max(worst, main([p] + argv[1:]))
        return worst
    if prop not in PROPS:
        print(f"unknown property {prop}")
        return 2
    replay = None
    if "--replay" in argv:
        replay = argv[argv.index("--replay") + 1]
    project = None
    rep = Report(prop, tier, seed)
    controls: list = []
    error = None
    try:
        project = Project(repo_root())
        rep = run_rules(prop, project, tier, seed)
        from selftest import campaign

        controls, extra = campaign.run_for_check(prop, project, tier)
        rep.extra.update(extra)
        if tier == "thorough":
            tx = thorough_extras(project, rep.functions_analysed)
            rep.paths_enumerated = tx["paths_enumerated"]
            rep.extra["thorough"] = tx
            if tx["dominance_disagreements"]:
                error = "dominance cross-check disagreement: " + "; ".join(tx["dominance_disagreements"][:3])
    except AnalysisError as e:
        error = str(e)
    except Exception as e:
        error = f"checker-exception {type(e).__name__}: {e}"
        traceback.print_exc(file=sys.stderr)
    if replay:
        import json

        with open(replay) as fh:
            want = json.load(fh)
        hits = [i for i in rep.instances if i.rule == want.get("rule") and i.function == want.get("function") and i.stmt == want.get("stmt")]
        if not hits:
            print(f"replay: instance {want.get('rule')} {want.get('function')} not present on the current tree")
        for i in hits:
            print(f"replay: {i.rule} {i.site} {i.function}: {i.verdict}: {i.why}")
            for s in i.path:
                print(f"    via {s}")
    return finish(rep, project, controls, error)
