"""
Behaviour check for refactoring 1 (per-key merge decision extracted into a helper).

Focus: what value ends up under each key - dict/dict recursion, dict-vs-scalar and
scalar-vs-dict collisions, lists, None values, and object identity of the values that
are carried over unmerged.
"""

from __future__ import annotations

import copy
from collections import OrderedDict
from typing import Any

from asphalt.core import merge_config


def test_recursive_merge_and_collisions() -> None:
    original = {
        "a": 1,
        "b": {"x": 1, "y": {"p": 1, "q": 2}},
        "c": {"only": "orig"},
        "d": "scalar",
        "e": [1, 2],
        "f": {"gone": True},
    }
    overrides = {
        "b": {"y": {"q": 3, "r": 4}, "z": 5},
        "c": 7,  # dict replaced by scalar
        "d": {"now": "dict"},  # scalar replaced by dict
        "e": [3],  # lists are replaced, never concatenated
        "f": None,  # None value replaces a dict
        "g": {"new": 1},
    }
    assert merge_config(original, overrides) == {
        "a": 1,
        "b": {"x": 1, "y": {"p": 1, "q": 3, "r": 4}, "z": 5},
        "c": 7,
        "d": {"now": "dict"},
        "e": [3],
        "f": None,
        "g": {"new": 1},
    }


def test_none_value_in_original_replaced_by_dict() -> None:
    assert merge_config({"a": None}, {"a": {"b": 1}}) == {"a": {"b": 1}}
    assert merge_config({"a": {"b": 1}}, {"a": None}) == {"a": None}
    assert merge_config({"a": None}, {"a": None}) == {"a": None}


def test_list_of_dicts_is_not_merged() -> None:
    original = {"handlers": [{"a": 1}, {"b": 2}]}
    overrides = {"handlers": [{"c": 3}]}
    result = merge_config(original, overrides)
    assert result == {"handlers": [{"c": 3}]}
    assert result["handlers"] is overrides["handlers"]


def test_inputs_not_modified_at_any_depth() -> None:
    original = {"l1": {"l2": {"l3": {"l4": {"v": 1}}}}, "keep": {"k": [1]}}
    overrides = {"l1": {"l2": {"l3": {"l4": {"w": 2}, "n": 1}}}, "keep": {"j": 2}}
    original_snapshot = copy.deepcopy(original)
    overrides_snapshot = copy.deepcopy(overrides)
    result = merge_config(original, overrides)
    assert original == original_snapshot
    assert overrides == overrides_snapshot
    assert result == {
        "l1": {"l2": {"l3": {"l4": {"v": 1, "w": 2}, "n": 1}}},
        "keep": {"k": [1], "j": 2},
    }
    # Every dict on a merged path is a fresh object
    node: Any = result
    onode: Any = original
    vnode: Any = overrides
    for key in ("l1", "l2", "l3", "l4"):
        node, onode, vnode = node[key], onode[key], vnode[key]
        assert node is not onode
        assert node is not vnode

    # Mutating the result on the merged path leaves the inputs alone
    result["l1"]["l2"]["l3"]["l4"]["v"] = 99
    result["keep"]["new"] = 1
    assert original == original_snapshot
    assert overrides == overrides_snapshot


def test_unmerged_values_are_carried_over_by_reference() -> None:
    only_orig = {"x": 1}
    only_over = {"y": 2}
    scalar_side = {"z": 3}
    original = {"o": only_orig, "s": 5}
    overrides = {"v": only_over, "s": scalar_side}
    result = merge_config(original, overrides)
    assert result["o"] is only_orig
    assert result["v"] is only_over
    assert result["s"] is scalar_side


def test_dict_subclass_values_are_merged_into_plain_dicts() -> None:
    original = {"a": OrderedDict([("x", 1), ("y", 2)])}
    overrides = {"a": OrderedDict([("y", 3), ("z", 4)])}
    result = merge_config(original, overrides)
    assert result == {"a": {"x": 1, "y": 3, "z": 4}}
    assert type(result["a"]) is dict
    assert list(result["a"]) == ["x", "y", "z"]


def test_dotted_keys_are_ordinary_keys() -> None:
    original = {"a": {"b": 1}, "a.b": {"c": 1}}
    overrides = {"a.b": {"d": 2}, "a.b.c": 3, "x.y": {"z": 1}}
    assert merge_config(original, overrides) == {
        "a": {"b": 1},
        "a.b": {"c": 1, "d": 2},
        "a.b.c": 3,
        "x.y": {"z": 1},
    }
