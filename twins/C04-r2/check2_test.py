"""
Behaviour checks for refactoring 2 (guard clauses in Context.get_resource, walrus
swap in get_resource / get_resource_nowait).

Focus: which branch every lookup takes - existing resource, factory, optional miss,
hard miss - and what happens when the factory itself fails or is cancelled.
"""

from __future__ import annotations

from itertools import count
from typing import Optional

import anyio
import pytest
from anyio import create_task_group
from anyio.lowlevel import checkpoint

from asphalt.core import (
    AsyncResourceError,
    Context,
    ResourceNotFound,
    get_resource,
    get_resource_nowait,
    inject,
    resource,
)

pytestmark = pytest.mark.anyio()


@pytest.fixture
def anyio_backend() -> str:
    return "asyncio"


class Widget:
    def __init__(self, serial: int) -> None:
        self.serial = serial


class Gadget:
    pass


async def test_miss_paths_do_not_touch_factories() -> None:
    counter = count(1)
    async with Context() as ctx:
        ctx.add_resource_factory(lambda: Widget(next(counter)), types=[Widget])

        # Wrong name / wrong type: no factory is triggered
        assert await ctx.get_resource(Widget, "other", optional=True) is None
        assert ctx.get_resource_nowait(Widget, "other", optional=True) is None
        assert await ctx.get_resource(Gadget, optional=True) is None
        assert ctx.get_resource_nowait(Gadget, optional=True) is None
        with pytest.raises(ResourceNotFound) as exc:
            await ctx.get_resource(Widget, "other")

        assert exc.value.type is Widget
        assert exc.value.name == "other"
        with pytest.raises(ResourceNotFound) as exc:
            ctx.get_resource_nowait(Gadget)

        assert exc.value.type is Gadget
        assert exc.value.name == "default"
        with pytest.raises(ResourceNotFound):
            await get_resource(Gadget, "x")

        with pytest.raises(ResourceNotFound):
            get_resource_nowait(Widget, "x")

        assert ctx.get_resources(Widget) == {}
        assert next(counter) == 1  # the factory was never called

        # optional=True still triggers a matching factory
        generated = await ctx.get_resource(Widget, optional=True)
        assert generated.serial == 2
        assert ctx.get_resource_nowait(Widget, optional=True) is generated
        assert await ctx.get_resource(Widget, optional=False) is generated


@pytest.mark.parametrize("api", ["nowait", "async"])
async def test_falsy_generated_resources_are_singletons(api: str) -> None:
    """A generated resource which is falsy must still be found again."""
    calls = []

    def factory() -> list:
        calls.append(None)
        return []

    async with Context() as ctx:
        ctx.add_resource_factory(factory, types=[list])
        if api == "nowait":
            first = ctx.get_resource_nowait(list)
        else:
            first = await ctx.get_resource(list)

        assert first == []
        assert await ctx.get_resource(list) is first
        assert ctx.get_resource_nowait(list) is first
        assert await ctx.get_resource(list, optional=True) is first
        assert len(calls) == 1


@pytest.mark.parametrize("api", ["nowait", "async"])
async def test_failing_sync_factory_registers_nothing(api: str) -> None:
    attempts = count(1)

    def factory() -> Widget:
        serial = next(attempts)
        if serial == 1:
            raise LookupError("first attempt fails")

        return Widget(serial)

    async with Context() as ctx:
        ctx.add_resource_factory(factory, types=[Widget, object])
        with pytest.raises(LookupError, match="first attempt fails"):
            if api == "nowait":
                ctx.get_resource_nowait(Widget)
            else:
                await ctx.get_resource(Widget)

        assert ctx.get_resources(Widget) == {}
        assert ctx.get_resources(object) == {}
        if api == "nowait":
            generated = ctx.get_resource_nowait(object)
        else:
            generated = await ctx.get_resource(object)

        assert generated.serial == 2
        assert ctx.get_resource_nowait(Widget) is generated
        assert await ctx.get_resource(Widget) is generated


async def test_failing_and_cancelled_async_factory_registers_nothing() -> None:
    attempts = count(1)
    started = anyio.Event()

    async def factory() -> Widget:
        serial = next(attempts)
        if serial == 1:
            await checkpoint()
            raise LookupError("first attempt fails")
        elif serial == 2:
            started.set()
            await anyio.sleep_forever()

        await checkpoint()
        return Widget(serial)

    async with Context() as ctx:
        ctx.add_resource_factory(factory, types=[Widget])
        with pytest.raises(LookupError, match="first attempt fails"):
            await ctx.get_resource(Widget)

        assert ctx.get_resources(Widget) == {}

        async with create_task_group() as tg:
            tg.start_soon(ctx.get_resource, Widget)
            await started.wait()
            tg.cancel_scope.cancel()

        assert ctx.get_resources(Widget) == {}
        with pytest.raises(AsyncResourceError):
            ctx.get_resource_nowait(Widget)

        # The coroutine made by the call above was closed without ever being started
        assert ctx.get_resources(Widget) == {}
        generated = await ctx.get_resource(Widget)
        assert generated.serial == 3
        assert ctx.get_resource_nowait(Widget) is generated


async def test_sync_factory_returning_awaitable_is_awaited_by_async_api() -> None:
    """get_resource() awaits whatever awaitable a plain function factory returns."""
    counter = count(1)

    async def make() -> Widget:
        await checkpoint()
        return Widget(next(counter))

    def factory() -> Widget:
        return make()  # type: ignore[return-value]

    async with Context() as ctx:
        ctx.add_resource_factory(factory)
        with pytest.raises(AsyncResourceError):
            ctx.get_resource_nowait(Widget)

        assert ctx.get_resources(Widget) == {}
        generated = await ctx.get_resource(Widget)
        assert isinstance(generated, Widget)
        assert ctx.get_resource_nowait(Widget) is generated
        async with Context() as child:
            assert child.get_resources(Widget) == {}
            in_child = await child.get_resource(Widget)
            assert in_child is not generated
            assert child.get_resource_nowait(Widget) is in_child
            assert ctx.get_resource_nowait(Widget) is generated


async def test_regular_resource_shadows_factory_and_is_inherited() -> None:
    counter = count(1)
    fixed = Widget(0)
    async with Context() as parent:
        parent.add_resource_factory(lambda: Widget(next(counter)), types=[Widget])
        async with Context() as child:
            child.add_resource(fixed)
            assert await child.get_resource(Widget) is fixed
            assert child.get_resource_nowait(Widget) is fixed
            async with Context() as grandchild:
                # Regular resources are inherited, so no generation happens here
                assert await grandchild.get_resource(Widget) is fixed
                assert grandchild.get_resource_nowait(Widget) is fixed

        assert next(counter) == 1
        in_parent = parent.get_resource_nowait(Widget)
        assert in_parent.serial == 2
        assert await parent.get_resource(Widget) is in_parent


async def test_inject_optional_and_required() -> None:
    counter = count(1)

    @inject
    async def async_func(
        widget: Widget = resource(),
        gadget: Optional[Gadget] = resource(),  # noqa: UP007
    ):
        return widget, gadget

    @inject
    def sync_func(
        widget: Optional[Widget] = resource(),  # noqa: UP007
        gadget: Gadget = resource(),
    ):
        return widget, gadget

    async with Context() as ctx:
        ctx.add_resource_factory(lambda: Widget(next(counter)), types=[Widget])
        widget, gadget = await async_func()
        assert widget.serial == 1
        assert gadget is None
        with pytest.raises(ResourceNotFound):
            sync_func()

        ctx.add_resource_factory(Gadget, types=[Gadget])
        widget2, gadget2 = sync_func()
        assert widget2 is widget
        assert isinstance(gadget2, Gadget)
        assert await async_func() == (widget, gadget2)
        async with Context():
            widget3, gadget3 = sync_func()
            assert widget3.serial == 2
            assert gadget3 is not gadget2
            assert await async_func() == (widget3, gadget3)
