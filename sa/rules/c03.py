"""C03 - one resource per (type, name) per context; failed adds change nothing."""
from __future__ import annotations

import ast

from ..cfg import CFG, Node, iter_own
from ..effects import access_path
from ..loader import exc_expr, AnalysisError, FuncInfo, dotted, walk_own
from .discharge import undischarged_raises
from .common import Anchors, call_name, def_use_closure, names_in, self_attr
from .tables import (
    enclosing_loops,
    expand_alias,
    loop_var_source,
    membership_tests,
    norm,
    store_key,
    table_mutations,
)

PURE_DETERMINISTIC = {"typing.get_type_hints", "inspect.signature"}


# ----------------------------------------------------------------------------- effects
class Effects:
    """Which package functions change context state (tables, teardown stack) or dispatch."""

    def __init__(self, ctx):
        self.ctx = ctx
        self.a = ctx.a
        self.an = Anchors(ctx.a)
        self._memo: dict = {}

    def state_attrs(self) -> set:
        return {self.an.resource_table, self.an.factory_table, self.an.teardown_stack}

    def is_dispatch(self, func: FuncInfo, call: ast.Call) -> bool:
        return any(call is c for c in self.an.dispatch_calls(func))

    def direct_effects(self, f: FuncInfo, cfg: CFG, n: Node) -> list:
        out = []
        for m in self.a.node_mutations(f, cfg, n):
            for path in expand_alias(f, m.path):
                if len(path) >= 2 and path[-1] in self.state_attrs():
                    out.append(f"{m.kind} on {'.'.join(path)}")
                    break
        for call, c in self.a.node_calls(f, cfg, n):
            if self.is_dispatch(f, call):
                out.append("dispatch")
        return out

    def effectful(self, f: FuncInfo) -> bool:
        key = id(f)
        if key in self._memo:
            return self._memo[key]
        self._memo[key] = False
        cfg = self.a.cfg(f)
        res = False
        for n in cfg.live_nodes():
            if self.direct_effects(f, cfg, n):
                res = True
                break
            for call, c in self.a.node_calls(f, cfg, n):
                if c.kind == "func" and not c.func.is_lambda and self.effectful(c.func):
                    res = True
                    break
            if res:
                break
        self._memo[key] = res
        return res

    def node_effects(self, f: FuncInfo, cfg: CFG, n: Node) -> list:
        out = self.direct_effects(f, cfg, n)
        for call, c in self.a.node_calls(f, cfg, n):
            if c.kind == "func" and not c.func.is_lambda and not self.is_dispatch(f, call) and self.effectful(c.func):
                out.append(f"call {c.func.qualname} (changes context state)")
        return out


def dispatch_side_obligations(ctx, an: Anchors, f: FuncInfo, call: ast.Call) -> list:
    """Reasons why this dispatch call could raise (empty = proven non-raising here, given C10.R1)."""
    problems = []
    recv = call.func.value if isinstance(call.func, ast.Attribute) else None
    if recv is None or not (isinstance(recv, ast.Attribute) and recv.attr == an.signal_attr):
        problems.append("receiver is not an instance attribute access of the declared signal")
    if len(call.args) != 1:
        problems.append("dispatch argument count")
    else:
        from .common import defining_call

        arg = defining_call(ctx.a, f, call.args[0], call) or call.args[0]
        ok = False
        if isinstance(arg, ast.Call):
            c = ctx.a.callee(f, arg)
            if c.kind == "class" and ctx.p.is_subclass(c.cls, an.event_class.name):
                ok = True
        if not ok:
            problems.append("event argument is not a direct construction of the signal's event class")
    return problems


def node_raise_reasons(ctx, eff: Effects, f: FuncInfo, cfg: CFG, n: Node, delegate: FuncInfo | None = None, delegate_call: ast.Call | None = None) -> list:
    a = ctx.a
    an = eff.an
    reasons = []
    if n.kind == "stmt" and isinstance(n.ast, ast.Raise):
        return ["explicit raise"]
    if n.kind in ("with_enter", "with_exit", "for_next"):
        return a.node_may_raise(f, cfg, n)
    root = cfg.own_ast(n)
    if root is None:
        return []
    if n.kind == "stmt" and isinstance(n.ast, ast.Assert):
        return ["assert"]
    from ..cfg import eval_order

    for e in eval_order(root):
        if isinstance(e, ast.Call):
            if eff.is_dispatch(f, e):
                reasons += [f"dispatch: {p}" for p in dispatch_side_obligations(ctx, an, f, e)]
                continue
            c = a.callee(f, e)
            if c.kind == "ext" and c.name in PURE_DETERMINISTIC and delegate is not None and _dominated_identical_pure_call(ctx, f, e, delegate, delegate_call):
                continue
            base = a.call_may_raise(f, e)
            if base and c.kind == "func" and not c.func.is_lambda:
                # drop raise sites of the callee that the caller has already ruled out
                rest = undischarged_raises(ctx, f, cfg, n, e, c.func, guard=an.guard)
                reasons += [f"call {c.func.qualname}: {rest[0]}"] if rest else []
            else:
                reasons += base
        elif isinstance(e, ast.Await):
            reasons.append("await may raise")
        elif isinstance(e, ast.Subscript) and isinstance(e.ctx, ast.Load):
            if _subscript_safe(ctx, f, e, delegate, delegate_call):
                continue
            reasons.append(f"subscript {ast.unparse(e)} may raise")
    return reasons


def _str_valued(func: FuncInfo, expr, depth=3) -> bool:
    if isinstance(expr, ast.JoinedStr):
        return True
    if isinstance(expr, ast.Constant) and isinstance(expr.value, str) and expr.value:
        return True
    if isinstance(expr, ast.IfExp):
        return _str_valued(func, expr.body, depth) and _str_valued(func, expr.orelse, depth)
    if isinstance(expr, ast.BinOp) and isinstance(expr.op, ast.Add):
        return _str_valued(func, expr.left, depth) or _str_valued(func, expr.right, depth)
    return False


def _subscript_safe(ctx, f: FuncInfo, e: ast.Subscript, delegate, delegate_call) -> bool:
    if ctx.a._subscript_safe(f, e):
        return True
    from .common import find_assign_sources

    if isinstance(e.value, ast.Name):
        srcs = find_assign_sources(f, e.value.id)
        if srcs and all(_str_valued(f, s) for s in srcs) and e.value.id not in f.params:
            return True
    # X(...)["k"] where the identical pure call with the same key succeeded in the delegate
    if isinstance(e.value, ast.Call) and delegate is not None:
        c = ctx.a.callee(f, e.value)
        if c.kind == "ext" and c.name in PURE_DETERMINISTIC and isinstance(e.slice, ast.Constant):
            if _dominated_identical_pure_call(ctx, f, e.value, delegate, delegate_call, key=e.slice.value):
                return True
    return False


def _dominated_identical_pure_call(ctx, f: FuncInfo, call: ast.Call, delegate: FuncInfo, delegate_call: ast.Call, key=None) -> bool:
    """``call`` (a pure, deterministic external applied to one of f's names) was already
    evaluated successfully, on the same argument, inside the delegate that ran before."""
    a = ctx.a
    c = a.callee(f, call)
    if len(call.args) != 1 or not isinstance(call.args[0], ast.Name):
        return False
    actual = call.args[0].id
    # which delegate parameter receives `actual`?
    dparams = [x.arg for x in delegate.node.args.posonlyargs + delegate.node.args.args]
    if dparams and dparams[0] == "self":
        dparams = dparams[1:]
    mapped = None
    for i, arg in enumerate(delegate_call.args):
        if isinstance(arg, ast.Name) and arg.id == actual and i < len(dparams):
            mapped = dparams[i]
    for kw in delegate_call.keywords:
        if isinstance(kw.value, ast.Name) and kw.value.id == actual and kw.arg:
            mapped = kw.arg
    if mapped is None:
        return False
    for dc, dcal in a.func_calls(delegate):
        if dcal.kind == "ext" and dcal.name == c.name and len(dc.args) == 1 and isinstance(dc.args[0], ast.Name) and dc.args[0].id == mapped:
            if key is None:
                return True
            # the same key must be read from its result in the delegate
            for n in walk_own(delegate.node):
                if isinstance(n, ast.Subscript) and isinstance(n.slice, ast.Constant) and n.slice.value == key:
                    clo = def_use_closure(delegate, n.value)
                    if mapped in clo:
                        return True
    return False


def atomicity(ctx, eff: Effects, f: FuncInfo, delegate=None, delegate_call=None) -> tuple:
    """-> (pairs, effect_nodes, raising_nodes): pairs = [(effect node, raising node, effect, reason)]"""
    a = ctx.a
    cfg = a.cfg(f)
    raise_of = {n.id: node_raise_reasons(ctx, eff, f, cfg, n, delegate, delegate_call) for n in cfg.live_nodes()}
    effect_of = {n.id: eff.node_effects(f, cfg, n) for n in cfg.live_nodes()}

    def edge_ok(src: Node, dst: int, lab: str) -> bool:
        if lab == "e":
            return bool(raise_of.get(src.id))
        return True

    pairs = []
    for n in cfg.live_nodes():
        if not effect_of[n.id]:
            continue
        after = cfg.reach([d for d, lab in n.succ if lab != "e"], edge_ok=edge_ok)
        for rid in sorted(after):
            if raise_of.get(rid):
                pairs.append((n, cfg.nodes[rid], effect_of[n.id][0], raise_of[rid][0]))
    return pairs, [n for n in cfg.live_nodes() if effect_of[n.id]], [n for n in cfg.live_nodes() if raise_of[n.id]]


# ----------------------------------------------------------------------------- rules
def rule_r1(ctx, an: Anchors, eff: Effects) -> None:
    rep = ctx.rep
    # add_teardown_callback is the step of add_resource that schedules the callback: it must be
    # atomic itself (validate first, append afterwards)
    targets = [(an.ctx_method("add_resource"), None, None), (an.ctx_method("add_resource_factory"), None, None), (an.ctx_method("add_teardown_callback"), None, None)]
    # the component-context wrappers
    for name in ("add_resource", "add_resource_factory"):
        w = an.ComponentContext.methods.get(name)
        if w is None:
            continue
        dcall = None
        for call, c in ctx.a.func_calls(w):
            if c.kind == "func" and c.func is an.ctx_method(name):
                dcall = call
        if dcall is None:
            rep.unrecognised("C03.R1", w, w.node, f"wrapper does not call Context.{name}")
            continue
        targets.append((w, an.ctx_method(name), dcall))
    n_funcs = 0
    for f, delegate, dcall in targets:
        n_funcs += 1
        pairs, effs, raisers = atomicity(ctx, eff, f, delegate, dcall)
        if not effs:
            rep.unrecognised("C03.R1", f, f.node, "no state-changing node found in a registration method")
            continue
        seen = set()
        for en, rn, effect, reason in pairs:
            key = (id(rn.ast), )
            if key in seen:
                continue
            seen.add(key)
            node = rn.ast if isinstance(rn.ast, ast.AST) else f.node
            rep.violate(
                "C03.R1",
                f,
                node,
                f"may raise ({reason}) after the context was already changed ({effect} at {f.loc(en.ast if isinstance(en.ast, ast.AST) else None)}): a failed call leaves partial state",
                path=[f"{f.loc(en.ast if isinstance(en.ast, ast.AST) else None)} effect: {effect}", f"{f.loc(node)} may raise: {reason}"],
            )
        if not pairs:
            rep.hold("C03.R1", f, f.node, f"no may-raise node reachable after any of {len(effs)} state-changing nodes ({len(raisers)} may-raise nodes all precede them)")
        # dispatch side obligations are recorded as instances of their own
        for call in an.dispatch_calls(f):
            probs = dispatch_side_obligations(ctx, an, f, call)
            if probs:
                rep.violate("C03.R1", f, call, "dispatch may raise after insertion: " + "; ".join(probs))
            else:
                rep.hold("C03.R1", f, call, "dispatch cannot raise here: receiver is the bound instance signal and the argument is a direct construction of its event class")
    rep.floor("C03.R1", n_funcs, 4)
    rep.assume("Signal.dispatch does not raise because of any subscriber's state (decided by C10.R1)")
    rep.assume("warnings.warn / logger calls do not raise (no -W error filter for SignalQueueFull)")


def _conflict_checks(ctx, an: Anchors, f: FuncInfo, table: str) -> list:
    """[(compare, key_expr, loops, raise_stmt)] membership tests on the table that lead to ResourceConflict."""
    out = []
    for cmp_, key, negated, recv in membership_tests(f, table):
        if dotted(recv) != "self":
            continue
        loops = enclosing_loops(f, cmp_)
        out.append((cmp_, key, negated, loops))
    return out


def rule_r2(ctx, an: Anchors) -> None:
    rep = ctx.rep
    a = ctx.a
    count = 0
    for method, table in (("add_resource", an.resource_table), ("add_resource_factory", an.factory_table)):
        f = an.ctx_method(method)
        cfg = a.cfg(f)
        stores = [(n, m) for n, m in a.func_mutations(f) if len(m.path) == 2 and m.path == ("self", table) and m.depth_key]
        if not stores:
            rep.unrecognised("C03.R2", f, f.node, f"no store into self.{table}")
            continue
        checks = _conflict_checks(ctx, an, f, table)
        # a key held in a local that is bound once to a tuple (`key = (t, name)`) is that tuple
        def _key_tuple(k):
            if isinstance(k, ast.Name):
                defs = [x.value for x in walk_own(f.node) if isinstance(x, ast.Assign) and len(x.targets) == 1 and isinstance(x.targets[0], ast.Name) and x.targets[0].id == k.id]
                stores_k = sum(1 for x in walk_own(f.node) if isinstance(x, ast.Name) and x.id == k.id and isinstance(x.ctx, (ast.Store, ast.Del)))
                if len(defs) == 1 and stores_k == 1 and isinstance(defs[0], ast.Tuple):
                    return defs[0]
            return k

        checks = [(cmp_, _key_tuple(ckey), negated, cloops) for cmp_, ckey, negated, cloops in checks]
        # raise ResourceConflict statements
        raises = [n for n in cfg.live_nodes() if n.kind == "stmt" and isinstance(n.ast, ast.Raise) and n.ast.exc is not None and "ResourceConflict" in ast.unparse(exc_expr(n.ast))]
        if not checks or not raises:
            rep.violate("C03.R2", f, f.node, f"no membership test on self.{table} that raises ResourceConflict before inserting")
            continue
        for sn, m in stores:
            count += 1
            key = store_key(m)
            sloops = enclosing_loops(f, m.node)
            if not (isinstance(key, ast.Tuple) and len(key.elts) == 2):
                rep.unrecognised("C03.R2", f, m.node, f"store key {norm(key)} is not a (type, name) tuple")
                continue
            s_type, s_name = key.elts
            s_iter = loop_var_source(sloops, s_type.id) if isinstance(s_type, ast.Name) else None
            ok = False
            why = "no conflict check matches this insertion"
            for cmp_, ckey, negated, cloops in checks:
                if not (isinstance(ckey, ast.Tuple) and len(ckey.elts) == 2):
                    continue
                c_type, c_name = ckey.elts
                if norm(c_name) != norm(s_name):
                    why = f"conflict check uses name {norm(c_name)} but the insertion uses {norm(s_name)}"
                    continue
                c_iter = loop_var_source(cloops, c_type.id) if isinstance(c_type, ast.Name) else None
                if s_iter is None:
                    # single-key insertion: the check must test the same key expression
                    if norm(c_type) == norm(s_type):
                        ok = True
                    else:
                        why = f"check tests {norm(ckey)} but the insertion writes {norm(key)}"
                        continue
                else:
                    if c_iter is None:
                        why = f"conflict check tests only {norm(ckey)}, not every key of {norm(s_iter)}"
                        continue
                    if norm(c_iter) != norm(s_iter):
                        why = f"conflict check iterates {norm(c_iter)} but the insertion iterates {norm(s_iter)}"
                        continue
                    ok = True
                # the whole check must complete before the first insertion: remove the raise
                # nodes' guarding loop exit and see whether the store is reachable while a check is pending
                cnodes = cfg.nodes_containing(cmp_)
                tnodes = list(cnodes)
                outer_for = [l for l in cloops if isinstance(l[2], (ast.For, ast.AsyncFor))]
                if outer_for:
                    # the check is a loop: its head stands for "the whole check ran"
                    cnodes = [x for x in cfg.live_nodes() if x.kind == "for_next" and x.ast is outer_for[0][2]]
                if not cnodes:
                    ok = False
                    why = "conflict check is not on any path"
                    continue
                # every path entry -> store passes a check node; and no path store -> check
                if not cfg.all_paths_pass(cfg.entry, [sn.id], [c.id for c in cnodes]):
                    ok = False
                    why = "an insertion is reachable without passing the conflict check"
                    continue
                back = cfg.reach([d for d, lab in sn.succ if lab != "e"])
                if any(c.id in back for c in cnodes):
                    ok = False
                    why = "a conflict check can still run (and raise) after an insertion already happened"
                    continue
                # the raise must be controlled by the check
                if not any(_controls(cfg, tnodes, r) for r in raises):
                    ok = False
                    why = "the membership test does not lead to raise ResourceConflict"
                    continue
                if ok:
                    break
            rep.check("C03.R2", ok, f, m.node, f"every inserted key of self.{table} is conflict-checked (same tuple, same name) before the first insertion", why)
    rep.floor("C03.R2", count, 2)


def _controls(cfg: CFG, test_nodes: list, raise_node: Node) -> bool:
    for t in test_nodes:
        for d, lab in t.succ:
            if lab in ("t", "f", "n"):
                if raise_node.id in cfg.reach([d], avoid=[t.id]):
                    # reachable from one outcome; require not from all outcomes equally
                    others = [d2 for d2, l2 in t.succ if d2 != d and l2 in ("t", "f")]
                    if not others or any(raise_node.id not in cfg.reach([o], avoid=[t.id]) for o in others):
                        return True
    return False


def guarded_store(ctx, f: FuncInfo, cfg: CFG, sn: Node, m, table: str) -> bool:
    """The store is control-dependent on ``key not in self.<table>`` for its own key."""
    key = store_key(m)
    for cmp_, ckey, negated, recv in membership_tests(f, table):
        if norm(ckey) != norm(key):
            continue
        for tn in cfg.nodes_containing(cmp_):
            if tn.kind != "test":
                continue
            want = "t" if negated else "f"
            if isinstance(tn.ast, ast.UnaryOp) and isinstance(tn.ast.op, ast.Not):
                want = "f" if negated else "t"
            good = [d for d, lab in tn.succ if lab == want]
            bad = [d for d, lab in tn.succ if lab in ("t", "f") and lab != want]
            if good and sn.id in cfg.reach(good, avoid=[tn.id]) and not (bad and sn.id in cfg.reach(bad, avoid=[tn.id])):
                return True
    return False


def rule_r3(ctx, an: Anchors) -> None:
    rep = ctx.rep
    a = ctx.a
    count = 0
    for table, adder in ((an.resource_table, "add_resource"), (an.factory_table, "add_resource_factory")):
        for f, n, m, recv in table_mutations(a, table):
            if m.kind not in ("store", "aug", "call:update", "call:__setitem__", "call:setdefault"):
                continue
            if f in an.init_closure:
                continue
            count += 1
            if m.kind == "call:setdefault":
                rep.hold("C03.R3", f, m.node, f"setdefault never replaces an occupied key of {table}")
                continue
            if f is an.ctx_method(adder):
                rep.hold("C03.R3", f, m.node, "insertion is dominated by the conflict check (C03.R2)", nontrivial=True)
                continue
            cfg = a.cfg(f)
            if m.kind == "store" and guarded_store(ctx, f, cfg, n, m, table):
                rep.hold("C03.R3", f, m.node, "store is guarded by a not-in test on its own key")
                continue
            rep.violate(
                "C03.R3",
                f,
                m.node,
                f"unconditional store into {'.'.join(recv)}.{table}: replaces a resource already registered (and possibly handed out) under that key",
            )
    rep.floor("C03.R3", count, 3)


def rule_r4(ctx, an: Anchors) -> None:
    rep = ctx.rep
    a = ctx.a
    bad = 0
    sites = 0
    for table in (an.resource_table, an.factory_table):
        for f, n, m, recv in table_mutations(a, table):
            sites += 1
            removing = m.kind in ("del", "call:pop", "call:clear", "call:popitem", "call:remove", "call:discard")
            rebinding = m.kind == "rebind" and f not in an.init_closure
            if removing or rebinding:
                bad += 1
                rep.violate("C03.R4", f, m.node, f"{m.kind} on {'.'.join(recv)}.{table}: a registered resource can disappear or the table be replaced after construction")
    if not bad:
        rep.hold("C03.R4", an.ctx_method("add_resource"), None, f"none of the {sites} write sites of the two tables removes an entry or rebinds the table outside Context.__init__")
    rep.floor("C03.R4", sites, 6)
    # what is registered is immutable from the outside: the `types` kept in the stored record
    # (they decide under which pairs a generated resource is bound later) are the method's own
    # tuple, never the caller's sequence
    from .common import find_assign_sources

    for fname, cls in (("add_resource", an.container_class), ("add_resource_factory", an.factory_class)):
        f = an.ctx_method(fname)
        fields = an.dataclass_fields(cls)
        if "types" not in fields:
            continue
        idx = fields.index("types")
        for call, c in a.func_calls(f):
            if c.kind == "class" and c.cls is cls:
                arg = call.args[idx] if len(call.args) > idx else next((k.value for k in call.keywords if k.arg == "types"), None)
                if arg is None:
                    continue
                vals = [arg]
                if isinstance(arg, ast.Name):
                    vals = find_assign_sources(f, arg.id) or [arg]
                borrowed = [v for v in vals if (isinstance(v, ast.Name) and v.id in f.params) or isinstance(v, ast.Attribute)]
                rep.check("C03.R4", not borrowed, f, call, f"{fname} keeps its own tuple of types in the stored record", f"{fname} stores the caller's `{ast.unparse(borrowed[0]) if borrowed else ''}` object in the registered record: mutating that list afterwards changes under which (type, name) pairs the resource is found / generated, so repeated lookups of a pair no longer return the same object")


def generation_windows(ctx, an: Anchors) -> list:
    """For each lookup method that stores into the resource table: (func, cfg, miss_nodes, store_nodes)."""
    a = ctx.a
    out = []
    for name in ("get_resource_nowait", "get_resource"):
        f = an.ctx_method(name)
        cfg = a.cfg(f)
        stores = [n for n, m in a.func_mutations(f) if any(p[-1] == an.resource_table and len(p) >= 2 for p in expand_alias(f, m.path)) and m.kind != "rebind"]
        from .tables import node_reads_table

        reads = [n for n in cfg.live_nodes() if n not in stores and node_reads_table(a, an, f, cfg, n, an.resource_table)]
        out.append((f, cfg, reads, stores))
    return out


def rule_r5(ctx, an: Anchors, rule: str = "C03.R5") -> None:
    rep = ctx.rep
    a = ctx.a
    count = 0
    for f, cfg, reads, stores in generation_windows(ctx, an):
        if not stores:
            rep.unrecognised(rule, f, f.node, "lookup method has no generation store")
            continue
        if not reads:
            rep.unrecognised(rule, f, f.node, "lookup method never reads the resource table before generating")
            continue
        count += 1
        # last table read dominating the stores = the miss
        between = cfg.between([r.id for r in reads], [s.id for s in stores])
        cps = []
        for nid in sorted(between | {s.id for s in stores}):
            n = cfg.nodes[nid]
            # a re-check after the checkpoint closes the window again
            for reason in a.node_checkpoints(f, cfg, n):
                # is there a table read between this checkpoint and the store on every path?
                later_reads = [r.id for r in reads if r.id in cfg.reach([d for d, lab in n.succ if lab != "e"])]
                if later_reads and cfg.all_paths_pass(nid, [s.id for s in stores], later_reads) and nid not in later_reads:
                    continue
                cps.append((n, reason))
        seen_nodes = set()
        for n, reason in cps:
            if n.id in seen_nodes:
                continue
            seen_nodes.add(n.id)
            node = n.ast if isinstance(n.ast, ast.AST) else f.node
            rep.violate(
                rule,
                f,
                node,
                f"checkpoint ({reason}) between the miss on the resource table and the store of the generated resource: "
                "a concurrent lookup can pass the same miss, call the factory again and replace/duplicate the value",
                path=cfg.describe_path([reads[0].id, n.id, stores[0].id]),
            )
        if cps:
            pass
        else:
            rep.hold(rule, f, f.node, f"no checkpoint on any path from the table miss to the generation store ({len(between)} nodes inspected)")
    rep.floor(rule, count, 2)


def run(ctx) -> None:
    an = Anchors(ctx.a)
    eff = Effects(ctx)
    rule_r1(ctx, an, eff)
    rule_r2(ctx, an)
    rule_r3(ctx, an)
    from . import c04

    gs = c04.GenBranch(ctx, an, an.ctx_method("get_resource_nowait"))
    ga = c04.GenBranch(ctx, an, an.ctx_method("get_resource"))
    if gs.ok and ga.ok:
        c04.rule_stored_before_return(ctx, an, gs, ga, "C03.R3")
    else:
        ctx.rep.unrecognised("C03.R3", gs.f, gs.f.node, "generation branch not recognised")
    from . import c18

    c18.hit_test_rule(ctx, an, "C03.R3")
    rule_r4(ctx, an)
    rule_r5(ctx, an)
    # the conflict checks look at the context's OWN tables: they see every inherited factory /
    # resource only because the tables are complete snapshots and lookups never consult another
    # context (C02.R1 / C02.R3)
    from .common import include_rules

    include_rules(ctx, "c02", "C03.R4", only=("C02.R1", "C02.R3"))
