"""
Behaviour check for refactoring 2 (control-flow restructuring of
Context.get_resource(): plain assignment instead of walrus, dict.get() instead of
``in`` + indexing, early exit for the "nothing found" case).

Exercises, through the public API only: lookup of already published resources
(including falsy ones), sync/async factory products, precedence of a resource over a
factory, optional lookups and lookups outside component startup never waiting, and the
waiting path returning the published object / the factory product.
"""

from __future__ import annotations

import pytest
from anyio import fail_after, move_on_after, wait_all_tasks_blocked

from asphalt.core import (
    Component,
    Context,
    ResourceEvent,
    ResourceNotFound,
    add_resource,
    add_resource_factory,
    current_context,
    get_resource,
    get_resource_nowait,
    start_component,
)

pytestmark = pytest.mark.anyio()


class Product:
    pass


async def test_outside_startup_never_waits() -> None:
    async with Context() as ctx:
        # Nothing published: ResourceNotFound / None at once, with no checkpoint at all
        # (an already expired cancel scope would otherwise cancel the call)
        with move_on_after(0) as scope:
            with pytest.raises(ResourceNotFound) as exc_info:
                await get_resource(int, "missing")

            assert exc_info.value.type is int
            assert exc_info.value.name == "missing"
            assert str(exc_info.value) == (
                "no matching resource was found for type=int name='missing'"
            )
            assert await get_resource(int, "missing", optional=True) is None
            with pytest.raises(ResourceNotFound):
                await ctx.get_resource(str)

        assert not scope.cancelled_caught

        # Falsy resources are found, not mistaken for "missing"
        add_resource(0, "zero")
        add_resource("", "empty")
        add_resource([], "nolist", types=[list])
        assert await get_resource(int, "zero") == 0
        assert await get_resource(str, "empty", optional=True) == ""
        assert await get_resource(list, "nolist") == []

        # Other type / other name still missing
        with pytest.raises(ResourceNotFound):
            await get_resource(str, "zero")

        with pytest.raises(ResourceNotFound):
            await get_resource(int)

        assert await get_resource(int, optional=True) is None


async def test_factories_sync_async_cached_and_events() -> None:
    calls: list[str] = []
    events: list[ResourceEvent] = []

    def sync_factory() -> Product:
        calls.append("sync")
        return Product()

    async def async_factory() -> int | float:
        calls.append("async")
        await wait_all_tasks_blocked()
        return 42

    async with Context() as ctx:
        add_resource_factory(sync_factory, "p")
        add_resource_factory(async_factory, "n", description="numbers")
        async with ctx.resource_added.stream_events() as stream:
            first = await get_resource(Product, "p")
            assert isinstance(first, Product)
            assert await get_resource(Product, "p", optional=True) is first
            assert get_resource_nowait(Product, "p") is first
            assert calls == ["sync"]

            with fail_after(3):
                assert await get_resource(float, "n", optional=True) == 42

            # Generated once, registered under both types of the factory
            assert await get_resource(int, "n") == 42
            assert calls == ["sync", "async"]

            # A factory exists only for the names it was registered under
            with pytest.raises(ResourceNotFound):
                await get_resource(Product, "n")

            assert await get_resource(Product, optional=True) is None

            add_resource("sentinel")
            with fail_after(3):
                async for event in stream:
                    if event.resource_types == (str,):
                        break

                    events.append(event)

        assert [
            (e.resource_types, e.resource_name, e.resource_description, e.is_factory)
            for e in events
        ] == [
            ((Product,), "p", None, False),
            ((int, float), "n", "numbers", False),
        ]

        # Generated resources are bound to the context where they were requested
        async with Context():
            second = await get_resource(Product, "p")
            assert isinstance(second, Product)
            assert second is not first

        assert calls == ["sync", "async", "sync"]


async def test_resource_takes_precedence_over_factory() -> None:
    calls: list[str] = []

    def factory() -> str:
        calls.append("factory")
        return "generated"

    async with Context():
        add_resource_factory(factory, "x", types=[str, bytes])
        add_resource("static", "x")
        assert await get_resource(str, "x") == "static"
        assert calls == []

        # The other type of the factory is still generated, without replacing the
        # static resource
        assert await get_resource(bytes, "x") == "generated"
        assert await get_resource(str, "x") == "static"
        assert calls == ["factory"]


async def test_startup_optional_never_waits_and_waiter_gets_published_object() -> None:
    class Thing:
        pass

    thing = Thing()
    results: dict[str, object] = {}
    calls: list[str] = []

    async def thing_factory() -> bytes:
        calls.append("factory")
        return b"made"

    class Parent(Component):
        def __init__(self) -> None:
            self.add_component("early", Early)
            self.add_component("waiter", Waiter)
            self.add_component("factory_waiter", FactoryWaiter)
            self.add_component("publisher", Publisher)

        async def prepare(self) -> None:
            # Published before any request
            add_resource("early bird", "early")

    class Early(Component):
        async def start(self) -> None:
            with move_on_after(0) as scope:
                results["early"] = await get_resource(str, "early")
                results["optional"] = await get_resource(
                    Thing, "thing", optional=True
                )
                results["optional_default"] = await current_context().get_resource(
                    Thing, optional=True
                )

            assert not scope.cancelled_caught

    class Waiter(Component):
        async def start(self) -> None:
            with fail_after(3):
                results["waited"] = await get_resource(Thing, "thing")

    class FactoryWaiter(Component):
        async def start(self) -> None:
            with fail_after(3):
                results["factory"] = await get_resource(bytes, "thing")

    class Publisher(Component):
        async def start(self) -> None:
            await wait_all_tasks_blocked()
            assert "waited" not in results
            add_resource_factory(thing_factory, "thing")
            add_resource(thing, "thing")

    async with Context():
        await start_component(Parent, timeout=5)
        # After startup: no waiting any more
        with move_on_after(0) as scope:
            with pytest.raises(ResourceNotFound):
                await get_resource(Thing, "nothing")

        assert not scope.cancelled_caught

    assert results == {
        "early": "early bird",
        "optional": None,
        "optional_default": None,
        "waited": thing,
        "factory": b"made",
    }
    assert results["waited"] is thing
    assert calls == ["factory"]
