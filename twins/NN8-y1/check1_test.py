"""
Behaviour checks for refactoring 1 (local aliases in ``Component.add_component()`` and
in the child loop of ``_init_component()``).

Everything is exercised through the public API only (``Component``,
``start_component``, ``Context``, resource functions).
"""

from __future__ import annotations

import logging
import sys
from typing import Any
from unittest.mock import Mock

import pytest
from pytest import LogCaptureFixture, MonkeyPatch

from asphalt.core import (
    Component,
    ComponentStartError,
    Context,
    add_resource,
    add_resource_factory,
    get_resource_nowait,
    start_component,
)
from asphalt.core._component import component_types

if sys.version_info >= (3, 10):
    from importlib.metadata import EntryPoint
else:
    from importlib_metadata import EntryPoint

pytestmark = pytest.mark.anyio()

created: list[tuple[str, dict[str, Any]]] = []


class Recorder(Component):
    """Records its construction and publishes a default resource on start."""

    def __init__(self, tag: str = "?", **kwargs: Any) -> None:
        self.tag = tag
        self.kwargs = kwargs
        created.append((tag, kwargs))

    async def start(self) -> None:
        add_resource(f"value-{self.tag}")
        add_resource_factory(lambda: 11, types=[int])


@pytest.fixture(autouse=True)
def setup(monkeypatch: MonkeyPatch) -> None:
    created.clear()
    entrypoint = Mock(EntryPoint)
    entrypoint.load.configure_mock(return_value=Recorder)
    monkeypatch.setattr(component_types, "_entrypoints", {"rec": entrypoint})
    monkeypatch.setattr(component_types, "_resolved", {})


# -- add_component() ---------------------------------------------------------------


async def test_add_component_bookkeeping() -> None:
    class Parent(Component):
        def __init__(self) -> None:
            self.add_component("rec", tag="one")
            self.add_component("rec/second", tag="two")
            self.add_component("third/t", Recorder, tag="three", extra=[1])
            # falsy type -> the alias is used as the type
            self.add_component("rec/fourth", type="", tag="four", x=1)
            # The alias is positional-only: "alias" as a keyword ends up in the config
            self.add_component("rec/fifth", tag="five", alias="y")

    # Children added to other instances (or none at all) never leak
    unrelated = Parent()
    unrelated.add_component("rec/unrelated", tag="unrelated")
    created.clear()

    async with Context():
        await start_component(Parent)
        await start_component(Component)
        assert get_resource_nowait(str) == "value-one"
        assert get_resource_nowait(str, "fifth") == "value-five"
        assert get_resource_nowait(str, "unrelated", optional=True) is None

    assert created == [
        ("one", {}),
        ("two", {}),
        ("three", {"extra": [1]}),
        ("four", {"x": 1}),
        ("five", {"alias": "y"}),
    ]


async def test_add_component_errors_and_their_precedence() -> None:
    class Parent(Component):
        def __init__(self) -> None:
            self.add_component("rec", tag="orig")
            with pytest.raises(ValueError) as exc:
                self.add_component("rec", tag="dupe")

            assert str(exc.value) == 'there is already a child component named "rec"'
            for bad_alias in ("", 6, None, b"rec"):
                with pytest.raises(TypeError) as exc2:
                    self.add_component(bad_alias, Recorder)  # type: ignore[arg-type]

                assert str(exc2.value) == "alias must be a nonempty string"

    # The failed calls must not have modified the existing entry or added new ones
    async with Context():
        await start_component(Parent)

    assert created == [("orig", {})]


async def test_add_component_after_start_is_rejected() -> None:
    class Late(Component):
        async def start(self) -> None:
            # Even a bad alias gets the "already started" error first
            self.add_component("", Recorder)

    async with Context():
        with pytest.raises(ComponentStartError) as exc:
            await start_component(Late)

    assert exc.value.phase == "starting"
    assert type(exc.value.__cause__) is RuntimeError
    assert str(exc.value.__cause__) == (
        "child components cannot be added once start_component() has been called on "
        "the component"
    )

    # First add_component() call in prepare() (no registry created yet)
    class LatePrepare(Component):
        async def prepare(self) -> None:
            self.add_component("rec")

    async with Context():
        with pytest.raises(ComponentStartError) as exc:
            await start_component(LatePrepare)

    assert exc.value.phase == "preparing"
    assert type(exc.value.__cause__) is RuntimeError
    assert created == []


# -- _init_component() via start_component() ---------------------------------------


async def test_type_and_default_resource_name_from_alias(
    caplog: LogCaptureFixture,
) -> None:
    class Parent(Component):
        def __init__(self) -> None:
            self.add_component("rec/a_b", tag="underscore")
            self.add_component("other/res", Recorder, tag="class-type")
            self.add_component("named", "rec/ignored/part", tag="slash-type")

    caplog.set_level(logging.DEBUG, "asphalt.core")
    async with Context():
        root = await start_component(Parent)
        assert isinstance(root, Parent)
        assert get_resource_nowait(int, "a_b") == 11
        assert get_resource_nowait(str, "a_b") == "value-underscore"
        # A class as type: the alias still decides the resource name
        assert get_resource_nowait(str, "res") == "value-class-type"
        # A slash in the explicit type does NOT influence the resource name
        assert get_resource_nowait(str) == "value-slash-type"
        assert get_resource_nowait(int) == 11
        assert get_resource_nowait(int, "ignored/part", optional=True) is None
        assert get_resource_nowait(int, "ignored", optional=True) is None

    assert [tag for tag, _ in created] == [
        "underscore",
        "class-type",
        "slash-type",
    ]
    qualname = f"{__name__}.Recorder"
    creating = [msg for msg in caplog.messages if msg.startswith("Creat")]
    assert creating[2:] == [
        f"Creating component 'rec/a_b' ({qualname})",
        f"Created component 'rec/a_b' ({qualname})",
        f"Creating component 'other/res' ({qualname})",
        f"Created component 'other/res' ({qualname})",
        f"Creating component 'named' ({qualname})",
        f"Created component 'named' ({qualname})",
    ]


@pytest.mark.parametrize("alias", ["rec/a/b", "rec/", "other//x"])
async def test_invalid_default_resource_name_from_alias(alias: str) -> None:
    # Only the FIRST slash splits the alias, so these yield the invalid resource names
    # "a/b", "" and "/x" which add_resource() then rejects in start()
    config = {"components": {alias: {"type": Recorder, "tag": "t"}}}
    async with Context():
        with pytest.raises(ComponentStartError) as exc:
            await start_component(Component, config)

    assert exc.value.phase == "starting"
    assert exc.value.path == alias
    assert exc.value.component_type is Recorder
    assert type(exc.value.__cause__) is ValueError
    assert str(exc.value.__cause__).startswith('"name" must be a nonempty string')
    assert created == [("t", {})]


async def test_duplicate_default_resource_is_a_conflict() -> None:
    # Both children publish their str resource under "default" -> conflict, wrapped in
    # ComponentStartError for the offending child
    config = {"components": {"rec": {"tag": "1"}, "second": {"type": "rec/zzz"}}}
    async with Context():
        with pytest.raises(ComponentStartError) as exc:
            await start_component(Component, config)

    assert exc.value.phase == "starting"
    assert exc.value.path in ("rec", "second")
    assert type(exc.value.__cause__).__name__ == "ResourceConflict"


async def test_overrides_merge_and_caller_config_untouched() -> None:
    class Parent(Component):
        def __init__(self, flag: bool = False) -> None:
            self.flag = flag
            self.add_component("rec/x", tag="hardcoded", opts=hardcoded_opts)
            self.add_component("gone", Recorder, tag="gone")

    hardcoded_opts = {"a": 1, "b": 2}
    child_override = {"tag": "override", "opts": {"b": 3, "c": 4}}
    config = {
        "flag": True,
        "components": {
            "rec/x": child_override,
            "gone": {"type": "rec/q"},
            "extra/y": {"type": Recorder, "tag": "extra"},
            "rec/z": None,
        },
    }
    async with Context():
        root = await start_component(Parent, config)
        assert root.flag is True  # type: ignore[attr-defined]
        assert get_resource_nowait(str, "x") == "value-override"
        assert get_resource_nowait(str, "y") == "value-extra"
        assert get_resource_nowait(str, "z") == "value-?"
        assert get_resource_nowait(str) == "value-gone"

    assert created == [
        ("override", {"opts": {"a": 1, "b": 3, "c": 4}}),
        ("gone", {}),
        ("extra", {}),
        ("?", {}),
    ]
    # Neither the caller's config nor the hardcoded config was modified
    assert child_override == {"tag": "override", "opts": {"b": 3, "c": 4}}
    assert config["components"]["gone"] == {"type": "rec/q"}  # type: ignore[index]
    assert set(config) == {"flag", "components"}
    assert hardcoded_opts == {"a": 1, "b": 2}


async def test_bad_child_config_is_detected_after_earlier_siblings_are_created() -> None:
    config = {
        "components": {
            "rec/1": {"tag": "first", "components": {}},
            "mid": {
                "type": Component,
                "components": {"rec/deep": {"tag": "deep"}, "bad": 42},
            },
            "rec/never": {"tag": "never"},
        }
    }
    async with Context():
        with pytest.raises(TypeError) as exc:
            await start_component(Component, config)

    assert str(exc.value) == (
        "mid.bad: component configuration must be either None or a dict (or any other "
        "mutable mapping type), not int"
    )
    # "components" is always separated from the config before instantiation
    assert created == [("first", {}), ("deep", {})]


async def test_unresolvable_and_wrong_types() -> None:
    async with Context():
        with pytest.raises(LookupError) as exc:
            await start_component(Component, {"components": {"nosuch/x": None}})

        assert str(exc.value) == "no such entry point in asphalt.components: nosuch"

        # The parent is resolved before its children are even looked at
        with pytest.raises(LookupError) as exc:
            await start_component(
                Component, {"components": {"a": {"components": {"b": {"type": 5}}}}}
            )

        assert str(exc.value) == "no such entry point in asphalt.components: a"

    assert created == []


async def test_wrong_type_messages() -> None:
    async with Context():
        with pytest.raises(TypeError) as exc:
            await start_component(
                Component,
                {"components": {"rec/a": {"components": {"b/c": {"type": 5}}}}},
            )

        # Recorder accepts **kwargs but "components" is popped, so "b/c" is validated
        assert str(exc.value) == (
            "rec/a.b/c: the declared component type (5) resolved to 5 which is not a "
            "subclass of Component"
        )

        with pytest.raises(TypeError) as exc:
            await start_component(
                Component, {"components": {"child": {"type": "builtins:dict/x"}}}
            )

        assert str(exc.value) == (
            "child: the declared component type ('builtins:dict') resolved to "
            "<class 'dict'> which is not a subclass of Component"
        )


async def test_non_string_alias_in_config() -> None:
    # Not a supported configuration, but the failure mode must stay the same
    async with Context():
        with pytest.raises(TypeError):
            await start_component(Component, {"components": {1: {"type": Recorder}}})

    assert created == []
