"""
Property C13 checks accompanying refactor3.diff (earlier and clearer validation of
teardown callbacks in add_teardown_callback() and add_resource()).

Must pass on the unchanged source and with refactor3 applied.
"""

from __future__ import annotations

import sys
import warnings
from typing import Any, Callable

import anyio
import pytest
from anyio import CancelScope

from asphalt.core import (
    Context,
    ResourceConflict,
    add_resource,
    add_resource_factory,
    add_teardown_callback,
    get_resource,
    get_resource_nowait,
)

if sys.version_info < (3, 11):
    from exceptiongroup import BaseExceptionGroup

pytestmark = pytest.mark.anyio()


def snapshot(ctx: Context) -> tuple[Any, ...]:
    return (
        dict(ctx._resources),
        dict(ctx._resource_factories),
        list(ctx._teardown_callbacks),
        ctx._state,
    )


async def coro_func() -> None:
    pass


def rejected_calls(ctx: Context) -> list[Callable[[], Any]]:
    """
    Calls with valid AND with invalid arguments: in a wrong lifecycle state, the state
    error (RuntimeError) must win over any argument validation error.
    """
    return [
        lambda: ctx.add_resource(1),
        lambda: ctx.add_resource(1, "name", [int, float], description="x"),
        lambda: ctx.add_resource(1, teardown_callback=lambda: None),
        lambda: ctx.add_resource(1, teardown_callback="not callable"),  # type: ignore[arg-type]
        lambda: ctx.add_resource(None, "bad name!", teardown_callback=5),  # type: ignore[arg-type]
        lambda: ctx.add_resource_factory(lambda: 1, types=[int]),
        lambda: ctx.add_resource_factory(lambda: 1),
        lambda: ctx.get_resource_nowait(int),
        lambda: ctx.get_resource_nowait(int, "other", optional=True),
        lambda: ctx.add_teardown_callback(lambda: None),
        lambda: ctx.add_teardown_callback(coro_func, True),
        lambda: ctx.add_teardown_callback(None),  # type: ignore[arg-type]
        lambda: ctx.add_teardown_callback("not callable", True),  # type: ignore[arg-type]
    ]


async def assert_unusable(ctx: Context, message: str) -> None:
    before = snapshot(ctx)
    for call in rejected_calls(ctx):
        with pytest.raises(RuntimeError, match=message):
            call()

    with pytest.raises(RuntimeError, match=message):
        await ctx.get_resource(int)
    with pytest.raises(RuntimeError, match=message):
        await ctx.get_resource(int, "other", optional=True)

    assert snapshot(ctx) == before


async def test_wrong_state_wins_over_argument_errors() -> None:
    ctx = Context()
    await assert_unusable(ctx, "has not been entered yet")
    assert not ctx.closed
    async with ctx:
        pass

    assert ctx.closed
    await assert_unusable(ctx, "already been closed")


async def test_coroutine_object_in_wrong_state_is_left_alone() -> None:
    ctx = Context()
    coro = coro_func()
    try:
        with pytest.raises(RuntimeError, match="has not been entered yet"):
            ctx.add_teardown_callback(coro)  # type: ignore[arg-type]
        with pytest.raises(RuntimeError, match="has not been entered yet"):
            ctx.add_resource(1, teardown_callback=coro)  # type: ignore[arg-type]

        # The context did nothing with it: it can still be awaited normally
        assert await coro is None
    finally:
        coro.close()


async def test_open_state_accepts_everything_and_runs_lifo() -> None:
    calls: list[Any] = []

    async def async_cb() -> None:
        await anyio.sleep(0)
        calls.append("async")

    class CallableObject:
        def __call__(self, exc: BaseException | None) -> None:
            calls.append(("object", exc))

    async with Context() as ctx:
        ctx.add_teardown_callback(lambda: calls.append("sync"))
        ctx.add_teardown_callback(async_cb)
        ctx.add_teardown_callback(CallableObject(), True)
        ctx.add_resource("value", teardown_callback=lambda: calls.append("resource"))
        ctx.add_resource(7, "seven", [int], teardown_callback=async_cb)
        add_teardown_callback(lambda: calls.append("shortcut"))
        add_resource(2.5, teardown_callback=lambda: calls.append("shortcut res"))
        add_resource_factory(lambda: b"made", types=[bytes])
        assert get_resource_nowait(str) == "value"
        assert await get_resource(bytes) == b"made"
        assert ctx.get_resource_nowait(int, "seven") == 7
        assert not ctx.closed

    assert ctx.closed
    assert calls == [
        "shortcut res",
        "shortcut",
        "async",
        "resource",
        ("object", None),
        "async",
        "sync",
    ]
    await assert_unusable(ctx, "already been closed")


async def test_invalid_arguments_in_open_state_change_nothing() -> None:
    async with Context() as ctx:
        ctx.add_resource("present")
        before = snapshot(ctx)
        with pytest.raises(TypeError):
            ctx.add_teardown_callback(None)  # type: ignore[arg-type]
        with pytest.raises(TypeError):
            ctx.add_teardown_callback("text", True)  # type: ignore[arg-type]
        with pytest.raises(TypeError):
            ctx.add_resource(1, teardown_callback="text")  # type: ignore[arg-type]
        with pytest.raises(ResourceConflict):
            ctx.add_resource("again", teardown_callback=lambda: None)
        with pytest.raises(ValueError):
            ctx.add_resource(None, teardown_callback=lambda: None)
        with pytest.raises(ValueError):
            ctx.add_resource(1, "bad name!", teardown_callback=lambda: None)

        with warnings.catch_warnings():
            warnings.simplefilter("ignore", RuntimeWarning)
            with pytest.raises(TypeError):
                ctx.add_teardown_callback(coro_func())  # type: ignore[arg-type]
            with pytest.raises(TypeError):
                ctx.add_resource(1, teardown_callback=coro_func())  # type: ignore[arg-type]

        assert snapshot(ctx) == before
        assert ctx.get_resource_nowait(int, optional=True) is None
        assert not ctx.closed


async def test_teardown_state() -> None:
    calls: list[str] = []

    def callback() -> None:
        assert ctx.closed
        # allowed during teardown
        ctx.add_teardown_callback(lambda: calls.append("added during teardown"))
        ctx.add_resource(
            "late", "late", teardown_callback=lambda: calls.append("late resource")
        )
        assert ctx.get_resource_nowait(str, "late") == "late"
        before = snapshot(ctx)
        # invalid arguments are still just argument errors, and change nothing
        with pytest.raises(TypeError):
            ctx.add_teardown_callback(42)  # type: ignore[arg-type]
        with pytest.raises(TypeError):
            ctx.add_resource(1, teardown_callback=42)  # type: ignore[arg-type]
        # not allowed during teardown, with valid or invalid arguments
        with pytest.raises(RuntimeError, match="is being torn down"):
            ctx.add_resource_factory(lambda: 1, types=[int])
        with pytest.raises(RuntimeError, match="is being torn down"):
            ctx.add_resource_factory(lambda: 1, "bad name!")
        with pytest.raises(RuntimeError, match="is being torn down"):
            ctx.__aenter__().send(None)
        assert snapshot(ctx) == before
        calls.append("callback")

    async def check_async() -> None:
        assert await ctx.get_resource(str, "late") == "late"
        assert await ctx.get_resource(int, optional=True) is None
        calls.append("async check")

    async with Context() as ctx:
        ctx.add_teardown_callback(check_async)
        ctx.add_teardown_callback(callback)

    assert calls == [
        "callback",
        "late resource",
        "added during teardown",
        "async check",
    ]
    assert ctx.closed
    await assert_unusable(ctx, "already been closed")


async def test_closed_after_failing_and_cancelled_exit() -> None:
    def failing() -> None:
        raise OSError("teardown failed")

    with pytest.raises(BaseExceptionGroup):
        async with Context() as ctx1:
            ctx1.add_resource(1, teardown_callback=failing)

    assert ctx1.closed
    await assert_unusable(ctx1, "already been closed")
    with pytest.raises(RuntimeError, match="already been closed"):
        await ctx1.__aenter__()

    with pytest.raises(LookupError):
        async with Context() as ctx2:
            ctx2.add_teardown_callback(lambda: None)
            raise LookupError

    assert ctx2.closed
    await assert_unusable(ctx2, "already been closed")

    async def slow() -> None:
        await anyio.sleep(10)

    with CancelScope() as scope:
        async with Context() as ctx3:
            ctx3.add_resource(1, teardown_callback=slow)
            scope.cancel()
            await anyio.sleep(10)

    assert ctx3.closed
    await assert_unusable(ctx3, "already been closed")
    with pytest.raises(RuntimeError, match="already been closed"):
        await ctx3.__aenter__()


async def test_open_child_on_exit_reported() -> None:
    async with Context():
        with pytest.raises(RuntimeError, match="Context stack corruption detected"):
            async with Context() as parent:
                parent.add_resource(1, teardown_callback=lambda: None)
                await Context().__aenter__()

        assert parent.closed
