"""
Behaviour check for refactoring 2 (``merge_config``, the deep merge used by
``asphalt run`` for config files and for the service section).

Exercises the public ``merge_config`` function directly and the merge precedence
through the ``asphalt run`` command.
"""

from __future__ import annotations

from collections import OrderedDict
from pathlib import Path
from typing import Any
from unittest.mock import patch

import pytest
from click.testing import CliRunner

from asphalt.core import _cli, merge_config


def invoke(
    tmp_path: Path, files: dict[str, str], args: list[str], env: dict[str, Any] = {}
) -> tuple[Any, Any]:
    runner = CliRunner()
    paths = []
    for name, content in files.items():
        path = tmp_path / name
        path.write_text(content)
        paths.append(str(path))

    with patch("asphalt.core._cli.run_application") as run_app:
        result = runner.invoke(
            _cli.run, [*paths, *args], env={"ASPHALT_SERVICE": None, **env}
        )

    return result, run_app


@pytest.mark.parametrize(
    "original, overrides, expected",
    [
        pytest.param(None, None, {}, id="none_none"),
        pytest.param({}, {}, {}, id="empty_empty"),
        pytest.param({"a": 1}, None, {"a": 1}, id="none_overrides"),
        pytest.param({"a": 1}, {}, {"a": 1}, id="empty_overrides"),
        pytest.param(None, {"a": {"b": 1}}, {"a": {"b": 1}}, id="none_original"),
        pytest.param(
            {"a": {"b": 1, "c": {"d": 2}}, "x": [1]},
            {"a": {"c": {"e": 3}, "f": None}, "x": [2], "y": {}},
            {"a": {"b": 1, "c": {"d": 2, "e": 3}, "f": None}, "x": [2], "y": {}},
            id="nested",
        ),
        pytest.param(
            {"a": {"b": 1}, "c": 5, "d": None},
            {"a": "scalar", "c": {"k": 1}, "d": {"k": 2}},
            {"a": "scalar", "c": {"k": 1}, "d": {"k": 2}},
            id="type_change_replaces",
        ),
        pytest.param(
            {"a": {"b": 1}},
            {"a": {}},
            {"a": {"b": 1}},
            id="empty_dict_override_keeps_original",
        ),
        pytest.param(
            {"a.b": 1, "a": {"b": 2}},
            {"a.b": 3},
            {"a.b": 3, "a": {"b": 2}},
            id="dotted_keys_are_plain_keys",
        ),
    ],
)
def test_merge_config_results(
    original: dict[str, Any] | None,
    overrides: dict[str, Any] | None,
    expected: dict[str, Any],
) -> None:
    result = merge_config(original, overrides)
    assert result == expected
    assert type(result) is dict


def test_merge_config_key_order_and_types() -> None:
    original = OrderedDict([("z", {"k": 1}), ("a", 1), ("m", {"q": 1})])
    overrides = {"m": {"p": 2, "q": 3}, "b": 2, "z": OrderedDict(j=0)}
    result = merge_config(original, overrides)
    assert type(result) is dict
    assert list(result) == ["z", "a", "m", "b"]
    assert type(result["z"]) is dict and list(result["z"]) == ["k", "j"]
    assert list(result["m"]) == ["q", "p"]
    assert result == {"z": {"k": 1, "j": 0}, "a": 1, "m": {"q": 3, "p": 2}, "b": 2}


def test_merge_config_does_not_mutate_inputs_and_shares_unmerged_values() -> None:
    inner_list = [1, 2]
    untouched = {"deep": {"x": 1}}
    original = {"a": {"b": {"c": 1}}, "keep": untouched, "lst": inner_list}
    override_sub = {"n": 1}
    overrides = {"a": {"b": {"d": 2}}, "new": override_sub}
    result = merge_config(original, overrides)
    assert original == {
        "a": {"b": {"c": 1}},
        "keep": {"deep": {"x": 1}},
        "lst": [1, 2],
    }
    assert overrides == {"a": {"b": {"d": 2}}, "new": {"n": 1}}
    assert result["a"] == {"b": {"c": 1, "d": 2}}
    assert result["a"] is not original["a"]
    assert result["a"]["b"] is not original["a"]["b"]
    # Values that are not merged are carried over by reference (shallow copy)
    assert result["keep"] is untouched
    assert result["lst"] is inner_list
    assert result["new"] is override_sub


def test_files_merge_in_order_then_service_section(tmp_path: Path) -> None:
    first = """\
---
backend: trio
backend_options:
  debug: true
  nested:
    a: 1
max_threads: 5
logging:
  version: 1
  handlers:
    console:
      class: logging.StreamHandler
      level: INFO
services:
  default:
    component:
      type: myproject:Default
      components:
        db: {url: "sqlite://", pool: 1}
  other:
    max_threads: 50
    logging:
      handlers:
        console:
          level: ERROR
    component:
      type: myproject:Other
      components:
        db: {url: "postgresql://"}
"""
    second = """\
---
backend_options:
  nested:
    b: 2
logging:
  handlers:
    console:
      level: DEBUG
    file:
      class: logging.FileHandler
services:
  other:
    component:
      components:
        db: {pool: 7}
        cache: null
"""
    third = """\
---
max_threads: 6
services:
  other:
    component:
      components:
        cache: {size: 3}
"""
    files = {"1.yml": first, "2.yml": second, "3.yml": third}

    result, run_app = invoke(tmp_path, files, ["-s", "other"])
    assert result.exit_code == 0, result.output
    args, kwargs = run_app.call_args
    assert args == (
        "myproject:Other",
        {
            "components": {
                "db": {"url": "postgresql://", "pool": 7},
                "cache": {"size": 3},
            }
        },
    )
    assert kwargs == {
        "backend": "trio",
        "backend_options": {"debug": True, "nested": {"a": 1, "b": 2}},
        "max_threads": 50,
        "logging": {
            "version": 1,
            "handlers": {
                "console": {"class": "logging.StreamHandler", "level": "ERROR"},
                "file": {"class": "logging.FileHandler"},
            },
        },
    }

    # Reversed file order: earlier values are overridden by later files
    reversed_files = {"3.yml": third, "2.yml": second, "1.yml": first}
    result, run_app = invoke(tmp_path, reversed_files, [])
    assert result.exit_code == 0, result.output
    args, kwargs = run_app.call_args
    assert args == (
        "myproject:Default",
        {"components": {"db": {"url": "sqlite://", "pool": 1}}},
    )
    assert kwargs == {
        "backend": "trio",
        "backend_options": {"debug": True, "nested": {"b": 2, "a": 1}},
        "max_threads": 5,
        "logging": {
            "version": 1,
            "handlers": {
                "console": {"class": "logging.StreamHandler", "level": "INFO"},
                "file": {"class": "logging.FileHandler"},
            },
        },
    }
    assert list(kwargs["backend_options"]["nested"]) == ["b", "a"]


def test_top_level_component_merges_into_implicit_default(tmp_path: Path) -> None:
    first = """\
---
component:
  type: myproject:Root
  components:
    a: {x: 1}
"""
    second = """\
---
component:
  components:
    a: {y: 2}
    b: {}
max_threads: 3
"""
    result, run_app = invoke(
        tmp_path,
        {"1.yml": first, "2.yml": second},
        ["--set", "component.components.b.z=[1, 2]"],
    )
    assert result.exit_code == 0, result.output
    args, kwargs = run_app.call_args
    assert args == (
        "myproject:Root",
        {"components": {"a": {"x": 1, "y": 2}, "b": {"z": [1, 2]}}},
    )
    assert kwargs == {"max_threads": 3, "backend": "asyncio", "backend_options": {}}
