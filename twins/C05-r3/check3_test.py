"""
Behaviour check for refactoring 3 (``start_component``: ``AsyncExitStack`` with a
conditionally entered task group replaced by an explicit ``if timeout: ... else: ...``).

Exercises, through the public API: return value/timing of start_component, ownership of
everything registered by the components (the context current at the call), the timeout
watchdog on/off, and the exceptions that come out on the failure paths.
"""

from __future__ import annotations

import logging
from typing import Any

import anyio
import pytest
from anyio.abc import TaskStatus

from asphalt.core import (
    Component,
    ComponentStartError,
    Context,
    add_resource,
    add_resource_factory,
    add_teardown_callback,
    current_context,
    get_resource,
    get_resource_nowait,
    start_component,
    start_service_task,
)

pytestmark = pytest.mark.anyio()

TIMEOUTS = [
    pytest.param(None, id="timeout-none"),
    pytest.param(0, id="timeout-zero"),
    pytest.param(20, id="timeout-default"),
    pytest.param(0.5, id="timeout-float"),
]


class Journal:
    def __init__(self) -> None:
        self.entries: list[str] = []

    def __call__(self, entry: str) -> None:
        self.entries.append(entry)


def build(journal: Journal) -> type[Component]:
    async def service(*, task_status: TaskStatus[str]) -> None:
        journal("service running")
        task_status.started("service-value")
        try:
            await anyio.sleep_forever()
        finally:
            journal("service stopped")

    def factory() -> bytes:
        return b"made in " + type(current_context()).__name__.encode()

    class Worker(Component):
        def __init__(self, name: str, wants: str | None = None) -> None:
            self.name = name
            self.wants = wants

        async def prepare(self) -> None:
            journal(f"{self.name} prepare")
            add_teardown_callback(lambda: journal(f"{self.name} teardown"))

        async def start(self) -> None:
            if self.wants:
                await get_resource(str, self.wants)

            await anyio.sleep(0.02)
            add_resource(self.name.upper(), self.name)
            journal(f"{self.name} start")

    class Root(Component):
        def __init__(self) -> None:
            self.started_ctx: Any = None
            self.service_value: Any = None
            self.add_component("w1", Worker, name="w1", wants="w2")
            self.add_component("w2", Worker, name="w2", wants="w3")
            self.add_component("w3", Worker, name="w3")

        async def prepare(self) -> None:
            journal("root prepare")
            add_resource_factory(factory, types=[bytes])

        async def start(self) -> None:
            assert get_resource_nowait(str, "w1") == "W1"
            self.service_value = await start_service_task(service, "svc")
            await anyio.sleep(0.02)
            journal("root start")

    return Root


@pytest.mark.parametrize("timeout", TIMEOUTS)
async def test_returns_root_after_start_and_context_owns_everything(
    timeout: float | None,
) -> None:
    journal = Journal()
    root_class = build(journal)
    async with Context() as ctx:
        assert current_context() is ctx
        with anyio.fail_after(3):
            root = await start_component(root_class, timeout=timeout)

        # Returned the root instance, after the root's start() returned
        assert type(root) is root_class
        assert journal.entries[-1] == "root start"
        assert root.service_value == "service-value"
        assert journal.entries[0] == "root prepare"
        # (the children are prepared concurrently; trio randomises their order)
        assert sorted(journal.entries[1:4]) == ["w1 prepare", "w2 prepare", "w3 prepare"]
        assert journal.entries[4:] == [
            "w3 start",
            "w2 start",
            "w1 start",
            "service running",
            "root start",
        ]

        # The calling context is current again and owns the resources
        assert current_context() is ctx
        assert ctx.get_resource_nowait(str, "w2") == "W2"
        assert get_resource_nowait(str, "w3") == "W3"
        assert get_resource_nowait(bytes) == b"made in Context"
        # Nothing torn down or stopped yet
        assert not any("teardown" in e or "stopped" in e for e in journal.entries)
        # Wait past a short timeout: the watchdog must be gone
        await anyio.sleep(0.6 if timeout == 0.5 else 0.05)

    tail = journal.entries[9:]
    assert sorted(tail) == [
        "service stopped",
        "w1 teardown",
        "w2 teardown",
        "w3 teardown",
    ]


@pytest.mark.parametrize("timeout", TIMEOUTS)
async def test_component_without_prepare_or_start(timeout: float | None) -> None:
    class Empty(Component):
        pass

    async with Context():
        with anyio.fail_after(3):
            root = await start_component(Empty, timeout=timeout)

        assert type(root) is Empty


@pytest.mark.parametrize("timeout", TIMEOUTS)
async def test_start_error_is_wrapped_and_context_torn_down(
    timeout: float | None,
) -> None:
    journal = Journal()

    class Child(Component):
        async def prepare(self) -> None:
            add_teardown_callback(lambda: journal("child teardown"))

        async def start(self) -> None:
            await anyio.sleep(0.01)
            raise LookupError("nothing here")

    class Root(Component):
        def __init__(self) -> None:
            self.add_component("child", Child)

        async def start(self) -> None:
            journal("root start")

    with pytest.raises(ComponentStartError) as exc:
        async with Context():
            try:
                await start_component(Root, timeout=timeout)
            except BaseException as e:
                journal(f"raised {type(e).__name__}")
                # Not torn down before the context is left
                assert journal.entries == [f"raised {type(e).__name__}"]
                raise

    assert str(exc.value).startswith("error starting component 'child'")
    assert type(exc.value.__cause__) is LookupError
    assert journal.entries == ["raised ComponentStartError", "child teardown"]


@pytest.mark.parametrize("timeout", TIMEOUTS)
async def test_root_prepare_error(timeout: float | None) -> None:
    class Root(Component):
        async def prepare(self) -> None:
            raise ZeroDivisionError("x")

    async with Context():
        with pytest.raises(ComponentStartError) as exc:
            await start_component(Root, timeout=timeout)

    assert str(exc.value).startswith("error preparing the root component")
    assert type(exc.value.__cause__) is ZeroDivisionError


@pytest.mark.parametrize("timeout", TIMEOUTS)
async def test_base_exception_not_wrapped(timeout: float | None) -> None:
    class Root(Component):
        async def start(self) -> None:
            raise KeyboardInterrupt

    with pytest.raises(BaseException) as exc:
        async with Context():
            await start_component(Root, timeout=timeout)

    def leaves(e: BaseException) -> list[BaseException]:
        if isinstance(e, BaseExceptionGroup):
            return [leaf for sub in e.exceptions for leaf in leaves(sub)]

        return [e]

    assert [type(e) for e in leaves(exc.value)] == [KeyboardInterrupt]


async def test_timeout_raises_timeout_error_and_logs(
    caplog: pytest.LogCaptureFixture,
) -> None:
    caplog.set_level(logging.ERROR, "asphalt.core")
    journal = Journal()

    class Stuck(Component):
        async def start(self) -> None:
            try:
                await get_resource(float, "never")
            finally:
                journal("stuck cancelled")

    class Root(Component):
        def __init__(self) -> None:
            self.add_component("stuck", Stuck)
            self.add_component("fine", Fine)

        async def start(self) -> None:
            journal("root start")

    class Fine(Component):
        async def start(self) -> None:
            journal("fine start")

    async with Context():
        with anyio.fail_after(3):
            with pytest.raises(TimeoutError, match="timeout starting component tree"):
                await start_component(Root, timeout=0.1)

    assert journal.entries == ["fine start", "stuck cancelled"]
    messages = [r.getMessage() for r in caplog.records if r.name == "asphalt.core"]
    assert len(messages) == 1
    assert messages[0].startswith("Timeout waiting for the component tree to start")
    assert "(root): starting children" in messages[0]
    assert "  stuck: starting" in messages[0]
    assert "fine:" not in messages[0]


@pytest.mark.parametrize("timeout", [None, 0])
async def test_no_watchdog_without_timeout(timeout: float | None) -> None:
    class Slowish(Component):
        async def start(self) -> None:
            await anyio.sleep(0.3)

    async with Context():
        with anyio.fail_after(3):
            root = await start_component(Slowish, timeout=timeout)

    assert isinstance(root, Slowish)


@pytest.mark.parametrize("timeout", TIMEOUTS)
async def test_outside_cancellation(timeout: float | None) -> None:
    journal = Journal()

    class Stuck(Component):
        async def prepare(self) -> None:
            add_teardown_callback(lambda: journal("teardown"))

        async def start(self) -> None:
            try:
                await anyio.sleep_forever()
            finally:
                journal("cancelled")

    async with Context():
        with anyio.move_on_after(0.1) as scope:
            await start_component(Stuck, timeout=timeout)
            journal("not reached")

        assert scope.cancelled_caught
        assert journal.entries == ["cancelled"]

    assert journal.entries == ["cancelled", "teardown"]


async def test_argument_validation() -> None:
    class Root(Component):
        pass

    with pytest.raises(RuntimeError, match="requires an active Asphalt context"):
        await start_component(Root)

    async with Context():
        with pytest.raises(TypeError, match="config must be a dict"):
            await start_component(Root, [])  # type: ignore[arg-type]

        with pytest.raises(TypeError, match="which is not a subclass of Component"):
            await start_component(int)  # type: ignore[type-var]
