"""
Property C11 (every (instance, signal attribute) pair is an independent channel),
checked through the public API.  Must pass on the unchanged source and with
refactor1.diff applied (robust ``Signal.__repr__`` + ``topic`` / ``is_bound``
helpers).  Emphasis: introspecting signals (repr, str, format) at any point must not
disturb identity, isolation, error behaviour or garbage collection.
"""

from __future__ import annotations

import gc
import itertools
import weakref
from contextlib import AsyncExitStack
from typing import Any

import pytest
from asphalt.core import Event, Signal, UnboundSignal, stream_events, wait_event

pytestmark = pytest.mark.anyio()


@pytest.fixture
def anyio_backend() -> str:
    return "asyncio"


class AlphaEvent(Event):
    def __init__(self, payload: Any = None) -> None:
        self.payload = payload


class BetaEvent(Event):
    def __init__(self, payload: Any = None) -> None:
        self.payload = payload


class Base:
    alpha = Signal(AlphaEvent)
    beta = Signal(BetaEvent)


class Derived(Base):
    gamma = Signal(AlphaEvent)
    delta = Signal(Event)


EVENT_CLASSES = {
    "alpha": AlphaEvent,
    "beta": BetaEvent,
    "gamma": AlphaEvent,
    "delta": Event,
}


# what to dispatch on each channel ("delta" takes any Event, so give it a subclass)
MAKE_EVENT = {**EVENT_CLASSES, "delta": BetaEvent}


def safe_repr(obj: object) -> None:
    """Poke at the introspection helpers; the outcome is not part of the property."""
    for func in (repr, str, lambda o: format(o, "")):
        try:
            func(obj)
        except Exception:
            pass


@pytest.mark.parametrize(
    "order", list(itertools.permutations(["alpha", "beta", "gamma", "delta"]))[::3]
)
def test_identity_for_every_access_order(order: tuple[str, ...]) -> None:
    instances = [Derived(), Derived(), Derived()]
    first: dict[tuple[int, str], Signal[Any]] = {}
    for name in order:
        for index, instance in enumerate(instances):
            first[index, name] = getattr(instance, name)
            safe_repr(first[index, name])

    # stable on repeated access, in a different order, and after introspection
    for name in reversed(order):
        for index, instance in enumerate(instances):
            assert getattr(instance, name) is first[index, name]
            assert getattr(instance, name).event_class is EVENT_CLASSES[name]

    # all pairs are distinct objects
    bound = list(first.values())
    assert len({id(signal) for signal in bound}) == len(bound) == 12

    # ... and none of them is the class level declaration
    declarations = [Derived.alpha, Derived.beta, Derived.gamma, Derived.delta]
    assert Derived.alpha is Base.alpha
    for signal in bound:
        assert all(signal is not declaration for declaration in declarations)


async def test_inherited_signals_are_separate_per_instance() -> None:
    base, derived = Base(), Derived()
    assert base.alpha is not derived.alpha
    assert base.beta is not derived.beta
    assert base.alpha is base.alpha
    assert derived.alpha is derived.alpha
    safe_repr(Base.alpha)
    safe_repr(base.alpha)

    async with AsyncExitStack() as stack:
        base_stream = await stack.enter_async_context(base.alpha.stream_events())
        derived_stream = await stack.enter_async_context(derived.alpha.stream_events())
        base.alpha.dispatch(AlphaEvent("base"))
        derived.alpha.dispatch(AlphaEvent("derived-1"))
        derived.alpha.dispatch(AlphaEvent("derived-2"))
        event = await base_stream.__anext__()
        assert (event.payload, event.source, event.topic) == ("base", base, "alpha")
        event = await derived_stream.__anext__()
        assert (event.payload, event.source) == ("derived-1", derived)
        event = await derived_stream.__anext__()
        assert (event.payload, event.topic) == ("derived-2", "alpha")


async def test_events_only_reach_their_own_channel() -> None:
    instances = [Derived(), Derived()]
    names = ["alpha", "beta", "gamma", "delta"]
    async with AsyncExitStack() as stack:
        streams: dict[tuple[int, str, int], Any] = {}
        for index, instance in enumerate(instances):
            for name in names:
                for subscriber in range(2):
                    streams[index, name, subscriber] = await stack.enter_async_context(
                        getattr(instance, name).stream_events()
                    )
                    safe_repr(getattr(instance, name))

        # a sentinel subscriber on all channels of instance 1 only
        combined = await stack.enter_async_context(
            stream_events([getattr(instances[1], name) for name in names])
        )

        sent: dict[tuple[int, str], list[Event]] = {}
        for round_ in range(3):
            for index, instance in enumerate(instances):
                for name in names:
                    if (round_ + index + len(name)) % 2:
                        event = MAKE_EVENT[name]((index, name, round_))
                        getattr(instance, name).dispatch(event)
                        sent.setdefault((index, name), []).append(event)

        for (index, name, subscriber), stream in streams.items():
            for expected in sent.get((index, name), []):
                received = await stream.__anext__()
                assert received is expected
                assert received.source is instances[index]
                assert received.topic == name

        expected_combined = [
            event for (index, _), events in sent.items() if index == 1 for event in events
        ]
        got_combined = [await combined.__anext__() for _ in expected_combined]
        assert sorted(map(id, got_combined)) == sorted(map(id, expected_combined))
        assert all(event.source is instances[1] for event in got_combined)

    # nothing else was queued anywhere: every stream was drained exactly
    # (checked through a fresh round that only hits one channel)
    async with AsyncExitStack() as stack:
        target = await stack.enter_async_context(instances[0].gamma.stream_events())
        others = [
            await stack.enter_async_context(getattr(instance, name).stream_events())
            for index, instance in enumerate(instances)
            for name in names
            if (index, name) != (0, "gamma")
        ]
        marker = AlphaEvent("marker")
        instances[0].gamma.dispatch(marker)
        assert await target.__anext__() is marker
        for name in names:
            for instance in instances:
                getattr(instance, name).dispatch(MAKE_EVENT[name]("flush"))
        for other in others:
            event = await other.__anext__()
            assert event.payload == "flush"
        assert (await target.__anext__()).payload == "flush"


async def test_wrong_event_class_is_rejected_and_not_delivered() -> None:
    instance = Derived()
    async with AsyncExitStack() as stack:
        alpha = await stack.enter_async_context(instance.alpha.stream_events())
        beta = await stack.enter_async_context(instance.beta.stream_events())
        safe_repr(instance.alpha)

        wrong = BetaEvent("wrong")
        with pytest.raises(TypeError):
            instance.alpha.dispatch(wrong)
        with pytest.raises(TypeError):
            instance.beta.dispatch(AlphaEvent("wrong"))
        with pytest.raises(TypeError):
            instance.gamma.dispatch(Event())
        with pytest.raises(TypeError):
            instance.alpha.dispatch("not an event")  # type: ignore[arg-type]

        # subclasses of the declared class are fine; base class signal takes anything
        instance.delta.dispatch(BetaEvent("ok"))

        good_alpha, good_beta = AlphaEvent("a"), BetaEvent("b")
        instance.alpha.dispatch(good_alpha)
        instance.beta.dispatch(good_beta)
        assert await alpha.__anext__() is good_alpha
        assert await beta.__anext__() is good_beta


async def test_class_level_use_raises_unbound_signal() -> None:
    for declaration in (Base.alpha, Derived.alpha, Derived.gamma, Signal(Event)):
        safe_repr(declaration)
        with pytest.raises(UnboundSignal):
            declaration.dispatch(AlphaEvent())
        with pytest.raises(UnboundSignal):
            await declaration.wait_event()
        with pytest.raises(UnboundSignal):
            async with declaration.stream_events():
                pytest.fail("should not get here")
        with pytest.raises(UnboundSignal):
            await wait_event([declaration])

    # mixing a bound and an unbound signal: error, and the bound one is left clean
    instance = Derived()
    with pytest.raises(UnboundSignal):
        async with stream_events([instance.alpha, Derived.alpha]):
            pytest.fail("should not get here")

    async with instance.alpha.stream_events() as stream:
        event = AlphaEvent("still works")
        instance.alpha.dispatch(event)
        assert await stream.__anext__() is event

    # using the class never produced a bound channel for the instances
    assert Derived.alpha is Base.alpha
    assert instance.alpha is not Derived.alpha


async def test_binding_does_not_keep_the_owner_alive() -> None:
    class Owner:
        first = Signal(AlphaEvent)
        second = Signal(BetaEvent)

    owner = Owner()
    kept_first, kept_second = owner.first, owner.second
    safe_repr(kept_first)
    safe_repr(kept_second)
    async with kept_first.stream_events() as stream:
        owner.first.dispatch(AlphaEvent(1))
        event = await stream.__anext__()
        del event

    ref = weakref.ref(owner)
    del owner
    gc.collect()
    assert ref() is None
    safe_repr(kept_first)  # introspecting a signal whose owner is gone is harmless

    # other instances are unaffected and get fresh channels
    other = Owner()
    assert other.first is not kept_first
    assert other.second is not kept_second
    async with other.first.stream_events() as stream:
        marker = AlphaEvent("marker")
        other.first.dispatch(marker)
        assert await stream.__anext__() is marker
