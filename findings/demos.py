"""Failing histories for the genuine defects F1-F8 (DESIGN.md section 5).

Not part of any check (the checks are static).  Each function returns True when the
defect is PRESENT on the asphalt importable from sys.path.  Usage:
    /venv/bin/python /verif/findings/demos.py            # all
    /venv/bin/python /verif/findings/demos.py F3 F5
"""
import sys

import anyio

from asphalt.core import (
    Component,
    Context,
    Event,
    Signal,
    context_teardown,
    start_component,
)


def F1():
    class Src:
        a = Signal(Event)
        b = Signal(Event)

    s = Src()
    return s.a is s.b


def F2():
    async def main():
        async with Context() as root:
            root.add_resource_factory(lambda: object(), types=[object])
            got = await root.get_resource(object)
            async with Context() as child:
                inherited = child._resources.get((object, "default"))
                return inherited is not None and inherited.value is got

    return anyio.run(main)


def F3():
    async def main():
        async with Context() as ctx:
            ctx.add_resource("static")
            ctx.add_resource_factory(lambda: "generated", types=[str, object])
            first = ctx.get_resource_nowait(str)
            ctx.get_resource_nowait(object)
            second = ctx.get_resource_nowait(str)
            return first != second

    return anyio.run(main)


def F4():
    class Child(Component):
        def __init__(self, foo=None):
            pass

    class Root(Component):
        pass

    cfg = {"components": {"kid": {"type": Child, "foo": 1}}}
    import copy

    before = copy.deepcopy(cfg)

    async def main():
        async with Context():
            await start_component(Root, cfg)

    anyio.run(main)
    return cfg != before


def F5():
    async def main():
        async with Context() as ctx:
            try:
                ctx.add_resource("x", teardown_callback="notcallable")
            except TypeError:
                pass
            return ctx.get_resource_nowait(str, optional=True) is not None

    return anyio.run(main)


def F6():
    calls = []

    async def factory():
        calls.append(1)
        await anyio.sleep(0.01)
        return object()

    async def main():
        async with Context() as ctx:
            ctx.add_resource_factory(factory, types=[object])
            results = []

            async def get():
                results.append(await ctx.get_resource(object))

            async with anyio.create_task_group() as tg:
                tg.start_soon(get)
                tg.start_soon(get)
            return len(calls) > 1 or results[0] is not results[1]

    return anyio.run(main)


def F7():
    import warnings

    class Waiter(Component):
        async def start(self):
            from asphalt.core import get_resource

            await get_resource(str, "wanted")

    class Publisher(Component):
        async def start(self):
            from asphalt.core import add_resource

            await anyio.sleep(0.05)
            for i in range(60):
                add_resource(i, f"n{i}")
            add_resource("the one", "wanted")

    class Root(Component):
        def __init__(self):
            self.add_component("waiter", Waiter)
            self.add_component("publisher", Publisher)

    async def main():
        async with Context():
            try:
                await start_component(Root, timeout=1)
            except TimeoutError:
                return True
            return False

    with warnings.catch_warnings():
        warnings.simplefilter("ignore")
        return anyio.run(main)


def F8():
    got = []

    async def main():
        try:
            raise KeyError("outer")
        except KeyError:
            async with Context() as ctx:
                ctx.add_teardown_callback(got.append, pass_exception=True)
        return got != [None]

    return anyio.run(main)




# --------------------------------------------------------------------------- F9 (C08)
# A service task whose teardown_action is a callable OBJECT (instance of a class with __call__)
# was never stopped: finalize_service_task called callable_name(teardown_action) for a log line
# before its try block; callable objects have no __qualname__, so AttributeError escaped the
# finalizer, the action was never invoked and the root task group waited for the task for ever.
# Found by an independent seeding agent (round 4, C15) as a side observation; reported by
# C08.R2 once attribute loads of __qualname__/__name__ counted as may-raise; repaired in
# /repo 94b93df (callable_name falls back to the object's class).
def demo_f9():
    import anyio
    from asphalt.core import Context

    class Stopper:
        def __init__(self, ev):
            self.ev = ev

        def __call__(self):
            self.ev.set()

    async def main():
        ev = anyio.Event()

        async def service():
            await ev.wait()

        with anyio.fail_after(2):  # pre-fix: the block only ends because of this timeout
            async with Context() as ctx:
                await ctx.start_service_task(service, "svc", teardown_action=Stopper(ev))

    anyio.run(main)


# --------------------------------------------------------------------------- F10 (C02)
# get_resources(T) selected containers by the types recorded INSIDE each container.  A resource
# generated by a factory is stored (setdefault) only under those of the factory's types that are
# still free, but its container lists all of them - so for a (type, name) pair held by another
# resource get_resources() listed the generated value, while get_resource() and
# get_resource_nowait() answer with the resource registered under the pair: the lookup paths
# disagree on the visible set (C02, last sentence).  Noted by an independent seeding agent
# (round 5, C03) as a side observation on the unchanged tree; reported by C02.R3 once the rule
# asked for the selection to go by the table key; repaired in /repo a749abf.
def demo_f10():
    """True iff the defect is present."""
    import anyio
    from asphalt.core import Context

    class A:
        pass

    class B(A):
        pass

    async def main():
        async with Context() as ctx:
            static = A()
            ctx.add_resource(static, types=[A])  # (A, "default") -> static
            ctx.add_resource_factory(lambda: B(), types=[A, B])  # factory for (A, default), (B, default)
            ctx.get_resource_nowait(B)  # generated; stored under (B, "default") only
            assert ctx.get_resource_nowait(A) is static
            return ctx.get_resources(A)["default"] is not static

    return anyio.run(main)


F10 = demo_f10


# --------------------------------------------------------------------------- F11 (C11)  known finding
# Signal.__get__ keeps the bound signals of a declaration in a WeakKeyDictionary keyed by the
# owner instance, i.e. by hash and ==.  Two distinct instances that compare equal share one
# bound signal: an event dispatched on a.changed reaches the subscribers of b.changed.  Noted by
# an independent seeding agent (round 5, C11) as a side observation on the unchanged tree;
# reported by C11.R1 (identity clause).  Not repaired, see known_findings.json.
def F11():
    """True iff the defect is present."""
    from dataclasses import dataclass

    from asphalt.core import Event, Signal

    @dataclass(frozen=True)
    class Source:
        name: str
        changed = Signal(Event)

    a, b = Source("x"), Source("x")
    return a is not b and a.changed is b.changed


def F9():
    """True iff the defect is present (the teardown only ends through the timeout)."""
    try:
        demo_f9()
    except TimeoutError:
        return True
    except BaseException as exc:  # the AttributeError may surface inside a group
        return "qualname" in repr(exc) or any("qualname" in repr(e) for e in getattr(exc, "exceptions", ()))
    return False


if __name__ == "__main__":
    names = sys.argv[1:] or ["F1", "F2", "F3", "F4", "F5", "F6", "F7", "F8", "F9", "F10", "F11"]
    for n in names:
        print(n, "DEFECT PRESENT" if globals()[n]() else "ok")
