"""
Property C18: resource_added announces every publication exactly once, on the right
context.

Model-based check (random histories over a tree of contexts with a listener on every
context; expected event log computed from an independent model), plus scenarios
focusing on FAILING calls: whatever the reason a call is rejected for, it dispatches
nothing and leaves nothing behind that would disturb later announcements.
"""


from __future__ import annotations

import random
from collections.abc import AsyncIterator
from contextlib import AsyncExitStack, asynccontextmanager
from typing import Any

import pytest
from anyio import create_task_group, wait_all_tasks_blocked
from anyio.abc import TaskStatus

from asphalt.core import (
    AsyncResourceError,
    Context,
    ResourceConflict,
    ResourceEvent,
    ResourceNotFound,
)

pytestmark = pytest.mark.anyio


class A: ...


class B: ...


class C: ...


class D: ...


TYPES = [A, B, C, D, int, str]
NAMES = ["default", "x", "y"]
BAD_NAMES = ["", "a b", "a.b"]


class FactoryBoom(Exception):
    pass


def fields(event: ResourceEvent) -> tuple[Any, ...]:
    return (
        tuple(event.resource_types),
        event.resource_name,
        event.resource_description,
        event.is_factory,
    )


class Node:
    """A context, its listener log and its model."""

    def __init__(self, label: str, ctx: Context, parent: Node | None) -> None:
        self.label = label
        self.ctx = ctx
        self.received: list[ResourceEvent] = []
        self.expected: list[tuple[Any, ...]] = []
        if parent is None:
            self.resources: dict[tuple[type, str], bool] = {}
            self.factories: dict[tuple[type, str], dict[str, Any]] = {}
        else:
            self.resources = {
                k: gen for k, gen in parent.resources.items() if not gen
            }
            self.factories = dict(parent.factories)


class Harness:
    def __init__(self, tg: Any, stack: AsyncExitStack) -> None:
        self.tg = tg
        self.stack = stack
        self.nodes: list[Node] = []

    async def open(self, label: str, parent: Node | None) -> Node:
        ctx = Context(parent.ctx if parent else None)
        await self.stack.enter_async_context(ctx)
        node = Node(label, ctx, parent)
        await self.tg.start(self._listen, node)
        self.nodes.append(node)
        return node

    @staticmethod
    async def _listen(node: Node, *, task_status: TaskStatus[None]) -> None:
        async with node.ctx.resource_added.stream_events(
            max_queue_size=10000
        ) as stream:
            task_status.started()
            async for event in stream:
                node.received.append(event)

    async def verify(self) -> None:
        await wait_all_tasks_blocked()
        for node in self.nodes:
            got = [fields(e) for e in node.received]
            assert got == node.expected, node.label
            for event in node.received:
                assert type(event) is ResourceEvent
                assert event.source is node.ctx, node.label
                assert event.topic == "resource_added"

    # -- operations, each one updating the model ---------------------------------

    def add_resource(
        self,
        node: Node,
        value: Any,
        name: str,
        types: Any,
        description: str | None,
    ) -> None:
        if types:
            types_ = (types,) if isinstance(types, type) else tuple(types)
        else:
            types_ = (type(value),)

        if value is None or name in BAD_NAMES:
            expected_exc: type[BaseException] | None = ValueError
        elif any((t, name) in node.resources for t in types_):
            expected_exc = ResourceConflict
        else:
            expected_exc = None

        if expected_exc:
            with pytest.raises(expected_exc):
                node.ctx.add_resource(value, name, types, description=description)
        else:
            node.ctx.add_resource(value, name, types, description=description)
            for t in types_:
                node.resources[(t, name)] = False

            node.expected.append((types_, name, description, False))

    def add_factory(
        self,
        node: Node,
        kind: str,
        name: str,
        types: Any,
        description: str | None,
    ) -> None:
        info: dict[str, Any] = {"kind": kind, "calls": 0}

        def sync_factory() -> Any:
            info["calls"] += 1
            return ("generated", name, info["calls"])

        async def async_factory() -> Any:
            info["calls"] += 1
            return ("generated", name, info["calls"])

        def failing_factory() -> Any:
            info["calls"] += 1
            raise FactoryBoom

        callback = {
            "sync": sync_factory,
            "async": async_factory,
            "fail": failing_factory,
        }[kind]
        types_ = (types,) if isinstance(types, type) else tuple(types)
        if name in BAD_NAMES:
            expected_exc: type[BaseException] | None = ValueError
        elif any((t, name) in node.factories for t in types_):
            expected_exc = ResourceConflict
        else:
            expected_exc = None

        if expected_exc:
            with pytest.raises(expected_exc):
                node.ctx.add_resource_factory(
                    callback, name, types=types, description=description
                )
        else:
            node.ctx.add_resource_factory(
                callback, name, types=types, description=description
            )
            info.update(types=types_, name=name, description=description)
            for t in types_:
                node.factories[(t, name)] = info

            node.expected.append((types_, name, description, True))

    async def lookup(
        self, node: Node, type_: type, name: str, nowait: bool, optional: bool
    ) -> None:
        async def call() -> Any:
            if nowait:
                return node.ctx.get_resource_nowait(type_, name, optional=optional)
            else:
                return await node.ctx.get_resource(type_, name, optional=optional)

        key = (type_, name)
        if key in node.resources:
            # Merely returns an existing resource: no event
            assert await call() is not None
        elif key in node.factories:
            info = node.factories[key]
            calls_before = info["calls"]
            if info["kind"] == "fail":
                with pytest.raises(FactoryBoom):
                    await call()
            elif info["kind"] == "async" and nowait:
                with pytest.raises(AsyncResourceError):
                    await call()
            else:
                value = await call()
                assert value == ("generated", name, calls_before + 1)
                for t in info["types"]:
                    node.resources.setdefault((t, name), True)

                node.expected.append(
                    (info["types"], name, info["description"], False)
                )
        elif optional:
            assert await call() is None
        else:
            with pytest.raises(ResourceNotFound):
                await call()


@asynccontextmanager
async def harness() -> AsyncIterator[Harness]:
    async with create_task_group() as tg:
        try:
            async with AsyncExitStack() as stack:
                yield Harness(tg, stack)
        finally:
            # All contexts have been closed; stop the listeners
            tg.cancel_scope.cancel()


async def run_random_history(seed: int, steps: int = 120) -> None:
    rng = random.Random(seed)
    async with harness() as h:
        root = await h.open("root", None)
        open_points = {
            rng.randrange(5, 30): ("child1", "root"),
            rng.randrange(30, 50): ("grandchild", "child1"),
            rng.randrange(50, 80): ("child2", "root"),
        }
        by_label = {"root": root}
        for step in range(steps):
            if step in open_points:
                label, parent_label = open_points[step]
                if parent_label in by_label:
                    by_label[label] = await h.open(label, by_label[parent_label])

            # The most recently entered context is the current one, but resources can
            # be added to any open context in the tree
            node = rng.choice(h.nodes)
            name = rng.choice(NAMES + BAD_NAMES[: rng.randrange(0, 4)])
            description = rng.choice([None, "some description", f"step {step}"])
            op = rng.randrange(10)
            if op < 3:
                value: Any = rng.choice([A(), B(), 5, "text", None])
                types: Any = rng.choice(
                    [(), (), A, [A, B], (C, D), [int], (B, str)]
                )
                h.add_resource(node, value, name, types, description)
            elif op < 5:
                kind = rng.choice(["sync", "sync", "async", "fail"])
                types = rng.choice([A, [A, B], (C,), (C, D), [int, str], (B, D)])
                h.add_factory(node, kind, name, types, description)
            else:
                await h.lookup(
                    node,
                    rng.choice(TYPES),
                    rng.choice(NAMES),
                    nowait=rng.random() < 0.5,
                    optional=rng.random() < 0.5,
                )

            if step % 10 == 0:
                await h.verify()

        await h.verify()
        # Every context must have seen something for the run to be meaningful
        assert sum(len(n.expected) for n in h.nodes) > 10


@pytest.mark.parametrize("seed", range(200, 210))
async def test_random_histories(seed: int) -> None:
    await run_random_history(seed)


async def test_rejected_arguments_dispatch_nothing() -> None:
    """
    Calls rejected because of their arguments (bad or non-string names, None values,
    bad types, missing return annotation, non-callable teardown callback or factory)
    leave no trace: no event anywhere, and the same names can be used afterwards, each
    successful call then giving exactly one event.
    """
    async with harness() as h:
        root = await h.open("root", None)
        child = await h.open("child", root)
        ctx = child.ctx

        for bad_name in ["", "a b", "a.b", "ä-ö"]:
            with pytest.raises(ValueError):
                ctx.add_resource(1, bad_name)
            with pytest.raises(ValueError):
                ctx.add_resource_factory(lambda: 1, bad_name, types=[int])

        for non_string in [5, None, b"x", (int,), int]:
            with pytest.raises(TypeError):
                ctx.add_resource(1, non_string)  # type: ignore[arg-type]
            with pytest.raises(TypeError):
                ctx.add_resource_factory(
                    lambda: 1,
                    non_string,  # type: ignore[arg-type]
                    types=[int],
                )

        with pytest.raises(ValueError):
            ctx.add_resource(None, "x")
        with pytest.raises(TypeError):
            ctx.add_resource(1, "x", [int, 5])  # type: ignore[list-item]
        with pytest.raises(TypeError):
            ctx.add_resource(1, "x", teardown_callback=5)  # type: ignore[arg-type]
        with pytest.raises(ValueError):
            ctx.add_resource_factory(lambda: 1, "x")  # no return annotation
        with pytest.raises(TypeError):
            ctx.add_resource_factory(5, "x")  # type: ignore[arg-type]
        with pytest.raises(TypeError):
            ctx.add_resource_factory(lambda: 1, "x", types=[int, None])  # type: ignore[list-item]

        await h.verify()
        assert child.received == [] and root.received == []

        # Nothing was left behind by the failed calls
        h.add_resource(child, 1, "x", (), "d1")
        h.add_factory(child, "sync", "x", (int, str), "d2")
        await h.lookup(child, int, "x", nowait=True, optional=False)  # existing
        await h.lookup(child, str, "x", nowait=True, optional=False)  # generates
        await h.verify()
        assert [fields(e) for e in child.received] == [
            ((int,), "x", "d1", False),
            ((int, str), "x", "d2", True),
            ((int, str), "x", "d2", False),
        ]
        assert root.received == []


async def test_conflicts_dispatch_nothing_and_change_nothing() -> None:
    async with harness() as h:
        root = await h.open("root", None)
        h.add_resource(root, A(), "default", (A, B), None)
        h.add_factory(root, "sync", "default", (C, D), "fact")
        child = await h.open("child", root)

        for node in (root, child):
            # Conflicts on the second type only; also checks that the first type was not
            # half-registered by the failing call
            h.add_resource(node, B(), "default", (C, B), None)
            h.add_factory(node, "sync", "default", (A, D), None)
            with pytest.raises(ResourceConflict):
                node.ctx.add_resource_factory(lambda: 1, types=D)

        await h.verify()
        assert len(root.received) == 2
        assert child.received == []

        # (C, "default") was not taken as a resource, (A, "default") not as a factory
        h.add_resource(child, C(), "default", C, "late")
        h.add_factory(child, "async", "default", A, "late factory")
        await h.lookup(child, A, "default", nowait=False, optional=False)  # existing
        await h.lookup(child, D, "default", nowait=False, optional=False)  # generates
        await h.lookup(root, D, "default", nowait=True, optional=False)  # generates
        await h.verify()
        assert [fields(e) for e in child.received] == [
            ((C,), "default", "late", False),
            ((A,), "default", "late factory", True),
            ((C, D), "default", "fact", False),
        ]
        assert [fields(e) for e in root.received][2:] == [
            ((C, D), "default", "fact", False)
        ]


async def test_wrong_state_dispatches_nothing() -> None:
    """Adding to contexts that are not open fails without any event."""
    async with harness() as h:
        root = await h.open("root", None)
        inactive = Context(root.ctx)
        with pytest.raises(RuntimeError):
            inactive.add_resource(1)
        with pytest.raises(RuntimeError):
            inactive.add_resource_factory(lambda: 1, types=[int])

        closing_events: list[Any] = []

        def teardown() -> None:
            # Still allowed while closing, and announced on the closing context only
            closing.ctx.add_resource("late", "bye", description="from teardown")
            with pytest.raises(RuntimeError):
                closing.ctx.add_resource_factory(lambda: 1, "bye", types=[int])

            closing_events.append("ran")

        async with AsyncExitStack() as inner_stack:
            inner = Harness(h.tg, inner_stack)
            closing = await inner.open("closing", root)
            closing.ctx.add_teardown_callback(teardown)

        closing.expected.append(((str,), "bye", "from teardown", False))
        h.nodes.append(closing)
        await h.verify()
        assert closing_events == ["ran"]
        assert len(closing.received) == 1
        assert root.received == []

        with pytest.raises(RuntimeError):
            closing.ctx.add_resource(1)
        with pytest.raises(RuntimeError):
            closing.ctx.get_resource_nowait(str, "bye")

        await h.verify()
