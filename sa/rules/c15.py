"""C15 - run_application: every ending tears down the root context, exits as documented."""
from __future__ import annotations

import ast

from ..cfg import handler_names, iter_own
from ..loader import AnalysisError, FuncInfo, dotted, walk_own
from .common import Anchors, call_name, include_rules, is_const, names_in
from .discharge import controlling_tests


def async_runner(ctx) -> tuple:
    ra = ctx.p.public("run_application")
    if not isinstance(ra, FuncInfo):
        raise AnalysisError("anchor-missing run_application")
    for call, c in ctx.a.func_calls(ra):
        if call_name(call) == "run" and call.args and isinstance(call.args[0], ast.Name):
            r = ctx.a.r.resolve_name(ra, call.args[0].id)
            if isinstance(r, FuncInfo) and r.is_async:
                return ra, r, call
    raise AnalysisError("anchor-missing async runner passed to anyio.run by run_application")


def run(ctx) -> None:
    rep = ctx.rep
    a = ctx.a
    an = Anchors(a)
    RA, R, anyio_call = async_runner(ctx)
    cfg = a.cfg(R)
    normal = lambda s, d, lab: lab not in ("e", "h")  # noqa: E731

    # ------------------------------------------------------------------ anchors inside the runner
    ctx_with = [w for w in walk_own(R.node) if isinstance(w, ast.AsyncWith) and any(isinstance(i.context_expr, ast.Call) and a.callee(R, i.context_expr).kind == "class" and a.callee(R, i.context_expr).cls is an.Context for i in w.items)]
    if len(ctx_with) != 1:
        rep.violate("C15.R1", R, R.node, f"the runner has {len(ctx_with)} `async with Context()` blocks (exactly one root context expected)")
        return
    W = ctx_with[0]
    inside = lambda node: any(x is node for x in ast.walk(W))  # noqa: E731
    awaits = [n for n in walk_own(R.node) if isinstance(n, ast.Await)]
    sc_await = [n for n in awaits if isinstance(n.value, ast.Call) and a.callee(R, n.value).kind == "func" and a.callee(R, n.value).func is an.start_component]
    sst_await = [n for n in awaits if isinstance(n.value, ast.Call) and a.callee(R, n.value).kind == "func" and a.callee(R, n.value).func.name == "start_service_task"]
    run_await = [n for n in awaits if isinstance(n.value, ast.Call) and call_name(n.value) == "run" and isinstance(n.value.func, ast.Attribute)]
    wait_await = [n for n in awaits if isinstance(n.value, ast.Call) and call_name(n.value) == "wait"]

    # ------------------------------------------------------------------ R1 lexical enclosure
    for what, lst in (("start_component", sc_await), ("the signal-handler service task", sst_await), ("the CLI run()", run_await), ("the shutdown wait", wait_await)):
        if not lst:
            rep.violate("C15.R1", R, R.node, f"{what} is not awaited by the runner")
            continue
        rep.check("C15.R1", all(inside(x) for x in lst), R, lst[0], f"{what} runs inside the root `async with Context()` block", f"{what} runs outside the root context block: that ending does not tear down the root context")
    rets = [n for n in cfg.live_nodes() if n.kind == "stmt" and isinstance(n.ast, ast.Return)]
    ctx_enter = [n for n in cfg.live_nodes() if n.kind == "with_enter" and n.ast is W]
    for r in rets:
        ok = inside(r.ast) or (ctx_enter and cfg.dominates(ctx_enter[0].id, r.id))
        rep.check("C15.R1", bool(ok), R, r.ast, "the status is returned from inside (or after) the root context block", "a status is returned before the root context was entered")
    rep.floor("C15.R1", len(rets), 5)
    # what teardown does is C01 (the crash-of-a-service-task case cancels the root scope: the loop must survive BaseException)
    include_rules(ctx, "c01", "C15.R1", only=("C01.R1", "C01.R2", "C01.R3", "C01.R5", "C01.R6", "C01.R7", "C01.R8"))
    include_rules(ctx, "c08", "C15.R1", only=("C08.R2", "C08.R3"))
    # a clean ending stays clean only if child contexts (service tasks' own contexts) are
    # unlinked on every exit route: otherwise the root reports "stack corruption"
    include_rules(ctx, "c13", "C15.R1", only=("C13.R4",))

    # "timing out during startup": the caller's start timeout is the one start_component gets
    if sc_await:
        scall = sc_await[0].value
        tkw = [k.value for k in scall.keywords if k.arg == "timeout"] + (list(scall.args[2:3]) if len(scall.args) >= 3 else [])
        t_param = tkw[0].id if tkw and isinstance(tkw[0], ast.Name) and tkw[0].id in R.params else None
        ok_t = t_param is not None
        if ok_t:
            # ... and run_application hands its own parameter to that position
            idx = R.params.index(t_param)
            pos = anyio_call.args[1:] if anyio_call is not None else []
            ok_t = idx < len(pos) and isinstance(pos[idx], ast.Name) and pos[idx].id in RA.params
        rep.check("C15.R2", ok_t, R, scall, "run_application's start timeout reaches start_component(timeout=...)", "the start timeout given to run_application is not the one start_component is called with: a stalling startup is not ended after the requested time (the default applies, or none)")

    # ------------------------------------------------------------------ R2 exit-code table
    matched = set()
    # startup endings
    if sc_await:
        hs = a.covering_handlers(R, sc_await[0])
        tries = [t for t in walk_own(R.node) if isinstance(t, ast.Try) and hs and hs[0] in t.handlers]
        handlers = list(tries[0].handlers) if tries else []
        cancel_h = [h for h in handlers if h.type is not None and "TimeoutError" in ast.unparse(h.type)]
        other_h = [h for h in handlers if h not in cancel_h]
        merged_h = None
        if not cancel_h and other_h and (other_h[0].type is None or handler_names(other_h[0].type) & {"BaseException"}):
            # one catch-all for both rows: `except BaseException as exc: if not isinstance(exc,
            # (cancelled, TimeoutError)): log(...); return 1`
            h0 = other_h[0]
            hr0 = [x for x in ast.walk(h0) if isinstance(x, ast.Return)]
            tail_ret = bool(h0.body) and isinstance(h0.body[-1], ast.Return) and is_const(h0.body[-1].value, 1)
            if tail_ret and all(is_const(x.value, 1) for x in hr0) and not any(isinstance(x, ast.Raise) for x in ast.walk(h0)):
                merged_h = h0
        if merged_h is not None:
            rep.hold("C15.R2", R, merged_h, "row 'startup cancelled / timed out' -> 1 (the catch-all handler returns 1 for every exception)")
            matched.add("startup-cancelled")
            # the log line may be skipped only for cancellation / timeout
            for st_ in ast.walk(merged_h):
                if isinstance(st_, ast.If) and any(isinstance(x, ast.Call) and call_name(x) in ("exception", "error") for b in st_.body + st_.orelse for x in ast.walk(b)):
                    t_ = ast.unparse(st_.test)
                    in_body = any(isinstance(x, ast.Call) and call_name(x) in ("exception", "error") for b in st_.body for x in ast.walk(b))
                    negated = isinstance(st_.test, ast.UnaryOp) and isinstance(st_.test.op, ast.Not)
                    only_quiet = "isinstance" in t_ and not (set(handler_names(st_.test.operand.args[1]) if negated and isinstance(st_.test.operand, ast.Call) and len(st_.test.operand.args) == 2 else handler_names(st_.test.args[1]) if isinstance(st_.test, ast.Call) and len(st_.test.args) == 2 else {"?"}) - {"TimeoutError", "<call>get_cancelled_exc_class", "<call>anyio.get_cancelled_exc_class", "CancelledError", "Cancelled"})
                    rep.check("C15.R2", only_quiet and (negated == in_body), R, st_, "the startup error is logged unless it is a cancellation / timeout", "the startup failure log is skipped for other exceptions than cancellation / timeout")
        elif not cancel_h:
            rep.violate("C15.R2", R, sc_await[0], "a startup timeout / a signal during startup is not mapped to exit status 1")
        else:
            h = cancel_h[0]
            txt = ast.unparse(h.type)
            rep.check("C15.R2", "get_cancelled_exc_class" in txt and "TimeoutError" in txt, R, h, "startup cancelled by a signal or timed out is caught", f"the handler catches `{txt}`, not (cancellation, TimeoutError)")
            hr = [x for x in ast.walk(h) if isinstance(x, ast.Return)]
            rep.check("C15.R2", len(hr) == 1 and is_const(hr[0].value, 1) and not any(isinstance(x, ast.Raise) for x in ast.walk(h)), R, h, "row 'startup cancelled / timed out' -> 1", "a cancelled / timed-out startup does not return status 1")
            matched.add("startup-cancelled")
        if not other_h:
            rep.violate("C15.R2", R, sc_await[0], "any other startup failure is not mapped to exit status 1")
        else:
            h = other_h[0]
            rep.check("C15.R2", h.type is None or handler_names(h.type) & {"BaseException", "Exception"}, R, h, "every other exception from start_component is caught", f"only `{ast.unparse(h.type) if h.type else ''}` is caught for startup failures")
            hr = [x for x in ast.walk(h) if isinstance(x, ast.Return)]
            logged = any(isinstance(x, ast.Call) and call_name(x) in ("exception", "error") for x in ast.walk(h))
            rep.check("C15.R2", len(hr) == 1 and is_const(hr[0].value, 1) and logged, R, h, "row 'startup failure' -> 1 (logged)", "a startup failure does not return status 1 with the error logged")
            matched.add("startup-failed")
            rep.check("C15.R2", handlers.index(cancel_h[0]) < handlers.index(h) if cancel_h else True, R, h, "the cancellation/timeout handler precedes the catch-all", "the catch-all precedes the cancellation handler")
    # CLI result ladder
    if run_await:
        rn = [n for n in cfg.live_nodes() if cfg.own_ast(n) is not None and any(x is run_await[0] for x in iter_own(cfg.own_ast(n)))][0]
        X = rn.ast.targets[0].id if isinstance(rn.ast, ast.Assign) and isinstance(rn.ast.targets[0], ast.Name) else None
        from .discharge import controlling_conditions

        cts = controlling_conditions(cfg, rn)
        rep.check("C15.R2", any(truth and "isinstance" in ast.unparse(e) and "CLIApplicationComponent" in ast.unparse(e) for e, truth, _t in cts), R, run_await[0], "run() is awaited iff the root component is a CLIApplicationComponent", "run() is not selected by isinstance(component, CLIApplicationComponent)")
        rep.check("C15.R2", not a.covering_handlers(R, run_await[0]), R, run_await[0], "an exception from run() propagates (no handler)", "an exception raised by run() is caught: the crash does not propagate")
        if X is None:
            rep.unrecognised("C15.R2", R, rn.ast, "the result of run() is not bound to a variable")
        else:
            # Exhaustive case analysis on the class of the run() result.  For each case the
            # returns that remain possible (branch facts) must all be the documented one.
            from ..dataflow import ReachingDefs
            from ..facts import Facts

            rrd = ReachingDefs(a, R)
            facts = Facts(a, R, rrd)
            after = cfg.reach([d for d, lab in rn.succ if lab not in ("e", "h")], edge_ok=normal)
            cli_rets = [cfg.nodes[i] for i in sorted(after) if cfg.nodes[i].kind == "stmt" and isinstance(cfg.nodes[i].ast, ast.Return)]
            warn_nodes = [cfg.nodes[i].id for i in after if any(call_name(cl) == "warn" for cl, _ in a.node_calls(R, cfg, cfg.nodes[i]))]
            cases = {
                "int-in-range": (f"isinstance({X}, int) and 0 <= {X} <= 127", "X", False),
                "int-out-of-range": (f"isinstance({X}, int) and not (0 <= {X} <= 127)", 1, True),
                "none": (f"not isinstance({X}, int) and {X} is None", 0, False),
                "other-type": (f"not isinstance({X}, int) and {X} is not None", 1, True),
            }
            int_tests = [t for t in cfg.live_nodes() if t.id in after and t.kind == "test" and f"isinstance({X}, int)" in rrd.text(t.id, t.ast)]
            if not int_tests:
                rep.violate("C15.R2", R, rn.ast, "the run() result is not tested for being an int")
            for cname, (cond, want, must_warn) in cases.items():
                cexpr = ast.parse(cond, mode="eval").body
                possible = [r for r in cli_rets if facts.possible(r.id, cexpr, True, within=[rn.id])]
                if not possible:
                    rep.violate("C15.R2", R, rn.ast, f"no exit of the runner handles a run() result of class '{cname}'")
                    continue
                bad = []
                for r in possible:
                    v = r.ast.value
                    if want == "X":
                        okv = v is not None and rrd.text(r.id, v) == X
                    elif want == 0:
                        # run_application converts by truthiness (C15.R3): None and 0 both mean
                        # "return normally"
                        okv = v is None or is_const(v, 0) or is_const(v, None)
                    else:
                        okv = v is not None and is_const(v, want)
                    warned = bool(warn_nodes) and cfg.all_paths_pass(rn.id, [r.id], warn_nodes, edge_ok=normal)
                    if not okv or (must_warn and not warned):
                        bad.append((r, okv, warned))
                if bad:
                    r, okv, warned = bad[0]
                    what = {"int-in-range": "an int in 0..127 must be returned as the status", "int-out-of-range": "an int outside 0..127 must give status 1 and a warning", "none": "None must give status 0", "other-type": "a non-int, non-None result must give status 1 and a warning (falsy values such as '' or 0.0 included)"}[cname]
                    rep.violate("C15.R2", R, r.ast, f"row '{cname}': {what}, but `{ast.unparse(r.ast)}`{'' if warned or not must_warn else ' (without warning)'} is reachable for such a result")
                else:
                    rep.hold("C15.R2", R, possible[0].ast, f"row '{cname}' -> {'that int' if want == 'X' else want}{' + warning' if must_warn else ''} ({len(possible)} exit(s) possible for this case, all as documented)")
                    matched.add(cname)
            rng = [t for t in cfg.live_nodes() if t.id in after and t.kind == "test" and X in names_in(t.ast) and isinstance(t.ast, ast.Compare) and len(t.ast.ops) == 2]
            for t in rng:
                c = t.ast
                in_range = isinstance(c.ops[0], ast.LtE) and isinstance(c.ops[1], ast.LtE) and is_const(c.left, 0) and is_const(c.comparators[1], 127)
                rep.check("C15.R2", in_range, R, c, "the accepted range is 0 <= code <= 127", f"the accepted range is `{ast.unparse(c)}`")
    # non-CLI
    if wait_await:
        wn = [n for n in cfg.live_nodes() if cfg.own_ast(n) is not None and any(x is wait_await[0] for x in iter_own(cfg.own_ast(n)))][0]
        after = cfg.reach([wn.id], edge_ok=normal)
        wr = [cfg.nodes[i] for i in after if cfg.nodes[i].kind == "stmt" and isinstance(cfg.nodes[i].ast, ast.Return)]
        rep.check("C15.R2", len(wr) == 1 and (wr[0].ast.value is None or is_const(wr[0].ast.value, 0) or is_const(wr[0].ast.value, None)), R, wait_await[0], "row 'non-CLI: shutdown event set' -> 0", "a termination signal after startup of a non-CLI application does not give status 0")
        rep.check("C15.R2", not a.covering_handlers(R, wait_await[0]), R, wait_await[0], "a crash while waiting propagates (no handler)", "exceptions while waiting for shutdown are caught")
        matched.add("non-cli-signal")
    # no handler in the outer structure swallows
    outer_tries = [t for t in walk_own(R.node) if isinstance(t, ast.Try) and any(x is W for b in t.body for x in ast.walk(b))]
    for t in outer_tries:
        rep.check("C15.R2", not t.handlers, R, t, "the outer try has only a finally (crashes after startup propagate)", "the outer try has handlers: a crash after startup does not propagate")
    want = {"startup-cancelled", "startup-failed", "int-in-range", "int-out-of-range", "other-type", "none", "non-cli-signal"}
    rep.check("C15.R2", matched == want, R, R.node, "every row of the documented exit table is matched by exactly one exit of the runner", f"rows not matched: {sorted(want - matched)}")
    # every literal return is 0 or 1 or the validated code
    for r in rets:
        v = r.ast.value
        ok = v is None or is_const(v, 0) or is_const(v, None) or is_const(v, 1) or isinstance(v, ast.Name)
        rep.check("C15.R2", ok, R, r.ast, "status value in the documented set", f"undocumented status `{ast.unparse(v)}`")
    rep.exhaustive = True

    # ------------------------------------------------------------------ R3 process exit
    racfg = a.cfg(RA)
    exits = [c for c in walk_own(RA.node) if isinstance(c, ast.Call) and call_name(c) == "exit"]
    if not exits:
        rep.violate("C15.R3", RA, RA.node, "run_application never calls sys.exit with the status")
    else:
        ex = exits[0]
        en = racfg.nodes_containing(ex)[0]
        from .discharge import controlling_conditions

        code_var = ex.args[0].id if ex.args and isinstance(ex.args[0], ast.Name) else None
        ok = False
        for e, truth, _t in controlling_conditions(racfg, en):
            if truth and isinstance(e, ast.NamedExpr) and e.target.id == code_var and e.value is anyio_call:
                ok = True
            if truth and isinstance(e, ast.Name) and e.id == code_var:
                ok = True
        rep.check("C15.R3", ok, RA, ex, "sys.exit(code) iff the runner's status is non-zero, with that status", "the process exit status is not `sys.exit(status) iff status`")
        rep.check("C15.R3", anyio_call.args and isinstance(anyio_call.args[0], ast.Name) and a.r.resolve_name(RA, anyio_call.args[0].id) is R, RA, anyio_call, "the status comes from the async runner", "sys.exit does not use the async runner's result")
        rep.check("C15.R3", not a.covering_handlers(RA, anyio_call), RA, anyio_call, "an exception from the event loop run propagates to the caller", "run_application swallows exceptions from the event loop run")

    # ------------------------------------------------------------------ R4 signal wiring
    scope_with = [w for w in walk_own(R.node) if isinstance(w, ast.With) and any("CancelScope" in ast.unparse(i.context_expr) for i in w.items)]
    if not scope_with or not sst_await or not sc_await:
        rep.violate("C15.R4", R, R.node, "startup is not wrapped in a cancel scope handed to a signal handler task")
        return
    SW = scope_with[0]
    scope_var = SW.items[0].optional_vars.id if isinstance(SW.items[0].optional_vars, ast.Name) else None
    in_sw = lambda node: any(x is node for x in ast.walk(SW))  # noqa: E731
    rep.check("C15.R4", in_sw(sc_await[0]) and in_sw(sst_await[0]), R, SW, "start_component (and the start of the signal handler) run inside the startup cancel scope", "start_component is not inside the startup cancel scope: a signal during startup cannot stop it")
    rep.check("C15.R4", not any(in_sw(x) for x in run_await + wait_await), R, SW, "the startup scope ends before run() / the shutdown wait: a later signal cannot cancel anything, it only sets the event", "run() or the shutdown wait is inside the startup cancel scope: a signal after startup cancels the application instead of shutting it down cleanly")
    sst_n = [n for n in cfg.live_nodes() if cfg.own_ast(n) is not None and any(x is sst_await[0] for x in iter_own(cfg.own_ast(n)))]
    sc_n = [n for n in cfg.live_nodes() if cfg.own_ast(n) is not None and any(x is sc_await[0] for x in iter_own(cfg.own_ast(n)))]
    rep.check("C15.R4", bool(sst_n) and bool(sc_n) and sc_n[0].id in cfg.reach([sst_n[0].id]) and sst_n[0].id not in cfg.reach([sc_n[0].id], include_start=False), R, sst_await[0], "the signal handler is running before start_component begins", "start_component begins before the signal handler is installed")
    sst_call = sst_await[0].value
    part = sst_call.args[0] if sst_call.args else None
    hs_fn = None
    if isinstance(part, ast.Call) and call_name(part) == "partial" and part.args and isinstance(part.args[0], ast.Name):
        hs_fn = a.r.resolve_name(R, part.args[0].id)
    ev_var = wait_await[0].value.func.value.id if wait_await and isinstance(wait_await[0].value.func.value, ast.Name) else None
    if not isinstance(hs_fn, FuncInfo):
        rep.unrecognised("C15.R4", R, sst_call, "cannot resolve the signal handler function")
        return
    pargs = [ast.unparse(x) for x in part.args[1:]]
    rep.check("C15.R4", pargs == [scope_var, ev_var], R, part, "the handler gets the startup scope and the very event the non-CLI branch awaits", f"the handler is started with ({', '.join(pargs)}) instead of ({scope_var}, {ev_var})")
    rep.check("C15.R4", not any(k.arg == "teardown_action" for k in sst_call.keywords), R, sst_call, "the handler task uses the default teardown action (cancel)", "the signal handler task is not cancelled at teardown")
    hp_scope, hp_event = hs_fn.params[0], hs_fn.params[1]
    loops = [l for l in walk_own(hs_fn.node) if isinstance(l, ast.AsyncFor)]
    cancels = [c for c in walk_own(hs_fn.node) if isinstance(c, ast.Call) and call_name(c) == "cancel" and dotted(c.func.value) == hp_scope]
    sets = [c for c in walk_own(hs_fn.node) if isinstance(c, ast.Call) and call_name(c) == "set" and dotted(c.func.value) == hp_event]
    ok = bool(loops) and bool(cancels) and bool(sets) and all(any(x is c for x in ast.walk(loops[0])) for c in cancels + sets)
    rep.check("C15.R4", ok, hs_fn, hs_fn.node, "on a signal the handler cancels the startup scope and sets the shutdown event", "the handler does not both cancel the startup scope and set the shutdown event when a signal arrives")
    recv = [c for c in walk_own(hs_fn.node) if isinstance(c, ast.Call) and call_name(c) == "open_signal_receiver"]
    sigs = {ast.unparse(x).split(".")[-1] for x in recv[0].args} if recv else set()
    rep.check("C15.R4", sigs == {"SIGTERM", "SIGINT"}, hs_fn, recv[0] if recv else hs_fn.node, "SIGTERM and SIGINT are received", f"the handler listens for {sorted(sigs)}")
    started = [c for c in walk_own(hs_fn.node) if isinstance(c, ast.Call) and call_name(c) == "started"]
    withs = [w for w in walk_own(hs_fn.node) if isinstance(w, ast.With)]
    rep.check("C15.R4", bool(started) and bool(withs) and any(x is started[0] for x in ast.walk(withs[0])), hs_fn, started[0] if started else hs_fn.node, "started() is reported once the receiver is open (no signal is lost during startup)", "the handler reports started() before the signal receiver is open")
    rep.assume("delivery of POSIX signals by anyio / the OS; Windows installs no handler by design")
