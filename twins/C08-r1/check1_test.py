"""
Behaviour check for refactoring 1 (finalizer of a service task moved out of
``Context.start_service_task`` into a module level helper).

Exercises the three kinds of ``teardown_action`` through the public API and checks
that the teardown of the owning context does not proceed to callbacks registered
before the service task was started until the task has completely finished.
"""

from __future__ import annotations

import logging
from typing import Any

import anyio
import pytest
from anyio import fail_after, sleep
from pytest import LogCaptureFixture

from asphalt.core import Context, add_resource, start_service_task

pytestmark = pytest.mark.anyio()


async def test_cancel_waits_for_slow_cleanup_before_earlier_callbacks() -> None:
    log: list[str] = []

    async def service() -> None:
        log.append("task started")
        try:
            await anyio.sleep_forever()
        finally:
            with anyio.CancelScope(shield=True):
                await sleep(0.05)
                await anyio.lowlevel.checkpoint()

            log.append("task cleaned up")

    with fail_after(3):
        async with Context() as ctx:
            ctx.add_teardown_callback(lambda: log.append("cb before task"))
            add_resource("res", teardown_callback=lambda: log.append("res torn down"))
            await start_service_task(service, "slow")
            ctx.add_teardown_callback(lambda: log.append("cb after task"))
            log.append("body done")

        log.append("left block")

    assert log == [
        "task started",
        "body done",
        "cb after task",
        "task cleaned up",
        "res torn down",
        "cb before task",
        "left block",
    ]


@pytest.mark.parametrize("use_async", [False, True], ids=["sync", "async"])
async def test_callable_called_once_then_task_awaited(use_async: bool) -> None:
    log: list[str] = []
    calls = 0
    stop = anyio.Event()

    def sync_action() -> None:
        nonlocal calls
        calls += 1
        log.append("action")
        stop.set()

    async def async_action() -> None:
        nonlocal calls
        calls += 1
        log.append("action")
        await sleep(0.01)
        stop.set()

    async def service() -> None:
        await stop.wait()
        await sleep(0.05)
        log.append("task finished")

    with fail_after(3):
        async with Context() as ctx:
            ctx.add_teardown_callback(lambda: log.append("early cb"))
            await start_service_task(
                service,
                "svc",
                teardown_action=async_action if use_async else sync_action,
            )

    assert calls == 1
    assert log == ["action", "task finished", "early cb"]


@pytest.mark.parametrize("use_async", [False, True], ids=["sync", "async"])
async def test_raising_callable_falls_back_to_cancel(
    use_async: bool, caplog: LogCaptureFixture
) -> None:
    caplog.set_level(logging.ERROR, "asphalt.core")
    log: list[str] = []
    calls = 0

    def sync_action() -> None:
        nonlocal calls
        calls += 1
        raise RuntimeError("teardown action failed")

    async def async_action() -> None:
        nonlocal calls
        calls += 1
        await sleep(0.01)
        raise RuntimeError("teardown action failed")

    async def service() -> None:
        try:
            await anyio.sleep_forever()
        except anyio.get_cancelled_exc_class():
            log.append("task cancelled")
            raise

    with fail_after(3):
        async with Context() as ctx:
            ctx.add_teardown_callback(lambda: log.append("early cb"))
            await start_service_task(
                service,
                "svc",
                teardown_action=async_action if use_async else sync_action,
            )

    assert calls == 1
    assert log == ["task cancelled", "early cb"]
    assert len(caplog.messages) == 1
    assert caplog.messages[0].startswith("Error calling teardown callback (")
    assert caplog.messages[0].endswith("_action) for service task 'svc'")
    assert caplog.records[0].exc_info is not None
    assert isinstance(caplog.records[0].exc_info[1], RuntimeError)


async def test_none_action_just_awaits_task() -> None:
    log: list[str] = []

    async def service() -> None:
        await sleep(0.1)
        log.append("task finished by itself")

    with fail_after(3):
        async with Context() as ctx:
            ctx.add_teardown_callback(lambda: log.append("early cb"))
            await start_service_task(service, "svc", teardown_action=None)
            log.append("body done")

    assert log == ["body done", "task finished by itself", "early cb"]


async def test_invalid_teardown_action_starts_nothing() -> None:
    started = False

    async def service() -> None:
        nonlocal started
        started = True

    async with Context() as ctx:
        for bad in ("stop", 1, b"cancel", object()):
            with pytest.raises(ValueError, match="teardown_action must be a callable"):
                await start_service_task(service, "svc", teardown_action=bad)  # type: ignore[arg-type]

        await sleep(0.01)
        assert not started
        assert ctx._teardown_callbacks == []


async def test_start_value_and_debug_log_messages(caplog: LogCaptureFixture) -> None:
    caplog.set_level(logging.DEBUG, "asphalt.core")
    stop = anyio.Event()

    def stop_it() -> None:
        stop.set()

    async def service(*, task_status: Any) -> None:
        task_status.started("the value")
        await stop.wait()

    async with Context():
        retval = await start_service_task(service, "svc1", teardown_action=stop_it)
        assert retval == "the value"
        assert await start_service_task(anyio.sleep_forever, "svc2") is None

    messages = [m for m in caplog.messages if "service task" in m.lower()]
    assert messages == [
        "Background task (Service task: svc1) starting",
        "Background task (Service task: svc2) starting",
        "Cancelling service task 'svc2'",
        "Waiting for service task 'svc2' to finish",
        "Background task (Service task: svc2) finished successfully",
        "Service task 'svc2' finished",
        f"Calling teardown callback ({__name__}."
        f"test_start_value_and_debug_log_messages.<locals>.stop_it) for service "
        f"task 'svc1'",
        "Waiting for service task 'svc1' to finish",
        "Background task (Service task: svc1) finished successfully",
        "Service task 'svc1' finished",
    ]


async def test_nested_context_tasks_stop_with_their_own_context() -> None:
    log: list[str] = []

    def make_service(label: str) -> Any:
        async def service() -> None:
            try:
                await anyio.sleep_forever()
            finally:
                log.append(f"{label} stopped")

        return service

    with fail_after(3):
        async with Context():
            await start_service_task(make_service("outer"), "outer")
            async with Context() as inner:
                inner.add_teardown_callback(lambda: log.append("inner early cb"))
                await start_service_task(make_service("inner"), "inner")

            log.append("left inner")

        log.append("left outer")

    assert log == [
        "inner stopped",
        "inner early cb",
        "left inner",
        "outer stopped",
        "left outer",
    ]
