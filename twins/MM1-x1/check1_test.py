"""
Behaviour checks for refactoring 1 (helper extraction in Context construction,
``__aenter__`` and the teardown machinery).

Everything here goes through the public API only.
"""

from __future__ import annotations

import sys
from typing import Any

import pytest
from anyio import create_task_group, sleep
from anyio.lowlevel import checkpoint

from asphalt.core import (
    Component,
    Context,
    NoCurrentContext,
    add_teardown_callback,
    current_context,
    get_resource_nowait,
    start_component,
)

if sys.version_info < (3, 11):
    from exceptiongroup import BaseExceptionGroup, ExceptionGroup

pytestmark = pytest.mark.anyio()


class TestParentResolution:
    async def test_no_parent_no_current(self) -> None:
        ctx = Context()
        assert ctx.parent is None
        assert not ctx.closed
        with pytest.raises(NoCurrentContext):
            current_context()

    async def test_explicit_parent_wins_over_current(self) -> None:
        async with Context() as root:
            async with Context() as current:
                child = Context(root)
                assert child.parent is root
                implicit = Context()
                assert implicit.parent is current

    async def test_resources_copied_at_construction_time(self) -> None:
        async with Context() as root:
            root.add_resource(1, "one")
            root.add_resource_factory(lambda: 2.5, types=[float])
            # Generate a resource in the root context: must NOT be inherited
            assert root.get_resource_nowait(float) == 2.5

            child = Context()
            root.add_resource(2, "two")  # added after the copy was made
            async with child:
                assert child.get_resource_nowait(int, "one") == 1
                assert child.get_resource_nowait(int, "two", optional=True) is None
                assert child.get_resources(float) == {}
                # ...but the factory is inherited and generates a fresh value
                assert child.get_resource_nowait(float) == 2.5
                assert set(child.get_resources(float)) == {"default"}
                # Additions to the child don't leak to the parent
                child.add_resource("x", "str")
                assert root.get_resource_nowait(str, "str", optional=True) is None

    async def test_component_context_is_skipped_as_parent(self) -> None:
        seen: dict[str, Any] = {}

        class Child(Component):
            async def start(self) -> None:
                component_ctx = current_context()
                new_ctx = Context()
                seen["component_ctx_type"] = type(component_ctx).__name__
                seen["child_parent"] = new_ctx.parent
                explicit = Context(component_ctx)
                seen["explicit_parent"] = explicit.parent
                async with new_ctx:
                    seen["inner_current"] = current_context()
                    seen["inherited"] = get_resource_nowait(str, "marker")

                seen["after_inner"] = current_context()
                seen["component_ctx"] = component_ctx

        class Root(Component):
            def __init__(self) -> None:
                self.add_component("child", Child)

        async with Context() as root:
            root.add_resource("hello", "marker")
            await start_component(Root)

        assert seen["component_ctx_type"] == "ComponentContext"
        assert seen["child_parent"] is root
        assert seen["explicit_parent"] is root
        assert seen["inherited"] == "hello"
        assert seen["after_inner"] is seen["component_ctx"]


class TestEnterExit:
    async def test_current_context_and_child_tracking(self) -> None:
        with pytest.raises(NoCurrentContext):
            current_context()

        async with Context() as root:
            assert current_context() is root
            async with Context() as child:
                assert current_context() is child
                assert child.parent is root
                async with Context() as grandchild:
                    assert grandchild.parent is child
                    assert current_context() is grandchild

                assert current_context() is child

            assert current_context() is root
            assert child.closed and grandchild.closed and not root.closed

        assert root.closed
        with pytest.raises(NoCurrentContext):
            current_context()

    async def test_stack_corruption_message(self) -> None:
        async with Context():
            outer = Context()
            with pytest.raises(RuntimeError) as exc:
                async with outer:
                    inner = Context()
                    await inner.__aenter__()

            assert str(exc.value) == (
                f"Context stack corruption detected: context {id(outer):x} still has "
                f"1 active child context(s)"
            )
            assert outer.closed
            assert not inner.closed
            # The outer context reset the context variable to what it was before
            # *it* was entered, and closing the inner one restores ``outer``
            await inner.__aexit__(None, None, None)
            assert inner.closed

    async def test_enter_twice_and_reenter_after_close(self) -> None:
        async with Context() as ctx:
            with pytest.raises(RuntimeError, match="^this context has already been e"):
                await ctx.__aenter__()

            assert current_context() is ctx

        with pytest.raises(RuntimeError, match="^this context has already been closed"):
            await ctx.__aenter__()

    async def test_service_task_in_child_uses_root_task_group(self) -> None:
        events: list[str] = []

        async def service() -> None:
            events.append("service started")
            try:
                await sleep(10)
            finally:
                events.append("service cancelled")

        async with Context() as root:
            async with Context() as child:
                await child.start_service_task(service, "svc")
                await checkpoint()

            events.append("child closed")

        events.append("root closed")
        assert events == [
            "service started",
            "service cancelled",
            "child closed",
            "root closed",
        ]


class TestTeardown:
    async def test_order_and_arguments(self) -> None:
        trace: list[Any] = []

        def plain() -> None:
            trace.append("plain")

        def with_exc(exc: BaseException | None) -> None:
            trace.append(("with_exc", exc))

        async def async_plain() -> None:
            await checkpoint()
            trace.append("async_plain")

        async def async_with_exc(exc: BaseException | None) -> None:
            await checkpoint()
            trace.append(("async_with_exc", exc))

        def adds_more() -> None:
            trace.append("adds_more")
            ctx.add_teardown_callback(lambda: trace.append("late"))

        async with Context():
            async with Context() as ctx:
                ctx.add_teardown_callback(plain)
                ctx.add_teardown_callback(with_exc, True)
                ctx.add_teardown_callback(async_plain)
                ctx.add_teardown_callback(async_with_exc, pass_exception=True)
                ctx.add_teardown_callback(adds_more)
                add_teardown_callback(lambda: trace.append("shortcut"))

            trace.append("closed")

        assert trace == [
            "shortcut",
            "adds_more",
            "late",
            ("async_with_exc", None),
            "async_plain",
            ("with_exc", None),
            "plain",
            "closed",
        ]

    async def test_exception_is_passed_and_propagates(self) -> None:
        trace: list[Any] = []
        error = LookupError("boom")
        async with Context():
            with pytest.raises(LookupError) as exc:
                async with Context() as ctx:
                    ctx.add_teardown_callback(lambda e: trace.append(e), True)
                    ctx.add_teardown_callback(lambda: trace.append("noarg"))
                    # A truthy non-bool is accepted as pass_exception too
                    ctx.add_teardown_callback(
                        lambda e: trace.append(("truthy", e)),
                        1,  # type: ignore[arg-type]
                    )
                    raise error

            assert exc.value is error
            assert trace == [("truthy", error), "noarg", error]

    async def test_failing_callbacks_are_all_run_and_grouped(self) -> None:
        trace: list[str] = []

        def fail_sync() -> None:
            trace.append("fail_sync")
            raise ValueError("sync failure")

        async def fail_async() -> None:
            trace.append("fail_async")
            await checkpoint()
            raise KeyError("async failure")

        def wrong_signature(a: int, b: int) -> None:
            pass  # pragma: no cover

        original = RuntimeError("original")
        async with Context():
            with pytest.raises(BaseExceptionGroup) as exc:
                async with Context() as ctx:
                    ctx.add_teardown_callback(lambda: trace.append("first added"))
                    ctx.add_teardown_callback(fail_sync)
                    ctx.add_teardown_callback(wrong_signature)
                    ctx.add_teardown_callback(fail_async)
                    ctx.add_teardown_callback(lambda: trace.append("last added"))
                    raise original

        assert trace == ["last added", "fail_async", "fail_sync", "first added"]
        group = exc.value
        assert type(group) is ExceptionGroup
        assert group.message == "Exceptions were raised during context teardown"
        assert group.__cause__ is original
        assert [type(e) for e in group.exceptions] == [KeyError, TypeError, ValueError]
        assert group.exceptions[0].args == ("async failure",)
        assert group.exceptions[2].args == ("sync failure",)
        assert ctx.closed

    async def test_clean_exit_failure_has_no_cause(self) -> None:
        def fail() -> None:
            raise ValueError("x")

        async with Context():
            with pytest.raises(ExceptionGroup) as exc:
                async with Context() as ctx:
                    ctx.add_teardown_callback(fail)

        assert exc.value.__cause__ is None
        assert len(exc.value.exceptions) == 1

    async def test_base_exception_from_callback(self) -> None:
        class Special(BaseException):
            pass

        def fail() -> None:
            raise Special

        ran: list[str] = []
        async with Context():
            with pytest.raises(BaseExceptionGroup) as exc:
                async with Context() as ctx:
                    ctx.add_teardown_callback(lambda: ran.append("ran"))
                    ctx.add_teardown_callback(fail)

        assert ran == ["ran"]
        assert not isinstance(exc.value, ExceptionGroup)
        assert isinstance(exc.value.exceptions[0], Special)

    async def test_cancellation_during_async_callback(self) -> None:
        trace: list[str] = []

        async def slow() -> None:
            trace.append("slow started")
            try:
                await sleep(10)
            finally:
                trace.append("slow interrupted")

        async with Context():
            async with create_task_group() as tg:

                async def run() -> None:
                    try:
                        async with Context() as ctx:
                            ctx.add_teardown_callback(lambda: trace.append("first"))
                            ctx.add_teardown_callback(slow)
                            ctx.add_teardown_callback(lambda: trace.append("last"))
                    finally:
                        trace.append(f"closed={ctx.closed}")

                tg.start_soon(run)
                await sleep(0.1)
                tg.cancel_scope.cancel()

        # The remaining callback is still run after the cancelled one
        assert trace == [
            "last",
            "slow started",
            "slow interrupted",
            "first",
            "closed=True",
        ]

    async def test_add_teardown_callback_errors(self) -> None:
        ctx = Context()
        with pytest.raises(RuntimeError) as exc:
            ctx.add_teardown_callback(lambda: None)

        assert str(exc.value) == "this context has not been entered yet"
        async with ctx:
            with pytest.raises(TypeError) as exc2:
                ctx.add_teardown_callback("not callable")  # type: ignore[arg-type]

            assert str(exc2.value) == "callback must be a callable"

        with pytest.raises(RuntimeError) as exc:
            ctx.add_teardown_callback(lambda: None)

        assert str(exc.value) == "this context has already been closed"
        # State is checked before the callback
        with pytest.raises(RuntimeError):
            ctx.add_teardown_callback(None)  # type: ignore[arg-type]

    async def test_root_context_teardown_failure_is_coalesced(self) -> None:
        def fail() -> None:
            raise ValueError("only one")

        with pytest.raises(ExceptionGroup) as exc:
            async with Context() as ctx:
                ctx.add_teardown_callback(fail)

        # task group wraps the teardown group; a single nested group is not unwrapped
        assert len(exc.value.exceptions) == 1
        inner = exc.value.exceptions[0]
        assert isinstance(inner, ExceptionGroup)
        assert inner.message == "Exceptions were raised during context teardown"
        assert isinstance(inner.exceptions[0], ValueError)
