#!/usr/bin/env python3
"""What `./check <ID>` (quick tier) would do on each kept twin: rules + positive controls
applied ON TOP of the twin.  A control that applies but does not fire would make the check of
a correct tree exit 2 (ANALYSIS-ERROR control-failed).   usage: tools/controls_on_twins.py [prefix...]"""
import glob, os, sys
from concurrent.futures import ProcessPoolExecutor
VERIF = os.path.dirname(os.path.dirname(os.path.abspath(__file__)))
sys.path.insert(0, VERIF)
from sa.driver import PROPS, repo_root
from sa.loader import Project
from selftest.udiff import apply_unified

def job(args):
    tid, ov, prop = args
    from selftest import campaign
    from sa import driver as _driver

    # a control is the twin plus one more edit: keep the twin's other files in the variant
    campaign.analyse_variant = lambda prop_, mov, **kw: _driver.analyse_variant(prop_, {**ov, **mov}, **kw)
    try:
        project = Project(repo_root(), overrides=ov)
        controls, extra = campaign.run_for_check(prop, project, "quick")
    except Exception as e:  # noqa: BLE001
        return tid, prop, [f"exception {type(e).__name__}: {e}"]
    return tid, prop, [f"{c['mutant']} ({c['rule']}): verdict={c['verdict']} fired={c['rules_fired']}" for c in controls if not c["fired"]]

def main():
    pref = [a for a in sys.argv[1:] if not a.startswith("--")]
    base = Project(repo_root(), inline=False)
    sources = {m.relpath: m.src for m in base.modules.values()}
    variants = {}
    for d in sorted(glob.glob(os.path.join(VERIF, "twins", "*", "patch.diff"))):
        tid = os.path.basename(os.path.dirname(d))
        if pref and not any(tid.startswith(p) for p in pref):
            continue
        ov = apply_unified(sources, open(d).read())
        if ov is not None:
            variants[tid] = ov
    if not pref or any(p.startswith("auto") for p in pref):
        from selftest import autotwins
        for name, gen in autotwins.GENERATORS.items():
            variants[name] = gen(dict(sources))
    jobs = [(t, ov, p) for t, ov in variants.items() for p in PROPS]
    bad = 0
    with ProcessPoolExecutor(max_workers=16) as ex:
        for tid, prop, fails in ex.map(job, jobs, chunksize=2):
            if fails:
                bad += 1
                print(f"{tid} {prop}:")
                for f in fails:
                    print("     ", f)
    print(f"{len(variants)} twins x {len(PROPS)} properties; (twin, property) pairs with a failing control: {bad}")

if __name__ == "__main__":
    main()
