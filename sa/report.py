"""Verdicts, evidence, replay files, known findings."""
from __future__ import annotations

import ast
import json
import os
import time
from dataclasses import dataclass, field
from typing import Optional

from .loader import AnalysisError, FuncInfo

VERIF = os.path.dirname(os.path.dirname(os.path.abspath(__file__)))

HOLDS, VIOLATION, UNRECOGNISED = "HOLDS", "VIOLATION", "UNRECOGNISED"


def norm_stmt(node) -> str:
    if node is None:
        return ""
    if isinstance(node, str):
        return " ".join(node.split())
    try:
        if isinstance(node, ast.ExceptHandler):
            return "except " + (ast.unparse(node.type) if node.type is not None else "")
        if isinstance(node, ast.withitem):
            return "with " + ast.unparse(node.context_expr)
        if isinstance(node, (ast.FunctionDef, ast.AsyncFunctionDef)):
            return f"def {node.name}"
        if isinstance(node, (ast.If, ast.While)):
            return f"{type(node).__name__.lower()} {ast.unparse(node.test)}"
        if isinstance(node, (ast.For, ast.AsyncFor)):
            return f"for {ast.unparse(node.target)} in {ast.unparse(node.iter)}"
        if isinstance(node, (ast.With, ast.AsyncWith)):
            return "with " + ", ".join(ast.unparse(i.context_expr) for i in node.items)
        if isinstance(node, ast.Try):
            return "try"
        txt = ast.unparse(node)
    except Exception:
        txt = repr(node)
    return " ".join(txt.split())[:200]


class _Canon(ast.NodeTransformer):
    def __init__(self):
        self.names: dict = {}

    def visit_Name(self, node: ast.Name):
        if node.id not in self.names:
            self.names[node.id] = f"v{len(self.names)}"
        return ast.copy_location(ast.Name(id=self.names[node.id], ctx=node.ctx), node)


def canon_stmt(text: str) -> str:
    """Rename-robust form of a normalised statement: local names become v0, v1, ... in
    order of appearance (attribute names are kept)."""
    try:
        tree = ast.parse(text)
    except SyntaxError:
        return " ".join(text.split())
    return " ".join(ast.unparse(_Canon().visit(tree)).split())


@dataclass
class Instance:
    rule: str
    verdict: str
    site: str  # file:line
    function: str
    stmt: str
    why: str
    path: list = field(default_factory=list)
    nontrivial: bool = True  # inspected >= 1 CFG path or >= 1 resolved call

    def key(self) -> tuple:
        return (self.rule, self.function, self.stmt)

    def as_dict(self, prop: str) -> dict:
        return {
            "property": prop,
            "rule": self.rule,
            "verdict": self.verdict,
            "site": self.site,
            "function": self.function,
            "stmt": self.stmt,
            "why": self.why,
            "path": self.path,
        }


class Report:
    def __init__(self, prop: str, tier: str, seed: int):
        self.prop = prop
        self.tier = tier
        self.seed = seed
        self.instances: list[Instance] = []
        self.floors: list = []  # (rule, found, minimum)
        self.notes: list = []
        self.assumptions: list = []
        self.extra: dict = {}
        self.t0 = time.time()
        self.paths_enumerated = 0
        self.calls_resolved = 0
        self.functions_analysed: set = set()
        self.exhaustive: Optional[bool] = None

    # ------------------------------------------------------------------ recording
    def _site(self, func: Optional[FuncInfo], node) -> tuple:
        if func is not None:
            self.functions_analysed.add(func.qualname)
            return func.loc(node if isinstance(node, ast.AST) else None), func.qualname
        return "", ""

    def hold(self, rule: str, func: Optional[FuncInfo], node, why: str, nontrivial: bool = True) -> None:
        site, fq = self._site(func, node)
        self.instances.append(Instance(rule, HOLDS, site, fq, norm_stmt(node), why, nontrivial=nontrivial))

    def violate(self, rule: str, func: Optional[FuncInfo], node, why: str, path: list | None = None) -> None:
        site, fq = self._site(func, node)
        self.instances.append(Instance(rule, VIOLATION, site, fq, norm_stmt(node), why, path or []))

    def unrecognised(self, rule: str, func: Optional[FuncInfo], node, why: str) -> None:
        site, fq = self._site(func, node)
        self.instances.append(Instance(rule, UNRECOGNISED, site, fq, norm_stmt(node), why))

    def check(self, rule: str, cond: bool, func, node, ok: str, bad: str, path: list | None = None) -> bool:
        if cond:
            self.hold(rule, func, node, ok)
        else:
            self.violate(rule, func, node, bad, path)
        return cond

    def floor(self, rule: str, found: int, minimum: int) -> None:
        self.floors.append((rule, found, minimum))

    def note(self, text: str) -> None:
        self.notes.append(text)

    def assume(self, text: str) -> None:
        if text not in self.assumptions:
            self.assumptions.append(text)

    def count(self, rule: str, verdict: str | None = None) -> int:
        return sum(1 for i in self.instances if i.rule == rule and (verdict is None or i.verdict == verdict))


def load_known_findings() -> list:
    path = os.path.join(VERIF, "known_findings.json")
    if not os.path.exists(path):
        return []
    with open(path) as fh:
        data = json.load(fh)
    return data.get("findings", []) if isinstance(data, dict) else data


def split_known(rep: Report) -> tuple:
    """-> (listed [(instance, finding)], unlisted [(instance, None)])"""
    known = [k for k in load_known_findings() if k.get("property") == rep.prop and k.get("status") == "known"]
    listed, unlisted = [], []
    for v in [i for i in rep.instances if i.verdict == VIOLATION]:
        match = None
        for k in known:
            # `why_contains` narrows an entry to one kind of violation of the rule at that
            # construct (a different violation of the same rule there is still reported)
            # `any_statement` (only together with why_contains): the finding is this KIND of
            # violation of the rule in this function, however the statement is spelled - a
            # refactoring of the function that keeps the defect keeps the finding
            same_stmt = canon_stmt(k.get("stmt", "")) == canon_stmt(v.stmt) or (k.get("any_statement") and k.get("why_contains"))
            if k.get("rule") == v.rule and k.get("function") == v.function and same_stmt and k.get("why_contains", "") in v.why:
                match = k
                break
        (listed if match else unlisted).append((v, match))
    return listed, unlisted


def finish(rep: Report, project, controls: list, error: str | None = None) -> int:
    """Print verdict lines, write evidence + replay files, return the exit code."""
    prop = rep.prop
    unrec = [i for i in rep.instances if i.verdict == UNRECOGNISED]
    listed, unlisted = split_known(rep)
    errors = []
    if error:
        errors.append(error)
    for rule, found, minimum in rep.floors:
        if found < minimum:
            errors.append(f"instance-floor {rule}: found {found} < confirmed minimum {minimum}")
    for c in controls:
        if not c["fired"]:
            errors.append(f"control-failed {c['rule']}: positive control did not fire")
    for u in unrec:
        errors.append(f"unrecognised {u.rule} at {u.site} ({u.function}): {u.why}")

    os.makedirs(os.path.join(VERIF, "replays"), exist_ok=True)
    os.makedirs(os.path.join(VERIF, "evidence"), exist_ok=True)
    lines = []
    for v, k in listed:
        lines.append(f"KNOWN-FINDING: property={prop} {k.get('id', '')} {v.rule} {v.function} at {v.site}: {k.get('what', v.why)}")
    replay_paths = []
    for n, (v, _) in enumerate(unlisted, 1):
        rp = os.path.join(VERIF, "replays", f"{prop}-{n}.json")
        with open(rp, "w") as fh:
            json.dump(v.as_dict(prop), fh, indent=1)
        replay_paths.append(rp)
        lines.append(f"VIOLATION property={prop} replay={rp}")
        lines.append(f"  {v.rule} {v.site} in {v.function}: {v.why}")
        lines.append(f"  construct: {v.stmt}")
        for step in v.path[:12]:
            lines.append(f"    via {step}")
    for e in errors:
        lines.append(f"ANALYSIS-ERROR property={prop} {e}")

    if unlisted:
        code = 1
    elif errors:
        code = 2
    else:
        code = 0

    holds = [i for i in rep.instances if i.verdict == HOLDS]
    obligations = len(rep.instances)
    distinct_nontrivial = len({i.key() for i in rep.instances if i.nontrivial})
    rules = sorted({i.rule for i in rep.instances})
    samples = [i.as_dict(prop) for i in _pick_samples(rep.instances, rep.seed)]
    evidence = {
        "property_id": prop,
        "tier": rep.tier,
        "seed": rep.seed,
        "level": "other",
        "coverage": {
            "explanation": (
                "static conformance: repository-specific structural obligations, each necessary for a named clause "
                "of the property, decided on the AST/CFG/effect summaries of the current /repo sources on all paths "
                "of the named functions; the behaviour itself is not observed"
            ),
            "obligations": obligations,
            "discharged": len(holds),
            "evaluations": obligations,
            "distinct_nontrivial": distinct_nontrivial,
            "rule": "one evaluation per (rule, site) instance; non-trivial = inspected at least one CFG path or resolved call; distinct by (rule, function, normalised statement)",
            "samples": samples,
            "rules_applied": rules,
            "per_rule": {r: {"instances": rep.count(r), "holds": rep.count(r, HOLDS), "violations": rep.count(r, VIOLATION), "unrecognised": rep.count(r, UNRECOGNISED)} for r in rules},
            "instance_floors": [{"rule": r, "found": f, "minimum": m} for r, f, m in rep.floors],
            "positive_controls": controls,
            "files": project.files_evidence() if project is not None else [],
            "functions_analysed": sorted(rep.functions_analysed),
            "paths_enumerated": rep.paths_enumerated,
            "known_findings_matched": [v.as_dict(prop) for v, _ in listed],
            "violations_unlisted": [v.as_dict(prop) for v, _ in unlisted],
            "analysis_errors": errors,
            "notes": rep.notes,
            **({"exhaustive": rep.exhaustive} if rep.exhaustive is not None else {}),
            **rep.extra,
        },
        "assumptions": rep.assumptions,
        "wall_s": round(time.time() - rep.t0, 3),
        "violations": len(unlisted),
    }
    with open(os.path.join(VERIF, "evidence", f"{prop}.json"), "w") as fh:
        json.dump(evidence, fh, indent=1, default=str)
    summary = (
        f"{prop} [{rep.tier}] rules={len(rules)} instances={obligations} holds={len(holds)} "
        f"violations={len(unlisted)} known={len(listed)} errors={len(errors)} wall={evidence['wall_s']}s"
    )
    print(summary)
    for ln in lines:
        print(ln)
    return code


def _pick_samples(instances: list, seed: int, n: int = 8) -> list:
    if not instances:
        return []
    bad = [i for i in instances if i.verdict != HOLDS]
    rest = [i for i in instances if i.verdict == HOLDS]
    import random

    rnd = random.Random(seed)
    rnd.shuffle(rest)
    # one per rule first
    seen, picked = set(), []
    for i in rest:
        if i.rule not in seen:
            seen.add(i.rule)
            picked.append(i)
    return (bad + picked)[: max(n, len(bad))]
