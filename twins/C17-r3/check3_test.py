"""
Behaviour check for refactoring 3 (``x or {}`` idioms, conditional expression, renamed
locals).

Focus: comparison against an independently written reference model over a few hundred
pseudo-random nested configurations (fixed seed), including None for either argument,
and a check of purity, key order and aliasing on each of them.
"""

from __future__ import annotations

import copy
import random
from typing import Any

import pytest

from asphalt.core import merge_config

KEYS = ["a", "b", "c", "a.b", "a.b.c", "logging.handlers", ""]


def reference_merge(original: Any, overrides: Any) -> dict[str, Any]:
    """Specification-level model: right-biased deep merge, None == empty dict."""
    result: dict[str, Any] = {}
    for key in original or {}:
        result[key] = original[key]

    for key in overrides or {}:
        if (
            key in result
            and isinstance(result[key], dict)
            and isinstance(overrides[key], dict)
        ):
            result[key] = reference_merge(result[key], overrides[key])
        else:
            result[key] = overrides[key]

    return result


def random_value(rng: random.Random, depth: int) -> Any:
    choice = rng.random()
    if depth > 0 and choice < 0.5:
        return random_config(rng, depth - 1)
    elif choice < 0.6:
        return None
    elif choice < 0.7:
        return [rng.randint(0, 3), {"in_list": rng.randint(0, 3)}]
    elif choice < 0.8:
        return {}
    elif choice < 0.9:
        return rng.choice(["text", "a.b", ""])
    else:
        return rng.randint(-2, 2)


def random_config(rng: random.Random, depth: int) -> dict[str, Any]:
    keys = rng.sample(KEYS, rng.randint(0, len(KEYS)))
    return {key: random_value(rng, depth) for key in keys}


def assert_same_structure(actual: Any, expected: Any) -> None:
    """Like ``==`` but also compares types and key order, recursively."""
    assert type(actual) is type(expected)
    if isinstance(expected, dict):
        assert list(actual) == list(expected)
        for key in expected:
            assert_same_structure(actual[key], expected[key])
    elif isinstance(expected, list):
        assert len(actual) == len(expected)
        for actual_item, expected_item in zip(actual, expected):
            assert_same_structure(actual_item, expected_item)
    else:
        assert actual == expected


@pytest.mark.parametrize("seed", range(8))
def test_against_reference_model(seed: int) -> None:
    rng = random.Random(seed)
    for _ in range(60):
        original = None if rng.random() < 0.1 else random_config(rng, 4)
        overrides = None if rng.random() < 0.1 else random_config(rng, 4)
        original_snapshot = copy.deepcopy(original)
        overrides_snapshot = copy.deepcopy(overrides)

        result = merge_config(original, overrides)

        # Pure: inputs untouched at every depth
        assert_same_structure(original, original_snapshot)
        assert_same_structure(overrides, overrides_snapshot)
        # Same value, types and key order as the model
        assert_same_structure(result, reference_merge(original, overrides))
        # Every key of either input is present
        assert set(result) == set(original or {}) | set(overrides or {})
        # The result is a fresh dict, and calling again gives an equal, distinct one
        assert result is not original
        assert result is not overrides
        again = merge_config(original, overrides)
        assert again is not result
        assert_same_structure(again, result)


def test_idempotent_and_identity_laws() -> None:
    rng = random.Random(1234)
    for _ in range(50):
        config = random_config(rng, 3)
        assert_same_structure(merge_config(config, None), config)
        assert_same_structure(merge_config(None, config), config)
        assert_same_structure(merge_config(config, {}), config)
        assert_same_structure(merge_config({}, config), config)
        assert_same_structure(merge_config(config, config), config)


def test_falsy_override_values_still_override() -> None:
    original = {"a": {"x": 1}, "b": 5, "c": "s", "d": [1], "e": True}
    overrides = {"a": 0, "b": None, "c": "", "d": [], "e": False}
    result = merge_config(original, overrides)
    assert_same_structure(result, {"a": 0, "b": None, "c": "", "d": [], "e": False})


def test_dotted_keys_are_not_expanded() -> None:
    original = {"logging": {"loggers": {"asphalt": {"level": "INFO"}}}}
    overrides = {
        "logging": {"loggers": {"asphalt.core": {"level": "DEBUG"}}},
        "logging.loggers": {"asphalt": {"level": "ERROR"}},
    }
    assert_same_structure(
        merge_config(original, overrides),
        {
            "logging": {
                "loggers": {
                    "asphalt": {"level": "INFO"},
                    "asphalt.core": {"level": "DEBUG"},
                }
            },
            "logging.loggers": {"asphalt": {"level": "ERROR"}},
        },
    )


def test_aliasing_of_untouched_subtrees() -> None:
    shared_original = {"deep": {"deeper": [1, 2]}}
    shared_override = {"deep": {"other": 1}}
    original = {"keep": shared_original, "merge": {"x": shared_original}}
    overrides = {"add": shared_override, "merge": {"y": shared_override}}
    result = merge_config(original, overrides)
    assert result["keep"] is shared_original
    assert result["add"] is shared_override
    assert result["merge"]["x"] is shared_original
    assert result["merge"]["y"] is shared_override
    assert result["merge"] is not original["merge"]
    assert result["merge"] is not overrides["merge"]
