"""
Property C11 (every (instance, signal attribute) pair is an independent channel),
checked through the public API.  Must pass on the unchanged source and with
refactor3.diff applied (dispatch() fast path without subscribers, eager bound check and
single-signal convenience in stream_events()/wait_event()).  Emphasis: dispatch and
subscribe histories - channels with and without listeners, listeners coming and going,
full queues, cancelled waiters, concurrent waiters, one-shot iterables of signals.
"""

from __future__ import annotations

import gc
import random
import warnings
import weakref
from contextlib import AsyncExitStack
from typing import Any

import pytest
from anyio import create_task_group, fail_after, move_on_after, wait_all_tasks_blocked

from asphalt.core import (
    Event,
    Signal,
    SignalQueueFull,
    UnboundSignal,
    stream_events,
    wait_event,
)

pytestmark = pytest.mark.anyio()


class JobEvent(Event):
    def __init__(self, job: Any = None) -> None:
        self.job = job


class LogEvent(Event):
    def __init__(self, line: Any = None) -> None:
        self.line = line


class Worker:
    started = Signal(JobEvent)
    finished = Signal(JobEvent)
    logged = Signal(LogEvent)


class SpecialWorker(Worker):
    escalated = Signal(JobEvent)


def test_dispatch_without_listeners_still_stamps_the_channel() -> None:
    first, second = SpecialWorker(), SpecialWorker()
    for owner in (first, second):
        for name, cls in [
            ("started", JobEvent),
            ("finished", JobEvent),
            ("logged", LogEvent),
            ("escalated", JobEvent),
        ]:
            event = cls(name)
            assert getattr(owner, name).dispatch(event) is None
            assert event.source is owner
            assert event.topic == name
            assert isinstance(event.time, float)

    # and the wrong class is rejected even when nobody listens, leaving it unstamped
    stray = LogEvent("stray")
    with pytest.raises(TypeError):
        first.started.dispatch(stray)  # type: ignore[arg-type]
    assert not hasattr(stray, "source") and not hasattr(stray, "topic")


async def test_listeners_coming_and_going() -> None:
    worker, other = Worker(), Worker()
    before = JobEvent("before anyone listens")
    worker.started.dispatch(before)

    async with worker.started.stream_events() as long_lived:
        async with worker.started.stream_events() as short_lived:
            both = JobEvent("both")
            worker.started.dispatch(both)
            other.started.dispatch(JobEvent("other instance"))
            worker.finished.dispatch(JobEvent("other attribute"))
            assert await short_lived.__anext__() is both

        only_long = JobEvent("only long lived")
        worker.started.dispatch(only_long)
        assert await long_lived.__anext__() is both
        assert await long_lived.__anext__() is only_long

    # back to no listeners at all; then a new listener sees only what follows
    worker.started.dispatch(JobEvent("nobody"))
    async with worker.started.stream_events() as late:
        fresh = JobEvent("fresh")
        worker.started.dispatch(fresh)
        assert await late.__anext__() is fresh


async def test_random_history_over_many_channels() -> None:
    rng = random.Random(3)
    owners = [SpecialWorker() for _ in range(3)]
    names = ["started", "finished", "logged", "escalated"]
    make = {
        "started": JobEvent,
        "finished": JobEvent,
        "logged": LogEvent,
        "escalated": JobEvent,
    }
    channels = [(index, name) for index in range(3) for name in names]
    async with AsyncExitStack() as outer:
        open_streams: list[tuple[set[tuple[int, str]], Any, list[Event], Any]] = []
        for step in range(120):
            action = rng.random()
            if action < 0.15 and len(open_streams) < 8:
                subscribed = set(rng.sample(channels, rng.randint(1, 3)))
                stack = AsyncExitStack()
                # a one-shot generator of signals is fine for stream_events()
                stream = await stack.enter_async_context(
                    stream_events(
                        (getattr(owners[i], n) for i, n in sorted(subscribed)),
                        max_queue_size=200,
                    )
                )
                outer.push_async_callback(stack.aclose)
                open_streams.append((subscribed, stream, [], stack))
            elif action < 0.25 and open_streams:
                subscribed, stream, expected, stack = open_streams.pop(
                    rng.randrange(len(open_streams))
                )
                for event in expected:
                    assert await stream.__anext__() is event
                await stack.aclose()
            else:
                index, name = rng.choice(channels)
                event = make[name](step)
                getattr(owners[index], name).dispatch(event)
                assert event.source is owners[index] and event.topic == name
                for subscribed, _, expected, _ in open_streams:
                    if (index, name) in subscribed:
                        expected.append(event)

        # every stream holds exactly its own events, in dispatch order, and no more:
        # a final sentinel per channel must come right after the expected events
        sentinels = {}
        for index, name in channels:
            sentinels[index, name] = make[name]("sentinel")
            getattr(owners[index], name).dispatch(sentinels[index, name])

        for subscribed, stream, expected, _ in open_streams:
            expected_here = [
                *expected,
                *(sentinels[channel] for channel in channels if channel in subscribed),
            ]
            for event in expected_here:
                assert await stream.__anext__() is event


async def test_full_queue_on_one_channel_does_not_leak_to_others() -> None:
    worker, other = Worker(), Worker()
    async with AsyncExitStack() as stack:
        tiny = await stack.enter_async_context(
            worker.logged.stream_events(max_queue_size=1)
        )
        roomy = await stack.enter_async_context(worker.logged.stream_events())
        sibling = await stack.enter_async_context(worker.started.stream_events())
        neighbour = await stack.enter_async_context(other.logged.stream_events())

        first, second = LogEvent(1), LogEvent(2)
        worker.logged.dispatch(first)
        with pytest.warns(SignalQueueFull):
            worker.logged.dispatch(second)

        with warnings.catch_warnings():
            warnings.simplefilter("error")
            job, neighbour_line = JobEvent("job"), LogEvent("n")
            worker.started.dispatch(job)
            other.logged.dispatch(neighbour_line)

        assert await tiny.__anext__() is first
        assert await roomy.__anext__() is first
        assert await roomy.__anext__() is second
        assert await sibling.__anext__() is job
        assert await neighbour.__anext__() is neighbour_line

        # the overflowing event was dropped for the tiny subscriber only
        third = LogEvent(3)
        worker.logged.dispatch(third)
        assert await tiny.__anext__() is third
        assert await roomy.__anext__() is third


async def test_concurrent_and_cancelled_waiters() -> None:
    workers = [Worker(), Worker()]
    results: dict[str, Event] = {}

    async def wait_for(label: str, signals: list[Signal[Any]], filter: Any = None) -> None:
        results[label] = await wait_event(signals, filter)

    with fail_after(5):
        async with create_task_group() as tg:
            tg.start_soon(wait_for, "w0.started", [workers[0].started])
            tg.start_soon(wait_for, "w1.started", [workers[1].started])
            tg.start_soon(wait_for, "w0.finished", [workers[0].finished])
            tg.start_soon(
                wait_for, "w1.any", [workers[1].finished, workers[1].logged]
            )
            tg.start_soon(
                wait_for,
                "w0.started#2",
                [workers[0].started],
                lambda event: event.job == 2,
            )
            await wait_all_tasks_blocked()

            # a waiter that gives up must leave the channel usable and quiet
            with move_on_after(0.05):
                await workers[1].started.wait_event()
                pytest.fail("nothing was dispatched yet")

            events = {
                "a": JobEvent(1),
                "b": JobEvent(2),
                "c": JobEvent(3),
                "d": LogEvent("line"),
                "e": JobEvent(4),
            }
            workers[0].started.dispatch(events["a"])
            workers[0].started.dispatch(events["b"])
            workers[0].finished.dispatch(events["c"])
            workers[1].logged.dispatch(events["d"])
            workers[1].started.dispatch(events["e"])

    assert results == {
        "w0.started": events["a"],
        "w0.started#2": events["b"],
        "w0.finished": events["c"],
        "w1.any": events["d"],
        "w1.started": events["e"],
    }
    assert events["d"].source is workers[1] and events["d"].topic == "logged"
    assert events["e"].source is workers[1] and events["e"].topic == "started"


async def test_unbound_signals_are_refused_everywhere() -> None:
    worker = SpecialWorker()
    for declaration in (Worker.started, SpecialWorker.started, SpecialWorker.escalated):
        with pytest.raises(UnboundSignal):
            declaration.dispatch(JobEvent())
        with pytest.raises(UnboundSignal):
            await declaration.wait_event()
        for mixture in (
            [declaration],
            [declaration, worker.started],
            [worker.started, declaration],
            [worker.started, worker.logged, declaration, worker.finished],
        ):
            with pytest.raises(UnboundSignal):
                async with stream_events(mixture):
                    pytest.fail("should not get here")
            with pytest.raises(UnboundSignal):
                await wait_event(mixture)

    # the failed attempts left no subscriptions behind: a full-queue warning would show
    async with worker.started.stream_events(max_queue_size=3) as stream:
        with warnings.catch_warnings():
            warnings.simplefilter("error")
            sent = [JobEvent(number) for number in range(3)]
            for event in sent:
                worker.started.dispatch(event)

        assert [await stream.__anext__() for _ in sent] == sent

    assert worker.started is not Worker.started
    assert SpecialWorker.started is Worker.started


async def test_identity_and_lifetime() -> None:
    owners = [SpecialWorker() for _ in range(3)]
    names = ["escalated", "logged", "started", "finished"]
    bound = {
        (index, name): getattr(owners[index], name)
        for name in names
        for index in range(len(owners))
    }
    assert len({id(signal) for signal in bound.values()}) == 12
    for (index, name), signal in bound.items():
        assert getattr(owners[index], name) is signal
    assert bound[0, "logged"].event_class is LogEvent
    assert bound[0, "escalated"].event_class is JobEvent

    async with bound[2, "logged"].stream_events() as stream:
        owners[2].logged.dispatch(LogEvent("x"))
        received = await stream.__anext__()
        assert received.source is owners[2]
        del received

    refs = [weakref.ref(owner) for owner in owners]
    del owners
    gc.collect()
    assert [ref() for ref in refs] == [None, None, None]
    # the bound signals outlive their owners without resurrecting them
    assert all(signal.event_class in (JobEvent, LogEvent) for signal in bound.values())
