"""
Behaviour check for refactoring 2 (helpers extracted from ``Context.__aenter__`` and
``Context.__aexit__``).

Focus: what entering and leaving a context does, in which order, and what happens on
the error paths (failed entry, re-entry, block error, teardown error, cancellation,
leaving with an open child context).
"""

from __future__ import annotations

from typing import Any

import pytest
from anyio import CancelScope, create_task_group, get_cancelled_exc_class
from anyio.lowlevel import checkpoint

import asphalt.core._context as context_module
from asphalt.core import Context, NoCurrentContext, current_context

pytestmark = pytest.mark.anyio()


@pytest.fixture
def anyio_backend() -> str:
    return "asyncio"


async def test_enter_exit_order_and_current_context() -> None:
    events: list[Any] = []
    with pytest.raises(NoCurrentContext):
        current_context()

    root = Context()
    async with root as entered_root:
        assert entered_root is root
        assert current_context() is root
        child = Context()
        assert child.parent is root

        def child_callback() -> None:
            # Teardown runs before the current context is switched back
            events.append(("child_cb", current_context() is child, child.closed))

        async with child as entered_child:
            assert entered_child is child
            assert current_context() is child
            child.add_teardown_callback(child_callback)
            events.append("child_block")

        events.append(("after_child", current_context() is root, child.closed))

        async def root_callback() -> None:
            # The root task group is still usable during the root's teardown
            await checkpoint()
            events.append(("root_cb", current_context() is root, root.closed))

        root.add_teardown_callback(root_callback)

    with pytest.raises(NoCurrentContext):
        current_context()

    assert events == [
        "child_block",
        ("child_cb", True, True),
        ("after_child", True, True),
        ("root_cb", True, True),
    ]
    assert root.closed and child.closed


async def test_reentry_rejected_in_every_state_without_side_effects() -> None:
    ctx = Context()
    calls: list[str] = []
    async with ctx:
        ctx.add_teardown_callback(lambda: calls.append("teardown"))
        with pytest.raises(
            RuntimeError, match="^this context has already been entered$"
        ):
            async with ctx:
                pytest.fail("must not get here")

        # Still open and still the current context; teardown has not been run
        assert not ctx.closed
        assert current_context() is ctx
        assert calls == []

        async def reenter_during_teardown() -> None:
            with pytest.raises(
                RuntimeError, match="^this context is being torn down$"
            ):
                await ctx.__aenter__()

            calls.append("reenter_attempted")

        ctx.add_teardown_callback(reenter_during_teardown)

    assert calls == ["reenter_attempted", "teardown"]
    assert ctx.closed
    with pytest.raises(RuntimeError, match="^this context has already been closed$"):
        await ctx.__aenter__()

    assert ctx.closed
    with pytest.raises(NoCurrentContext):
        current_context()


async def test_leaving_with_open_child_is_an_error() -> None:
    # Runs in a task of its own so that the (deliberately) corrupted current context
    # variable cannot leak out of this test
    async def scenario() -> None:
        calls: list[str] = []
        parent = Context()
        await parent.__aenter__()
        parent.add_teardown_callback(lambda: calls.append("parent_teardown"))
        child = Context()
        await child.__aenter__()
        child.add_teardown_callback(lambda: calls.append("child_teardown"))

        with pytest.raises(RuntimeError) as exc_info:
            await parent.__aexit__(None, None, None)

        assert str(exc_info.value) == (
            f"Context stack corruption detected: context {id(parent):x} still has "
            f"1 active child context(s)"
        )
        # The parent was torn down and is closed nevertheless; the child is untouched
        assert calls == ["parent_teardown"]
        assert parent.closed
        assert not child.closed
        with pytest.raises(RuntimeError, match="already been closed"):
            parent.add_resource(1)

        child.add_resource(1)
        assert await child.__aexit__(None, None, None) is False
        assert calls == ["parent_teardown", "child_teardown"]
        assert child.closed
        finished.append(True)

    finished: list[bool] = []
    async with create_task_group() as tg:
        tg.start_soon(scenario)

    assert finished == [True]


async def test_leaving_with_open_child_and_block_exception() -> None:
    async with Context():
        parent = Context()
        child = Context(parent)
        await parent.__aenter__()
        await child.__aenter__()
        error = ValueError("block failed")
        # A block exception is not swallowed by the exit stack, so the child check
        # is still reached and reports the corruption
        with pytest.raises(RuntimeError, match="Context stack corruption detected"):
            await parent.__aexit__(ValueError, error, None)

        assert parent.closed
        await child.__aexit__(None, None, None)
        assert child.closed


async def test_teardown_error_still_closes_and_skips_nothing() -> None:
    calls: list[str] = []

    def bad() -> None:
        calls.append("bad")
        raise LookupError("boom")

    async with Context():
        ctx = Context()
        with pytest.raises(BaseException) as exc_info:
            async with ctx:
                ctx.add_teardown_callback(lambda: calls.append("first_added"))
                ctx.add_teardown_callback(bad)
                ctx.add_teardown_callback(lambda: calls.append("last_added"))

        assert isinstance(exc_info.value, BaseExceptionGroup)
        assert exc_info.value.message == (
            "Exceptions were raised during context teardown"
        )
        assert [type(e) for e in exc_info.value.exceptions] == [LookupError]
        assert exc_info.value.__cause__ is None
        assert calls == ["last_added", "bad", "first_added"]
        assert ctx.closed
        with pytest.raises(RuntimeError, match="already been closed"):
            ctx.add_teardown_callback(lambda: None)

        # The context was removed from its parent's bookkeeping and the current
        # context restored, so the outer context can exit cleanly
        assert current_context() is ctx.parent


async def test_cancelled_exit_closes_context() -> None:
    seen: list[Any] = []
    async with Context() as root:
        with CancelScope() as scope:
            async with Context() as child:

                def callback(exc: BaseException | None) -> None:
                    seen.append((type(exc), child.closed))
                    # Still usable during teardown
                    child.add_resource("late", "late")
                    seen.append(child.get_resource_nowait(str, "late"))

                child.add_teardown_callback(callback, pass_exception=True)
                scope.cancel()
                await checkpoint()
                pytest.fail("should have been cancelled")

        assert scope.cancelled_caught
        assert seen == [(get_cancelled_exc_class(), True), "late"]
        assert child.closed
        assert current_context() is root
        with pytest.raises(RuntimeError, match="already been closed"):
            child.get_resource_nowait(str, "late")

        # Root can still spawn child contexts; bookkeeping is intact
        async with Context() as second:
            assert second.parent is root


async def test_failed_entry_leaves_context_unentered(
    monkeypatch: pytest.MonkeyPatch,
) -> None:
    def failing_task_group() -> Any:
        raise OSError("cannot create task group")

    ctx = Context()
    with monkeypatch.context() as patch:
        patch.setattr(context_module, "create_task_group", failing_task_group)
        with pytest.raises(OSError, match="cannot create task group"):
            await ctx.__aenter__()

    # Entry was rolled back completely
    assert not ctx.closed
    with pytest.raises(NoCurrentContext):
        current_context()

    with pytest.raises(RuntimeError, match="not been entered yet"):
        ctx.add_resource(1)

    with pytest.raises(RuntimeError, match="not been entered yet"):
        ctx.add_teardown_callback(lambda: None)

    # ...and the context can still be entered (once)
    calls: list[str] = []
    async with ctx:
        assert current_context() is ctx
        ctx.add_teardown_callback(lambda: calls.append("teardown"))

    assert calls == ["teardown"]
    assert ctx.closed
