"""
Behaviour checks for refactoring 1 (guard clause first, local aliases in
``Context.start_service_task`` / ``Context.start_background_task_factory`` and the
module-level forwarders).

Everything here goes through the public API only and must pass on both the unchanged
and the refactored source.
"""

from __future__ import annotations

import logging
import re
from typing import Any

import anyio
import pytest
from anyio import fail_after, get_current_task
from anyio.abc import TaskStatus
from pytest import LogCaptureFixture

from asphalt.core import (
    Context,
    NoCurrentContext,
    TaskFactory,
    add_resource,
    add_teardown_callback,
    callable_name,
    current_context,
    get_resource_nowait,
    start_background_task_factory,
    start_service_task,
)

pytestmark = pytest.mark.anyio()

BAD_ACTION_MESSAGE = "teardown_action must be a callable, None, or the string 'cancel'"


def core_messages(caplog: LogCaptureFixture) -> list[str]:
    return [rec.getMessage() for rec in caplog.records if rec.name == "asphalt.core"]


async def test_forwarders_require_a_context() -> None:
    async def service() -> None:
        pytest.fail("must never be started")

    with pytest.raises(NoCurrentContext):
        await start_service_task(service, "orphan")

    with pytest.raises(NoCurrentContext):
        await start_background_task_factory()

    # The coroutine objects themselves can be created without a context; the lookup of
    # the current context only happens when they are awaited
    coro = start_service_task(service, "orphan")
    async with Context():
        pass

    with pytest.raises(NoCurrentContext):
        await coro


async def test_start_value_and_task_name() -> None:
    seen: dict[str, Any] = {}

    async def service(*, task_status: TaskStatus[dict[str, int]]) -> None:
        seen["task_name"] = get_current_task().name
        seen["parent"] = current_context().parent
        seen["resource"] = get_resource_nowait(str, "greeting")
        task_status.started(start_value)
        await anyio.sleep_forever()

    start_value = {"port": 8080}
    with fail_after(3):
        async with Context() as ctx:
            add_resource("hello", "greeting")
            retval = await start_service_task(service, "HTTP server")
            assert retval is start_value
            assert seen == {
                "task_name": "Service task: HTTP server",
                "parent": ctx,
                "resource": "hello",
            }


async def test_no_task_status_returns_none_via_method_and_function() -> None:
    calls: list[str] = []

    async def service() -> None:
        calls.append(get_current_task().name or "")
        await anyio.sleep_forever()

    with fail_after(3):
        async with Context() as ctx:
            assert await ctx.start_service_task(service, "one") is None
            assert await start_service_task(service, "two") is None
            assert calls == ["Service task: one", "Service task: two"]


@pytest.mark.parametrize(
    "bad_action",
    [
        pytest.param("stop", id="other_string"),
        pytest.param("", id="empty_string"),
        pytest.param("Cancel", id="wrong_case"),
        pytest.param(0, id="zero"),
        pytest.param(False, id="false"),
        pytest.param(42, id="int"),
        pytest.param(("cancel",), id="tuple"),
        pytest.param(object(), id="object"),
    ],
)
async def test_bad_teardown_action_rejected_before_start(
    bad_action: Any, caplog: LogCaptureFixture
) -> None:
    caplog.set_level(logging.DEBUG, "asphalt.core")
    started = False

    async def service() -> None:
        nonlocal started
        started = True

    with fail_after(3):
        async with Context() as ctx:
            with pytest.raises(ValueError) as exc_info:
                await start_service_task(service, "bad", teardown_action=bad_action)

            assert str(exc_info.value) == BAD_ACTION_MESSAGE

            with pytest.raises(ValueError, match=re.escape(BAD_ACTION_MESSAGE)):
                await ctx.start_service_task(service, "bad", teardown_action=bad_action)

            await anyio.sleep(0.05)

    assert not started
    assert core_messages(caplog) == []


async def test_current_context_is_the_innermost_one(caplog: LogCaptureFixture) -> None:
    caplog.set_level(logging.DEBUG, "asphalt.core")
    events: list[str] = []

    async def service() -> None:
        try:
            await anyio.sleep_forever()
        finally:
            events.append("service cancelled")

    with fail_after(3):
        async with Context():
            add_teardown_callback(lambda: events.append("outer teardown"))
            async with Context():
                add_teardown_callback(lambda: events.append("inner teardown (early)"))
                await start_service_task(service, "inner service")
                add_teardown_callback(lambda: events.append("inner teardown (late)"))

            events.append("inner exited")

    assert events == [
        "inner teardown (late)",
        "service cancelled",
        "inner teardown (early)",
        "inner exited",
        "outer teardown",
    ]
    assert core_messages(caplog) == [
        "Background task (Service task: inner service) starting",
        "Cancelling service task 'inner service'",
        "Waiting for service task 'inner service' to finish",
        "Background task (Service task: inner service) finished successfully",
        "Service task 'inner service' finished",
    ]


async def test_failure_before_started_propagates_and_registers_nothing(
    caplog: LogCaptureFixture,
) -> None:
    caplog.set_level(logging.DEBUG, "asphalt.core")

    async def service(*, task_status: TaskStatus[None]) -> None:
        raise LookupError("cannot bind")

    with fail_after(3):
        with pytest.raises(LookupError, match="cannot bind"):
            async with Context():
                await start_service_task(service, "failing")

    assert core_messages(caplog) == [
        "Background task (Service task: failing) starting",
        "Background task (Service task: failing) crashed",
    ]


async def test_closed_context_task_started_then_registration_fails() -> None:
    calls: list[str] = []

    async def service() -> None:
        calls.append("ran")

    with fail_after(3):
        async with Context():
            async with Context() as child:
                pass

            with pytest.raises(
                RuntimeError, match="this context has already been closed"
            ):
                await child.start_service_task(service, "late")

            await anyio.sleep(0.05)

    assert calls == ["ran"]


async def test_inactive_context_has_no_task_group() -> None:
    async def service() -> None:
        pytest.fail("must never be started")

    ctx = Context()
    with pytest.raises(AttributeError):
        await ctx.start_service_task(service, "never")

    # ...but the teardown action is still validated first
    with pytest.raises(ValueError, match=re.escape(BAD_ACTION_MESSAGE)):
        await ctx.start_service_task(service, "never", teardown_action=1)  # type: ignore[arg-type]


async def test_background_task_factory_via_forwarder(caplog: LogCaptureFixture) -> None:
    caplog.set_level(logging.DEBUG, "asphalt.core")
    handled: list[BaseException] = []
    results: list[str] = []

    def handler(exc: Exception) -> bool:
        handled.append(exc)
        return True

    async def good() -> None:
        results.append(get_resource_nowait(str))

    async def bad() -> None:
        raise KeyError("boom")

    with fail_after(3):
        async with Context():
            add_resource("res")
            factory = await start_background_task_factory(exception_handler=handler)
            assert isinstance(factory, TaskFactory)
            assert factory.exception_handler is handler
            handle = await factory.start_task(good, "good")
            await handle.wait_finished()
            handle = factory.start_task_soon(bad, "bad")
            await handle.wait_finished()
            assert factory.all_task_handles() == set()

    assert results == ["res"]
    assert len(handled) == 1 and isinstance(handled[0], KeyError)
    name = f"Background task factory ({id(factory):x})"
    assert core_messages(caplog) == [
        f"Background task (Service task: {name}) starting",
        "Background task (good) starting",
        "Background task (good) finished successfully",
        "Background task (bad) starting",
        "Background task (bad) crashed",
        f"Calling teardown callback ({callable_name(anyio.Event().set)}) for service "
        f"task {name!r}",
        f"Waiting for service task {name!r} to finish",
        f"Background task (Service task: {name}) finished successfully",
        f"Service task {name!r} finished",
    ]


async def test_background_task_factory_waits_for_tasks_on_teardown() -> None:
    events: list[str] = []

    async def slow() -> None:
        await anyio.sleep(0.1)
        events.append("slow task done")

    with fail_after(3):
        async with Context() as ctx:
            add_teardown_callback(lambda: events.append("resource teardown"))
            factory = await ctx.start_background_task_factory()
            assert factory.exception_handler is None
            factory.start_task_soon(slow)

    assert events == ["slow task done", "resource teardown"]


async def test_background_task_factory_unhandled_error_propagates() -> None:
    async def bad() -> None:
        raise KeyError("boom")

    with fail_after(3):
        with pytest.raises(BaseException) as exc_info:
            async with Context():
                factory = await start_background_task_factory()
                factory.start_task_soon(bad)
                await anyio.sleep(1)

    excs = [exc_info.value]
    while isinstance(excs[0], BaseExceptionGroup):
        assert len(excs[0].exceptions) == 1
        excs = list(excs[0].exceptions)

    assert isinstance(excs[0], KeyError)
